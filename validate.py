#!/usr/bin/env python3
"""python3-vt validate.py  - validates MANIFEST.json and every evidence file against the schemas."""
import json, glob, sys, jsonschema
ok = True
m = json.load(open('/verif/MANIFEST.json'))
jsonschema.validate(m, json.load(open('/root/.vp/MANIFEST.schema.json')))
es = json.load(open('/root/.vp/EVIDENCE.schema.json'))
for c in m['checks']:
    try:
        ev = json.load(open(c['evidence_file']))
        jsonschema.validate(ev, es)
        assert ev['level'] == c['level_claimed']['category'], 'level mismatch'
    except Exception as e:
        ok = False
        print('BAD', c['evidence_file'], str(e)[:200])
print('manifest ok; evidence', 'ok' if ok else 'BAD')
sys.exit(0 if ok else 1)
