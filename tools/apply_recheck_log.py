#!/usr/bin/env python3
"""tools/apply_recheck_log.py <log of seed_recheck.py>  - writes the check results of a (background) re-check run into seeded/*/meta.json"""
import json, os, re, sys, ast
ROOT = os.path.dirname(os.path.dirname(os.path.abspath(__file__)))
n = 0
for line in open(sys.argv[1]):
    m = re.match(r'^(C\d\d[A-Za-z]) on=(\S+) (\{.*?\}) :: (.*)$', line.strip())
    if not m:
        continue
    seed, on, rcs, mech = m.group(1), m.group(2), ast.literal_eval(m.group(3)), m.group(4)
    own = rcs.get(seed[:3])
    if own is None:
        continue
    p = os.path.join(ROOT, 'seeded', seed, 'meta.json')
    meta = json.load(open(p))
    meta['check_result'] = {'quick_exit_code': own, 'caught': own == 1, 'first_mechanisms': mech.replace('"', "'")[:700], 'applied_to': on}
    json.dump(meta, open(p, 'w'), indent=1)
    n += 1
print('updated', n)
