#!/bin/bash
# evaluates every finished pair once
cd /verif
while true; do
  for i in $(seq -w 1 20); do
    id=C$i
    for v in E F; do
      if [ -f /tmp/seed16/$id/out/$id$v.diff ] && [ -f /tmp/seed16/$id/out/${id}${v}_demo.py ] && [ -f /tmp/seed16/$id/out/$id$v.md ] && [ ! -f /tmp/seed16/eval_$id$v.log ]; then
        # the agent may still be verifying: wait until the worktree is clean and both variants exist
        if [ -f /tmp/seed16/$id/out/${id}F.md ] && [ -z "$(git -C /tmp/seed16/$id status --porcelain --untracked-files=no)" ]; then
          touch /tmp/seed16/eval_$id$v.log
          (tools/seed_eval.sh $id $v /tmp/seed16/$id/out > /tmp/seed16/eval_$id$v.log 2>&1 &)
          sleep 3
        fi
      fi
    done
  done
  sleep 30
  [ -f /tmp/seed16/STOP ] && exit 0
done
