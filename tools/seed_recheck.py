#!/usr/bin/env python3
"""tools/seed_recheck.py [-j N] [--update] [--history TEXT] [--tier quick|thorough] [--seed N] <seed id> ...

Re-runs the own check of each named seeded change against a scratch worktree with the change applied (current HEAD of
/repo when the patch still applies there, else the commit it was written against) and prints exit code + first
mechanisms.  --update rewrites meta.json's check_result (and history when given).  Nothing is applied to /repo.
"""
import argparse
import concurrent.futures as cf
import json
import os
import shutil
import subprocess
import tempfile

ROOT = os.path.dirname(os.path.dirname(os.path.abspath(__file__)))      # the checkout this tool lives in (a vp-run snapshot works too)
SEEDED = os.path.join(ROOT, 'seeded')


def sh(cmd, **kw):
    return subprocess.run(cmd, shell=True, capture_output=True, text=True, **kw)


def add_worktree(wt, commit):
    """git worktree operations of concurrent jobs contend for one lock: retry"""
    import time
    for attempt in range(8):
        sh(f'rm -rf {wt}')
        if sh(f'git -C /repo worktree add -q --detach {wt} {commit}').returncode == 0 and os.path.isdir(wt):
            return
        time.sleep(0.5 + attempt)
        sh('git -C /repo worktree prune')
    raise RuntimeError(f'cannot create worktree {wt}')


def job(a):
    seed, tier, vseed, checks = a
    meta = json.load(open(f'{SEEDED}/{seed}/meta.json'))
    wt = f'/tmp/rc-{os.getpid()}-{seed}'
    on = 'HEAD'
    add_worktree(wt, 'HEAD')
    if sh(f'git apply {SEEDED}/{seed}/patch.diff', cwd=wt).returncode != 0:
        on = meta.get('base_commit') or 'HEAD'
        sh(f'git -C /repo worktree remove --force {wt}')
        add_worktree(wt, on)
        if sh(f'git apply {SEEDED}/{seed}/patch.diff', cwd=wt).returncode != 0:
            sh(f'git -C /repo worktree remove --force {wt}')
            return seed, on, {}, 'PATCH DOES NOT APPLY'
    ev = tempfile.mkdtemp(prefix='rcev-')
    env = dict(os.environ, NVF_EVIDENCE_DIR=ev, NVF_REPO_SRC=wt + '/src')
    if vseed is not None:
        env['VERIF_SEED'] = str(vseed)
    rcs, mech = {}, ''
    for c in checks or [seed[:3]]:
        try:
            r = subprocess.run(['/venv/bin/python', '-m', 'nvf.run', c, tier], cwd=ROOT, env=env, capture_output=True, text=True, timeout=3000)
            rcs[c] = r.returncode
            if c == seed[:3]:
                mech = ';'.join(l.strip()[:220] for l in r.stdout.splitlines() if 'violated:' in l or 'INCONCLUSIVE' in l)[:700]
        except subprocess.TimeoutExpired:
            rcs[c] = 'timeout'
    shutil.rmtree(ev, ignore_errors=True)
    sh(f'git -C /repo worktree remove --force {wt}')
    return seed, on[:7], rcs, mech


def main():
    ap = argparse.ArgumentParser()
    ap.add_argument('-j', type=int, default=4)
    ap.add_argument('--update', action='store_true')
    ap.add_argument('--history')
    ap.add_argument('--tier', default='quick')
    ap.add_argument('--seed', type=int)
    ap.add_argument('--checks', default='')
    ap.add_argument('seeds', nargs='+')
    a = ap.parse_args()
    checks = [c for c in a.checks.split(',') if c]
    with cf.ThreadPoolExecutor(a.j) as ex:
        for seed, on, rcs, mech in ex.map(job, [(s, a.tier, a.seed, checks) for s in a.seeds]):
            print(f'{seed} on={on} {rcs} :: {mech[:400]}', flush=True)
            own = rcs.get(seed[:3])
            if a.update and own is not None and not checks:
                p = f'{SEEDED}/{seed}/meta.json'
                m = json.load(open(p))
                was = m['check_result'].get('caught')
                m['check_result'] = {'quick_exit_code': own, 'caught': own == 1, 'first_mechanisms': mech.replace('"', "'")}
                if a.history and not was:
                    m['history'] = a.history
                json.dump(m, open(p, 'w'), indent=1)


if __name__ == '__main__':
    main()
