#!/usr/bin/env python3
"""tools/seed_matrix.py [parallelism] [seed ...]

Runs EVERY check's quick tier against EVERY seeded change and writes /verif/seeded/matrix.json.

Each change is applied in a scratch worktree (outside /repo and /verif, removed afterwards) to the current HEAD of /repo
when its patch still applies there, otherwise to the commit it was written against (meta.json: base_commit).  Older
base commits still contain defects that were repaired later, so for those the same checks are first run on the
unpatched base ("baseline"); an alarm is attributed to the seeded change only where the baseline is quiet.
"""
import concurrent.futures as cf
import json
import os
import re
import shutil
import subprocess
import sys
import tempfile

CHECKS = ['C%02d' % i for i in range(1, 21)]
SEEDED = '/verif/seeded'


def sh(cmd, **kw):
    return subprocess.run(cmd, shell=True, capture_output=True, text=True, **kw)


def run_checks(src):
    ev = tempfile.mkdtemp(prefix='mxev-')
    out = {}
    env = dict(os.environ, NVF_EVIDENCE_DIR=ev, NVF_REPO_SRC=src)
    for c in CHECKS:
        try:
            r = subprocess.run(['/venv/bin/python', '-m', 'nvf.run', c, 'quick'], cwd='/verif', env=env, capture_output=True, text=True, timeout=2400)
            out[c] = r.returncode
        except subprocess.TimeoutExpired:
            out[c] = 2
    shutil.rmtree(ev, ignore_errors=True)
    return out


def worktree(tag, commit):
    wt = f'/tmp/mx-{tag}'
    sh(f'rm -rf {wt}; git -C /repo worktree prune')
    r = sh(f'git -C /repo worktree add -q --detach {wt} {commit}')
    return wt if r.returncode == 0 else None


def job(seed):
    meta = json.load(open(f'{SEEDED}/{seed}/meta.json'))
    head = sh('git -C /repo rev-parse --short HEAD').stdout.strip()
    wt = worktree(seed, 'HEAD')
    on = head
    if sh(f'git apply {SEEDED}/{seed}/patch.diff', cwd=wt).returncode != 0:
        sh(f'git -C /repo worktree remove --force {wt}')
        on = meta.get('base_commit') or 'HEAD'
        wt = worktree(seed, on)
        if wt is None or sh(f'git apply {SEEDED}/{seed}/patch.diff', cwd=wt).returncode != 0:
            sh(f'git -C /repo worktree remove --force {wt}')
            return seed, None, None
    res = run_checks(wt + '/src')
    sh(f'git -C /repo worktree remove --force {wt}')
    return seed, on[:7], res


def baseline(commit):
    wt = worktree('base-' + commit, commit)
    res = run_checks(wt + '/src')
    sh(f'git -C /repo worktree remove --force {wt}')
    return commit, res


def main():
    par = int(sys.argv[1]) if len(sys.argv) > 1 else 4
    seeds = sys.argv[2:] or sorted(d for d in os.listdir(SEEDED) if re.fullmatch(r'C\d\d[A-Za-z]', d))
    head = sh('git -C /repo rev-parse --short HEAD').stdout.strip()[:7]
    rows, applied = {}, {}
    with cf.ThreadPoolExecutor(par) as ex:
        for seed, on, res in ex.map(job, seeds):
            if res is None:
                print(seed, 'patch does not apply', flush=True)
                continue
            rows[seed], applied[seed] = res, on
            print(seed, on, ' '.join(f'{c}={v}' for c, v in res.items() if v), flush=True)
        bases = sorted({on for on in applied.values() if on != head})
        base_res = dict(ex.map(baseline, bases))
    path = f'{SEEDED}/matrix.json'
    old = json.load(open(path)) if os.path.exists(path) and sys.argv[2:] else {}
    m = old.get('matrix', {})
    for seed, res in rows.items():
        b = base_res.get(applied[seed], {})
        m[seed] = {'applied_to': applied[seed],
                   'alarm': sorted(c for c, v in res.items() if v == 1 and b.get(c, 0) != 1),
                   'alarm_also_on_unpatched_base': sorted(c for c, v in res.items() if v == 1 and b.get(c, 0) == 1),
                   'inconclusive': sorted(c for c, v in res.items() if v == 2)}
    json.dump({'legend': 'quick tier of every check run against every seeded change; alarm = exit 1 with the change applied and exit 0 on the '
                         'same commit without it; applied_to = current HEAD where the patch still applies, else the commit it was written against',
               'head': head, 'matrix': m}, open(path, 'w'), indent=1, sort_keys=True)
    for s in sorted(rows):
        own = s[:3]
        print(s, 'own check', 'ALARM' if own in m[s]['alarm'] else ('alarm(base too)' if own in m[s]['alarm_also_on_unpatched_base'] else 'quiet'),
              '| others:', [c for c in m[s]['alarm'] if c != own], '| inconclusive:', m[s]['inconclusive'])


if __name__ == '__main__':
    main()
