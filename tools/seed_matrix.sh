#!/bin/bash
# tools/seed_matrix.sh [parallelism]: runs EVERY check's quick tier against EVERY seeded change (each applied to its base
# commit in a scratch worktree) and writes /verif/seeded/matrix.json: which checks raise an alarm on which change.
P=${1:-6}
cd /verif
job() {
  S=$1    # e.g. C03a
  BASE=$(python3 -c "import json;print(json.load(open('/verif/seeded/$S/meta.json')).get('base_commit') or 'HEAD')")
  WT=/tmp/mx-$S
  rm -rf $WT; git -C /repo worktree add -q --detach $WT $BASE 2>/dev/null || exit 0
  (cd $WT && git apply /verif/seeded/$S/patch.diff) || { git -C /repo worktree remove --force $WT; exit 0; }
  EV=$(mktemp -d)
  OUT=""
  for C in C01 C02 C03 C04 C05 C06 C07 C08 C09 C10 C11 C12 C13 C14 C15 C16 C17 C18 C19 C20; do
    NVF_EVIDENCE_DIR=$EV NVF_REPO_SRC=$WT/src timeout 1800 /venv/bin/python -m nvf.run $C quick > $EV/$C.out 2>&1; RC=$?
    OUT="$OUT $C=$RC"
  done
  echo "$S$OUT" 
  rm -rf $EV; git -C /repo worktree remove --force $WT
}
export -f job
ls /verif/seeded | grep -E '^C[0-9]+[a-z]$' | xargs -P $P -I{} bash -c 'job {}' > /tmp/matrix.txt
python3 - <<'PY'
import json
m = {}
for line in open('/tmp/matrix.txt'):
    parts = line.split()
    if not parts:
        continue
    m[parts[0]] = {kv.split('=')[0]: int(kv.split('=')[1]) for kv in parts[1:]}
json.dump({'legend': 'exit code of each check (quick tier) run against each seeded change applied to its base commit: 0 held, 1 VIOLATION, 2 INCONCLUSIVE',
           'matrix': m}, open('/verif/seeded/matrix.json', 'w'), indent=1, sort_keys=True)
for s, row in sorted(m.items()):
    print(s, 'caught by', [c for c, rc in row.items() if rc == 1], 'inconclusive', [c for c, rc in row.items() if rc == 2])
PY
