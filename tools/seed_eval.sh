#!/bin/bash
# tools/seed_eval.sh <property id> <variant letter> <dir with Cxx?.diff / Cxx?_demo.py / Cxx?.md> [extra check ids...]
# Confirms a seeded change (suite green, demo fails with / passes without) in a scratch worktree and runs
# the property's quick check against it with evidence redirected; stores everything under /verif/seeded/.
set -u
ID=$1; V=$2; SRC=$3; shift 3
EXTRA="$@"
WT=/tmp/evalwt-$ID$V
OUT=/verif/seeded/$ID$V
WRITTEN=$(git -C "$SRC/.." rev-parse HEAD 2>/dev/null || echo HEAD)   # the commit the seeded change was written against
mkdir -p "$OUT"
cp "$SRC/$ID$V.diff" "$OUT/patch.diff"; cp "$SRC/${ID}${V}_demo.py" "$OUT/demo.py"; cp "$SRC/$ID$V.md" "$OUT/notes.md" 2>/dev/null
# evaluate on the current HEAD of /repo when the patch applies there (later fixes included), else on the commit it was written against
BASE=$(git -C /repo rev-parse HEAD)
rm -rf "$WT"; git -C /repo worktree prune; git -C /repo worktree add -q --detach "$WT" "$BASE" || exit 3
if ! git -C "$WT" apply --check "$OUT/patch.diff" 2>/dev/null; then
  git -C /repo worktree remove --force "$WT"; BASE=$WRITTEN
  git -C /repo worktree add -q --detach "$WT" "$BASE" || exit 3
fi
res() { echo "$1" ; }
cd "$WT"
PYTHONPATH=$WT/src timeout 300 /venv/bin/python "$OUT/demo.py" >/dev/null 2>&1; DEMO_CLEAN=$?
git apply "$OUT/patch.diff" || { echo "PATCH DOES NOT APPLY"; git -C /repo worktree remove --force "$WT"; exit 4; }
SUITE=$(PYTHONPATH=$WT/src timeout 900 /venv/bin/python -m pytest -q -p no:cacheprovider tests 2>&1 | tail -1)
PYTHONPATH=$WT/src timeout 300 /venv/bin/python "$OUT/demo.py" >/dev/null 2>&1; DEMO_MUT=$?
cd /verif
EV=$(mktemp -d)
declare -A RC
for C in $ID $EXTRA; do
  NVF_EVIDENCE_DIR=$EV NVF_REPO_SRC=$WT/src timeout 1800 /venv/bin/python -m nvf.run $C quick > "$EV/$C.out" 2>&1; RC[$C]=$?
done
MECH=$(grep -m3 'violated:' "$EV/$ID.out" | cut -c1-220 | tr '\n' ';' | sed 's/"/\x27/g')
export SEED_BASE=$BASE
python3 - "$ID" "$V" "$DEMO_CLEAN" "$DEMO_MUT" "$SUITE" "${RC[$ID]}" "$MECH" "$OUT" "$EXTRA" $(for C in $EXTRA; do echo "$C=${RC[$C]}"; done) <<'PY'
import json, sys
ID, V, dc, dm, suite, rc, mech, out, extra = sys.argv[1:10]
others = dict(a.split('=') for a in sys.argv[10:])
meta = {
 'property': ID, 'variant': V, 'base_commit': __import__('os').environ.get('SEED_BASE'),
 'what_it_needs': open(out + '/notes.md').read() if __import__('os').path.exists(out + '/notes.md') else '',
 'confirmed': {'suite_with_change': suite, 'demo_exit_unchanged': int(dc), 'demo_exit_with_change': int(dm)},
 'check_result': {'quick_exit_code': int(rc), 'caught': int(rc) == 1, 'first_mechanisms': mech},
 'other_checks_exit_codes': others,
 'commands': ['git worktree add <wt> HEAD; git apply patch.diff', 'PYTHONPATH=<wt>/src /venv/bin/python -m pytest -q -p no:cacheprovider tests',
              'PYTHONPATH=<wt>/src /venv/bin/python demo.py', f'NVF_REPO_SRC=<wt>/src NVF_EVIDENCE_DIR=<tmp> /venv/bin/python -m nvf.run {ID} quick'],
}
json.dump(meta, open(out + '/meta.json', 'w'), indent=1)
print(f"{ID}{V}: suite[{suite}] demo clean={dc} mutated={dm} check exit={rc} others={others} :: {mech[:160]}")
PY
rm -rf "$EV"
git -C /repo worktree remove --force "$WT"
