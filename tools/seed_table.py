#!/usr/bin/env python3
"""Prints the markdown table for DESIGN.md section 9 from /verif/seeded/*/meta.json (+ matrix.json when present)."""
import glob, json, os, re
mx = {}
if os.path.exists('/verif/seeded/matrix.json'):
    mx = json.load(open('/verif/seeded/matrix.json'))['matrix']
print('| seed | what the change does / what it needs | own check (quick) | first mechanisms reported | other checks that also alarm |')
print('|---|---|---|---|---|')
for f in sorted(glob.glob('/verif/seeded/*/meta.json')):
    m = json.load(open(f))
    sid = os.path.basename(os.path.dirname(f))
    notes = ' '.join((m.get('what_it_needs') or '').split())
    notes = re.sub(r'^#*\s*', '', notes)[:260].replace('|', '/')
    mech = (m['check_result'].get('first_mechanisms') or '').replace('|', '/')
    mech = '; '.join(x.split(':', 1)[1].strip().split(' x')[0] if 'violated:' in x else x for x in mech.split(';') if x.strip())[:160]
    others = ''
    if sid in mx:
        others = ', '.join(c for c, rc in sorted(mx[sid].items()) if rc == 1 and c != m['property'])
    hist = (m.get('history') or '').replace('|', '/')
    cross = sorted(c for c, rc in (m.get('other_checks_exit_codes') or {}).items() if rc == 1 and c != m['property'])
    if cross:
        others = ', '.join(sorted(set(filter(None, others.split(', '))) | set(cross)))
    verdict = 'caught' if m['check_result']['caught'] else ('not judged here - caught by ' + ', '.join(cross) if cross else 'MISSED')
    print(f"| {sid} | {notes} | {verdict}{(' (' + hist + ')') if hist else ''} | {mech} | {others} |")
