#!/usr/bin/env python3
"""Regenerates MANIFEST.json from the table below (kept in one place so it stays valid)."""
import json, os
HERE = os.path.dirname(os.path.abspath(__file__))
PY = '/venv/bin/python'
CHECKS = {}
NOT_APPLICABLE = {}
exec(open(os.path.join(HERE, 'manifest_table.py')).read())
checks = []
for pid in sorted(CHECKS):
    c = CHECKS[pid]
    checks.append({
        'property_id': pid,
        'quick_cmd': f'{PY} -m nvf.run {pid} quick',
        'thorough_cmd': f'{PY} -m nvf.run {pid} thorough',
        'evidence_file': f'/verif/evidence/{pid}.json',
        'replay_cmd_template': f'{PY} -m nvf.replay {{path}}',
        'engine': 'nvf',
        'level_claimed': {'category': c.get('level', 'exploration'), 'text': c['text'], 'design_ref': c['design_ref']},
        'level_note': c['note'],
        'technique': c['technique'],
    })
m = {
    'version': 1,
    'setup_cmd': f'{PY} -m nvf.selftest',
    'hooks': {
        'guard': 'PYTHON_NDN_VERIF',
        'enable': 'no source hooks: all instrumentation is applied from the harness process (attribute wrapping, time.time patch, sys.monitoring); the variable is exported by the runner but read by nothing in /repo',
        'baseline_off_cmd': 'cd /repo && /venv/bin/python -m pytest -ra -q -p no:cacheprovider --timeout=900 --continue-on-collection-errors',
        'source_commits': [],
        'add_only': True,
    },
    'engines': [
        {'name': 'nvf', 'path': '/verif/nvf', 'serves_properties': sorted(CHECKS),
         'kind_free_text': 'runtime monitors + executable reference models over generated workloads on the real code (virtual-time asyncio loop, boundary recorders, independent TLV codec, step budgets via sys.monitoring)'},
    ],
    'checks': checks,
    'not_applicable': [{'property_id': k, 'reason': v} for k, v in sorted(NOT_APPLICABLE.items())],
    'notes': 'See DESIGN.md. Exit codes: 0 held on what was observed, 1 VIOLATION, 2 INCONCLUSIVE (deciding monitor not reached).',
}
json.dump(m, open(os.path.join(HERE, 'MANIFEST.json'), 'w'), indent=1)
print('checks:', len(checks), 'not_applicable:', len(m['not_applicable']))
