# property -> claim.  Properties without a finished check are listed in NOT_APPLICABLE with the
# reason "check not built yet" until their check lands.
CHECKS['C09'] = dict(
    text='Reference-model monitor: every generated name is converted through every representation by the real code and compared with an independent URI escaper / wire encoder / canonical-order comparator; held on the names and pairs explored, sampled with boundary bias (one-byte values x types exhaustive in the thorough tier).',
    design_ref='DESIGN.md 3/C09', technique='runtime differential monitor against an independent reference codec over generated names and name pairs',
    note='Trusts refcodec (own transcription of the NDN name/URI rules as documented by python-ndn) and CPython.')
CHECKS['C01'] = dict(
    text='Reference-model monitor on the real encoder/decoder: every produced wire is strictly re-read by an independent TLV codec (one element, exact nested lengths) and compared field by field with the inputs and with the library parser; invariant hooks on TlvModel.encode, shrink_length and calculate_signature record both shrink branches. Held on the packets explored (payload sizes solved onto every length-of-length transition, all shipped signers + a synthetic variable-length signer).',
    design_ref='DESIGN.md 3/C01', technique='runtime differential monitor + invariant hooks (record-and-continue wrappers) over generated packets',
    note='Trusts refcodec (own transcription of NDN packet format 0.3), pycryptodomex, CPython.')
CHECKS['C02'] = dict(
    text='Recording signer captures the bytes handed to the real signer; refcodec computes the spec signed/digest portions from the final wire; verification is repeated independently; every byte-substitution/truncation/structural/splice mutant is fed to the matching verifier and must be rejected unless its signed portion, SignatureInfo and signature value are unchanged. Held on the packets and mutants explored.',
    design_ref='DESIGN.md 3/C02', technique='runtime monitor with recording signer + fault injection (wire mutation) judged by an independent reference',
    note='pycryptodomex is common-mode between library and oracle; mutants the strict reader cannot parse are left to C07.', level='fault_enumeration')
CHECKS['C07'] = dict(
    text='Differential monitor of parse_interest/parse_data/parse_lp_packet_v2/parse_certificate/Name.from_bytes against an independent strict reader on random strings, grammar-generated packets and single-edit mutants; exception-class monitor; interpreter-step budget (sys.monitoring) for the linear-time clause. One open known finding (inner-overrun-accepted).',
    design_ref='DESIGN.md 3/C07', technique='runtime differential monitor + sys.monitoring step budget over fuzzed and mutated inputs',
    note='critical = odd type (library definition); legal int width = 1,2,4,8; step budget 60*len+5000 events.')
CHECKS['C08'] = dict(
    text='Generated TlvModel classes (programs) and all shipped models are encoded by the real code and compared byte-for-byte with an independent exact/minimal reference encoder working on the generator-owned spec; decode is compared after normalisation; unknown non-critical/critical elements are inserted at every gap of every nesting level (incl. between a map key and its value), critical elements duplicated and swapped. Held on the classes/values explored.',
    design_ref='DESIGN.md 3/C08', technique='runtime differential monitor over generated programs (model classes) and inputs, with structural fault injection on the wire',
    note='Trusts refcodec and the reflection over _encoded_fields for shipped models; packet models with procedure arguments are covered by C01/C02.')
CHECKS['C03'] = dict(
    text='Generated timed histories (express/Data/Nack/cancel/shutdown over 2-5 concurrent Interests, deadline -1/0/+1 ms grids, validator latency vs deadline, both front-ends) are executed on the real NDNApp over a recording face on a virtual clock; call/return events are recorded at the client boundary and compared with a sequential pending-Interest model yielding the set of acceptable outcomes; exception sentinel on packet reception and background tasks; probe Interests and a pending-table emptiness invariant at quiescence. Thorough tier adds a bounded-exhaustive space of orderings.',
    design_ref='DESIGN.md 3/C03', technique='runtime trace monitor: recorded client-boundary history checked against an executable sequential model on a virtual-time event loop',
    note='Trusts asyncio semantics and the virtual loop (ready queue never reordered); exact ties accept either order.')
CHECKS['C16'] = dict(
    text='Every certificate issued by the real self_sign/sign_req/derive_cert is strictly re-read by the independent codec, its name/content/validity/key locator compared with the request and its signature verified independently under the issuing key; parse_certificate/parse_data must agree. DER signature length histogram recorded.',
    design_ref='DESIGN.md 3/C16', technique='runtime differential monitor against an independent reference codec and verifier over generated issuance requests',
    note='self_sign/sign_req read the real clock: their instants are checked within 5 s.')
CHECKS['C04'] = dict(
    text='Attach/detach/duplicate-attach/Interest histories are replayed on appv2, the legacy app and Dispatcher and every delivery compared with a dict longest-prefix model (exhaustive over all 256 subsets of an 8-prefix tree x 15 Interest names, plus random histories with every name representation); reply callbacks are invoked at deadline-1/0/+1 ms on a virtual clock and the face output and return value compared with the model.',
    design_ref='DESIGN.md 3/C04', technique='runtime monitor with handler/face recorders against an executable dispatch model; virtual-time schedule control for the reply deadline',
    note='detaching a never-attached prefix and handler exceptions are outside the statement.')
CHECKS['C05'] = dict(
    text='Harness-owned validator and handler invocation logs (virtual times) are checked as order constraints: payload returned only after an accepting verdict obtained before the deadline, ValidationFailure carries packet and verdict, handler invoked only after digest check and accepting validator, plain Interests never consult a validator. Full verdict x latency x parameter/signature/digest matrix in both front-ends. One open known finding (v1-validator-unbounded).',
    design_ref='DESIGN.md 3/C05', technique='runtime trace monitor over recorded validator/handler events on a virtual-time loop',
    note='only the only-if direction is demanded for parameterised Interests; ties at the deadline accept either outcome.')
CHECKS['C06'] = dict(
    text='(a) a real StreamFace.run() is fed every single cut (and all double cuts of short streams, EOF at every offset) of generated packet sequences through an asyncio.StreamReader, thorough also real unix/TCP sockets; (b) every packet kind and its byte/truncation/structural mutants are delivered (awaited) to both front-ends in empty and busy states with an exception sentinel on reception and background tasks, bystander Interests/handlers must complete afterwards; (c) malformed datagrams into a real UdpFace over loopback. One open known finding (consequence of the C07 finding).',
    design_ref='DESIGN.md 3/C06', technique='runtime monitoring with fault injection (chunking, mutation) and exception sentinels; bystander liveness restated as bounded completion after the batch',
    note='"legitimately addressed" is decided by the independent strict codec; LP envelopes with repeated/out-of-order headers or a reason-less Nack are ambiguous and not judged.', level='fault_enumeration')
CHECKS['C10'] = dict(
    text='Twin apps in lock-step (bare packet vs the same packet inside an NDNLPv2 envelope with a generated header subset incl. unknown critical/non-critical numbers) must produce equal effect logs (handler calls, completions, face output); Nack envelopes must complete exactly the pending Interests of that name with exactly the reason (0..2^64-1); fragmented envelopes must have no effect; replies to Interests with PIT tokens (length 0..40, answered out of order, some late) are decoded from the recorded face output with the independent codec.',
    design_ref='DESIGN.md 3/C10', technique='runtime differential monitor (twin executions) with boundary recorders and an independent LP decoder',
    note='headers generated in ascending type order before the fragment; PIT-token clause judged on the current front-end only.')
CHECKS['C17'] = dict(
    text='A scripted forwarder on the recording face decodes every command Interest with the independent codec in the format of the front-end in use (signed Interest: parameters digest, DigestSha256 over the signed portion, SignatureTime; legacy: 4 extra name components, digest over the name), records in-flight count and timestamps, and answers per script (status codes with/without body, Nack, silence, garbage, bad signature); return values and absence of exceptions are compared with the script; 1..12 concurrent calls at one clock reading, also under a jittering clock; route() over two connections; ControlResponse values through parse_response.',
    design_ref='DESIGN.md 3/C17', technique='runtime protocol monitor (scripted peer + boundary recorder) on a virtual-time loop with clock-schedule injection',
    note='a bad digest signature on a 200 reply is success in the current front-end (pass_all) and failure in the legacy one.')
CHECKS['C19'] = dict(
    text='A scripted producer answers or drops each Interest of the real segment_fetcher per a generated script; yielded sequence, final outcome and the number of Interests per segment are compared with a small model. Thorough: exhaustive over sizes <= 4 x discovery answer x single lossy request x retry limit x marker placement.',
    design_ref='DESIGN.md 3/C19', technique='runtime monitor: scripted peer with loss/fault injection on a virtual-time loop, outcome compared with an executable model',
    note='objects without any final-block marker are outside the statement.', level='fault_enumeration')
CHECKS['C18'] = dict(
    text='A real SvsInst on a real appv2 NDNApp over a recording face runs generated histories (vectors newer/older/incomparable/unknown nodes/too much for self/malformed, publications, clock advances to just before/after the suppression and periodic deadlines) on a virtual clock; a reference state machine computes the expected merge, callback and emission decisions (due instants read from the public next_sync_timing); emitted sync Interests are decoded from the face output and must carry the full vector.',
    design_ref='DESIGN.md 3/C18', technique='runtime monitor against an executable reference state machine on a virtual-time loop (timer schedule control)',
    note='suppression entry is read from the instance; vectors with a malformed entry may be merged without it or ignored; jitter source seeded.')
CHECKS['C20'] = dict(
    text='read_client_conf() is compared with a small reference resolver over the complete presence product (3 environment variables x candidate-file layouts x key subsets x location kinds) inside a sandbox HOME; an audit hook (sys.addaudithook) records which candidate files are opened; default_face is checked over supported and unsupported URIs, default_keychain over resolved locations.',
    design_ref='DESIGN.md 3/C20', technique='runtime differential monitor against a reference resolver + audit-hook file-access monitor over an enumerated configuration space',
    note='the platform candidate path list is redirected into the sandbox by a harness wrapper; values with % / several colons are outside the generated domain.')
CHECKS['C11'] = dict(
    text='Generated schemas (programs) are printed from the generator-owned AST, compiled by the real compiler and queried through Checker.match (direct and after save/load) on all names up to a length bound over an alphabet hitting every literal (bounded-exhaustive per schema, sampled above a limit); results are compared with a reference interpreter of the documented semantics working on the AST; reach counters for the compiler passes and a step budget on queries.',
    design_ref='DESIGN.md 3/C11', technique='runtime differential monitor: real compiler+checker vs reference interpreter over generated programs and enumerated inputs',
    note='interior tree nodes (#_<id>) are filtered; constraints only refer to patterns of the rule or of rules it references; schemas with > 120 alternatives skipped.')
CHECKS['C12'] = dict(
    text='Checker.check on compiled level-structured schemas with signing relations is compared with the reference interpreter for targeted pairs (packet matching a signed rule x key matching one of its signers) and random pairs incl. near misses, each also with a trailing implicit digest on either side.',
    design_ref='DESIGN.md 3/C12', technique='runtime differential monitor against a reference interpreter over generated schemas and name pairs',
    note='schemas are level-structured so that no name pattern is its own signer.')
CHECKS['C13'] = dict(
    text='Clean generated schemas must compile and load; the same schemas with one injected static error of each kind at every position must raise SemanticError; every single-field corruption of compiled models is loaded and an independent re-check of the six documented sanity rules decides whether LvsModelError is demanded; accepted models are queried under an interpreter-step budget (sys.monitoring) to decide termination.',
    design_ref='DESIGN.md 3/C13', technique='fault injection (static errors, model corruption) with an independent sanity-rule oracle and sys.monitoring step budgets for termination',
    note='termination = bounded interpreter events; corruptions outside the documented rules need not be rejected.', level='fault_enumeration')
CHECKS['C14'] = dict(
    text='The generator builds certificate hierarchies (depth 1..4, ECDSA/RSA) so ground truth is known, injects one deviation at one link (wrong issuer level, forged signature, substituted key, unretrievable certificate via timeout/Nack, unsigned / digest-signed element, missing key locator, locator loop, foreign hierarchy), serves certificates from a scripted server on the recording face and runs the real lvs_validator on a virtual clock; anchors that do not match the roots of trust or are not self-signed must be refused; histories over several validator instances (different anchors, default/explicit storage) are run in permuted orders and every verdict compared with ground truth, with the number of certificate fetches recorded.',
    design_ref='DESIGN.md 3/C14', technique='runtime monitor with fault injection at every chain link and permuted multi-instance histories; verdicts compared with generator ground truth',
    note='RSA/ECDSA links only; validity periods not in the statement; pycryptodomex common-mode.', level='fault_enumeration')
CHECKS['C15'] = dict(
    text='Random histories of keychain operations (also across close/reopen) run on a real KeychainSqlite3 + TpmFile in a scratch directory and are mirrored in a dict model; after every operation all mapping views (iteration/len/membership/lookup, scoped to their owner), default flags (also counted in the stored rows), leftovers under deleted identities/keys (rows and private-key files) and signers (signature verified independently under the selected key, key locator decoded from the signed packet) are compared with the model. Fault sequences: the k-th execute/commit/save_key/os.remove of an operation raises and the operation is repeated; crash points: the connection is abandoned without commit and the store reopened.',
    design_ref='DESIGN.md 3/C15', technique='runtime model-based monitor over generated histories with failpoint injection (proxies around the SQLite connection, key store and file removal)',
    note='crash = abandoned connection (SQLite atomic commit trusted); after an injected fault the model is re-synchronised from the store and the repeated operation judged by its postcondition and the invariants.', level='fault_enumeration')
_ALL = ['C%02d' % i for i in range(1, 21)]
for _p in _ALL:
    if _p not in CHECKS:
        NOT_APPLICABLE[_p] = 'check not built yet in this session (runtime-monitoring design exists in DESIGN.md section 3); not claimed until its monitor runs clean on the unchanged tree'
