# property -> claim.  Properties without a finished check are listed in NOT_APPLICABLE with the
# reason "check not built yet" until their check lands.
CHECKS['C09'] = dict(
    text='Reference-model monitor: every generated name is converted through every representation by the real code and compared with an independent URI escaper / wire encoder / canonical-order comparator; held on the names and pairs explored, sampled with boundary bias (one-byte values x types exhaustive in the thorough tier).',
    design_ref='DESIGN.md 3/C09', technique='runtime differential monitor against an independent reference codec over generated names and name pairs',
    note='Trusts refcodec (own transcription of the NDN name/URI rules as documented by python-ndn) and CPython.')
_ALL = ['C%02d' % i for i in range(1, 21)]
for _p in _ALL:
    if _p not in CHECKS:
        NOT_APPLICABLE[_p] = 'check not built yet in this session (runtime-monitoring design exists in DESIGN.md section 3); not claimed until its monitor runs clean on the unchanged tree'
