"""C08 - TLV models encode to exact, minimal TLV and decode back to equal values.

Programs: model classes generated with type(...) from a spec the generator owns (random field
kinds, type numbers 1..2^32, nesting, IncludeBase single/diamond inheritance, overrides), plus the
models shipped with the library (spec derived by reflection over _encoded_fields).
Oracle: refcodec's exact encoder applied to the spec/value tree; decode compared after
normalisation; unknown elements inserted at every gap of every nesting level.
"""
import enum

from . import gen, refcodec as rc
from .common import raising_site

from ndn.encoding import (TlvModel, UintField, BoolField, BytesField, NameField, ModelField, RepeatedField, MapField,
                          IncludeBase, DecodeError, Name)
from ndn.encoding.tlv_model import ProcedureArgument, SignatureValueField, InterestNameField

RULE = ('generated model classes (uint with/without fixed_len/Enum/Flag, bool, bytes, text, name, sub-model, repeated, '
        'map; type numbers biased to 0xFC/0xFD/0xFFFF/0x10000/2^32-1; nesting <= 3; IncludeBase single + diamond, '
        'overrides) and every shipped model x generated values (width boundaries, empty/252/253/65535/65536+ strings, '
        'non-ASCII text); per value: exact-encoding comparison, round trip, unknown non-critical / critical element '
        'at every gap at every nesting level, duplicated and swapped critical elements; distinct = (class id, value '
        'shape); non-trivial = at least two fields present'
        '; every model is also encoded into a caller-supplied pre-filled buffer at an offset')

TYPE_POOL = [1, 2, 3, 8, 9, 0x15, 0x80, 0x81, 0xFB, 0xFC, 0xFD, 0xFE, 0xFF, 0x100, 0x101, 0xFFFE, 0xFFFF, 0x10000, 0x10001,
             0xFFFFFFFE, 0xFFFFFFFF]


class Color(enum.Enum):
    RED = 0
    GREEN = 1
    BLUE = 300


class Perm(enum.Flag):
    NONE = 0
    R = 1
    W = 2
    X = 4


# ------------------------------------------------------------------ spec
# field spec: dict(kind, name, type, ...)  model spec: dict(fields=[...], cls=<class>)

def fresh_type(rng, used, odd=None):
    for _ in range(1000):
        t = rng.choice(TYPE_POOL) if rng.random() < 0.6 else rng.randint(1, rng.choice([255, 70000, 2**32 - 1]))
        if t == 7:
            continue
        if odd is not None and (t & 1) != (1 if odd else 0):
            continue
        if t not in used:
            used.add(t)
            return t
    raise RuntimeError('no type')


def gen_field(rng, name, used, depth, counter):
    kinds = ['uint', 'uint', 'bool', 'bytes', 'text', 'name', 'model', 'rep', 'map']
    if depth >= 3:
        kinds = ['uint', 'bool', 'bytes', 'text']
    kind = rng.choice(kinds)
    if kind == 'name':
        if 7 in used:
            kind = 'bytes'
        else:
            used.add(7)
            return {'kind': 'name', 'name': name, 'type': 7}
    t = fresh_type(rng, used)
    f = {'kind': kind, 'name': name, 'type': t}
    if kind == 'uint':
        f['fixed_len'] = rng.choice([None, None, None, 1, 2, 4, 8])
        f['base'] = rng.choice([None, None, None, 'enum', 'flag'])
        f['default'] = rng.choice([None, None, None, 5])
        if f['base']:
            f['default'] = None
            f['fixed_len'] = rng.choice([None, None, 2, 4])
    elif kind == 'model':
        f['spec'] = gen_model(rng, depth + 1, counter)
        f['ignore_critical'] = rng.random() < 0.15
    elif kind == 'rep':
        ek = rng.choice(['uint', 'bytes', 'text', 'model', 'name'] if depth < 2 else ['uint', 'bytes'])
        if ek == 'name':
            if 7 in used:
                ek = 'bytes'
            else:
                used.add(7)
                f['type'] = 7
                used.discard(t)
        e = {'kind': ek, 'name': name + '_e', 'type': f['type']}
        if ek == 'uint':
            e['fixed_len'] = rng.choice([None, None, 2])
            e['base'] = None
            e['default'] = None
        if ek == 'model':
            e['spec'] = gen_model(rng, depth + 1, counter)
            e['ignore_critical'] = False
        f['elem'] = e
    elif kind == 'map':
        kk = rng.choice(['uint', 'bytes', 'text'])
        key = {'kind': kk, 'name': name + '_k', 'type': t}
        if kk == 'uint':
            key.update(fixed_len=None, base=None, default=None)
        vt = fresh_type(rng, used)
        vk = rng.choice(['uint', 'bytes', 'text', 'model', 'name'] if depth < 2 else ['uint', 'bytes', 'name'])
        if vk == 'name':
            if 7 in used:
                vk = 'bytes'
            else:
                used.add(7)
                used.discard(vt)
                vt = 7
        val = {'kind': vk, 'name': name + '_v', 'type': vt}
        if vk == 'uint':
            val.update(fixed_len=rng.choice([None, 4]), base=None, default=None)
        if vk == 'model':
            val['spec'] = gen_model(rng, depth + 1, counter)
            val['ignore_critical'] = False
        f['key'], f['val'] = key, val
    return f


SUBCLASS_I = [0]


class MyRepeated(RepeatedField):
    """An application's own subclass of the library's field class (adds nothing): a field declared through it is that kind of field."""


class MyMap(MapField):
    pass


def make_lib_field(f):
    SUBCLASS_I[0] += 1
    k = f['kind']
    if k == 'uint':
        base = {None: int, 'enum': Color, 'flag': Perm}[f.get('base')]
        return UintField(f['type'], default=f.get('default'), fixed_len=f.get('fixed_len'), val_base_type=base)
    if k == 'bool':
        return BoolField(f['type'])
    if k == 'bytes':
        return BytesField(f['type'])
    if k == 'text':
        return BytesField(f['type'], is_string=True)
    if k == 'name':
        return NameField()
    if k == 'model':
        return ModelField(f['type'], f['spec']['cls'], ignore_critical=f.get('ignore_critical', False))
    if k == 'rep':
        return (RepeatedField if SUBCLASS_I[0] % 3 else MyRepeated)(make_lib_field(f['elem']))
    if k == 'map':
        return (MapField if SUBCLASS_I[0] % 3 else MyMap)(make_lib_field(f['key']), make_lib_field(f['val']))
    raise ValueError(k)


def gen_model(rng, depth, counter, allow_inherit=True):
    """-> spec dict with 'fields' (effective, in encoding order) and 'cls'."""
    counter[0] += 1
    cid = counter[0]
    used = set()
    style = rng.random()
    if allow_inherit and depth == 0 and style < 0.25:
        # single inheritance with IncludeBase in the middle + optional override
        base_fields = [gen_field(rng, f'b{i}', used, depth, counter) for i in range(rng.randint(1, 3))]
        Base = type(f'Base{cid}', (TlvModel,), {f['name']: make_lib_field(f) for f in base_fields})
        pre = [gen_field(rng, f'p{i}', used, depth, counter) for i in range(rng.randint(0, 2))]
        post = [gen_field(rng, f'q{i}', used, depth, counter) for i in range(rng.randint(0, 2))]
        attrs = {}
        for f in pre:
            attrs[f['name']] = make_lib_field(f)
        attrs['_base'] = IncludeBase(Base)
        order = pre + base_fields
        if rng.random() < 0.4:
            # override a base field by name: the new definition takes the base field's position
            i = rng.randrange(len(base_fields))
            used.discard(base_fields[i]['type'])
            nf = gen_field(rng, base_fields[i]['name'], used, 3, counter)
            attrs[nf['name']] = make_lib_field(nf)
            order[len(pre) + i] = nf
        for f in post:
            attrs[f['name']] = make_lib_field(f)
        order = order + post
        cls = type(f'Derived{cid}', (Base,), attrs)
        return {'fields': order, 'cls': cls, 'id': cid, 'style': 'derived'}
    if allow_inherit and depth == 0 and 0.35 <= style < 0.42:
        # derivation WITHOUT IncludeBase: a base that the class body does not place contributes nothing to the wire form
        # (documentation: "there must be a field for every base class to explicitly include its base class"); a field of the body
        # that re-uses a base field's name is an ordinary field of the body, at its own place
        base_fields = [gen_field(rng, f'b{i}', used, 3, counter) for i in range(rng.randint(1, 3))]
        Base = type(f'UBase{cid}', (TlvModel,), {f['name']: make_lib_field(f) for f in base_fields})
        own = [gen_field(rng, f'p{i}', used, depth, counter) for i in range(rng.randint(1, 3))]
        if rng.random() < 0.4:
            nf = gen_field(rng, base_fields[0]['name'], used, 3, counter)
            own.insert(rng.randrange(len(own) + 1), nf)
        cls = type(f'Unplaced{cid}', (Base,), {f['name']: make_lib_field(f) for f in own})
        names = {f['name'] for f in own}
        return {'fields': own, 'cls': cls, 'id': cid, 'style': 'derived-unplaced', 'unplaced': [f for f in base_fields if f['name'] not in names]}
    if allow_inherit and depth == 0 and style < 0.35:
        # diamond
        a = [gen_field(rng, f'a{i}', used, 3, counter) for i in range(rng.randint(1, 2))]
        A = type(f'A{cid}', (TlvModel,), {f['name']: make_lib_field(f) for f in a})
        b = [gen_field(rng, 'bb', used, 3, counter)]
        B = type(f'B{cid}', (A,), {'_a': IncludeBase(A), **{f['name']: make_lib_field(f) for f in b}})
        c = [gen_field(rng, 'cc', used, 3, counter)]
        c_post = [gen_field(rng, f'c{i}', used, 3, counter) for i in range(2, 2 + rng.randint(0, 2))]       # C's own fields after the shared ones
        C = type(f'C{cid}', (A,), {**{f['name']: make_lib_field(f) for f in c}, '_a': IncludeBase(A), **{f['name']: make_lib_field(f) for f in c_post}})
        d = [gen_field(rng, 'dd', used, 3, counter)]
        d_attrs = {'_b': IncludeBase(B), '_c': IncludeBase(C)}
        eff = a + b + c + list(c_post)
        if c_post and rng.random() < 0.6:
            # D overrides (by name) a field that stands AFTER the shared fields in base C: the new definition takes its position
            j = rng.randrange(len(c_post))
            used.discard(c_post[j]['type'])
            nf = gen_field(rng, c_post[j]['name'], used, 3, counter)
            d_attrs[nf['name']] = make_lib_field(nf)
            eff[len(a + b + c) + j] = nf
        elif rng.random() < 0.3:
            # ... or the field that B added after the shared ones
            used.discard(b[0]['type'])
            nf = gen_field(rng, 'bb', used, 3, counter)
            d_attrs['bb'] = make_lib_field(nf)
            eff[len(a)] = nf
        d_attrs.update({f['name']: make_lib_field(f) for f in d})
        D = type(f'D{cid}', (B, C), d_attrs)
        # B: a.., bb ; C: cc, a.., c2.. ; D: (B) a.., bb, then (C) cc, c2.. appended, a already present ; dd
        return {'fields': eff + d, 'cls': D, 'id': cid, 'style': 'diamond'}
    fields = [gen_field(rng, f'f{i}', used, depth, counter) for i in range(rng.randint(1, 5 if depth == 0 else 3))]
    cls = type(f'M{cid}', (TlvModel,), {f['name']: make_lib_field(f) for f in fields})
    return {'fields': fields, 'cls': cls, 'id': cid, 'style': 'plain'}


# ------------------------------------------------------------------ reflection for shipped models
def spec_from_class(cls, seen=None):
    fields = []
    for fld in cls._encoded_fields:
        f = spec_from_field(fld)
        if f is not None:
            fields.append(f)
    return {'fields': fields, 'cls': cls, 'id': cls.__name__, 'style': 'shipped'}


def spec_from_field(fld, name=None):
    name = name or fld.name
    if isinstance(fld, (ProcedureArgument, SignatureValueField, InterestNameField)):
        return None
    if isinstance(fld, UintField):
        base = None
        if issubclass(fld.val_base_type, enum.Flag):
            base = ('flagcls', fld.val_base_type)
        elif issubclass(fld.val_base_type, enum.Enum):
            base = ('enumcls', fld.val_base_type)
        return {'kind': 'uint', 'name': name, 'type': fld.type_num, 'fixed_len': fld.fixed_len, 'base': base,
                'default': fld.default}
    if isinstance(fld, BoolField):
        return {'kind': 'bool', 'name': name, 'type': fld.type_num}
    if isinstance(fld, BytesField):
        return {'kind': 'text' if fld.is_string else 'bytes', 'name': name, 'type': fld.type_num}
    if isinstance(fld, NameField):
        return {'kind': 'name', 'name': name, 'type': fld.type_num}
    if isinstance(fld, ModelField):
        return {'kind': 'model', 'name': name, 'type': fld.type_num, 'spec': spec_from_class(fld.model_type),
                'ignore_critical': fld.ignore_critical}
    if isinstance(fld, RepeatedField):
        return {'kind': 'rep', 'name': name, 'type': fld.type_num, 'elem': spec_from_field(fld.element_type, name + '_e')}
    if isinstance(fld, MapField):
        return {'kind': 'map', 'name': name, 'type': fld.type_num, 'key': spec_from_field(fld.key_type, name + '_k'),
                'val': spec_from_field(fld.value_type, name + '_v')}
    return None


def shipped_models():
    import ndn.app_support.nfd_mgmt as nfd
    import ndn.encoding.ndnlp_v2 as lp
    import ndn.app_support.light_versec.binary as lvsb
    import ndn.app_support.svs.tlv as svst
    import ndn.app_support.security_v2 as sv2
    import ndn.encoding.ndn_format_0_3 as fmt
    out = []
    for mod in (nfd, lp, lvsb, svst, sv2, fmt):
        for nm in dir(mod):
            o = getattr(mod, nm)
            if isinstance(o, type) and issubclass(o, TlvModel) and o is not TlvModel and o.__module__ == mod.__name__:
                if any(isinstance(f, (SignatureValueField, InterestNameField)) for f in o._encoded_fields):
                    continue    # packet models with procedure arguments: C01/C02
                if o.__name__ in ('InterestPacket', 'DataPacket'):
                    continue
                out.append(o)
    return out


# ------------------------------------------------------------------ values
UINT_EDGES = [0, 1, 0xFF, 0x100, 0xFFFF, 0x10000, 0xFFFFFFFF, 0x100000000, 2**64 - 1]
TEXTS = ['', 'a', 'hello', 'Σπυρίδων', 'naïve', '日本語', '😀', 'x' * 252, 'y' * 253, 'é' * 130,
         # legal text that is not in Unicode normal form (NFC/NFKC would change it), case variants, whitespace, NUL, BOM
         'e\u0301cole', 'A\u030angstro\u0308m', '\u2126', '\u212b', '\ufb01n', '\uf900', 'STRASSE', 'straße', ' lead', 'trail ', 'a\tb\n', 'nul\x00in', '\ufeffbom',
         '%41', 'a=b', '/x/y',
         # first / last characters that string clean-ups like to remove: NUL, white space, line ends, quotes, BOM at the end
         'term\x00', '\x00', 'two\x00\x00', '\x00lead', 'line\n', 'crlf\r\n', '\n', ' ', '  both  ', '\tTab', '"quoted"', "'q'", 'bom\ufeff', 'nbsp\u00a0', '\u200bzw\u200b']


def gen_bytes(rng, big_ok):
    k = rng.random()
    if k < 0.15:
        return b''
    if k < 0.8:
        return gen.rand_bytes(rng, rng.randint(1, 12))
    if k < 0.96 or not big_ok:
        return gen.rand_bytes(rng, rng.choice([252, 253, 254, 255, 256]))
    return gen.rand_bytes(rng, rng.choice([65535, 65536, 65537]))


EXPLICIT_NONE = 'explicitly-assigned-None'


def gen_value(rng, f, big_ok=True, present=None):
    k = f['kind']
    if present is None:
        present = rng.random() < 0.75
    if k == 'uint':
        if not present:
            # a field with a declared default: left unassigned (the default applies) or explicitly assigned None (documented:
            # then it is omitted, default or not)
            return EXPLICIT_NONE if (f.get('default') is not None and rng.random() < 0.5) else None
        if f.get('base') == 'enum':
            return rng.choice([0, 1, 300])
        if f.get('base') == 'flag':
            return rng.randrange(8)
        if isinstance(f.get('base'), tuple):
            kind, cls = f['base']
            if kind == 'enumcls':
                return rng.choice(list(cls)).value
            bits = 0
            for m in cls:
                if rng.random() < 0.5:
                    bits |= m.value
            return bits
        fl = f.get('fixed_len')
        cands = [v for v in UINT_EDGES if fl is None or v < 256 ** fl] + [rng.getrandbits(rng.randint(1, 8 * (fl or 8)))]
        return rng.choice(cands)
    if k == 'bool':
        return True if present else rng.choice([None, False])
    if k == 'bytes':
        return gen_bytes(rng, big_ok) if present else None
    if k == 'text':
        return rng.choice(TEXTS) if present else None
    if k == 'name':
        return gen.name(rng, 0, 4) if present else None
    if k == 'model':
        if not present:
            return None
        return {sf['name']: gen_value(rng, sf, big_ok=False) for sf in f['spec']['fields']}
    if k == 'rep':
        n = rng.choice([0, 1, 2, 3]) if present else 0
        return [gen_value(rng, f['elem'], big_ok=False, present=True) for _ in range(n)]
    if k == 'map':
        n = rng.choice([0, 1, 2, 3]) if present else 0
        out = {}
        for _ in range(n):
            kv = gen_value(rng, f['key'], big_ok=False, present=True)
            out[kv] = gen_value(rng, f['val'], big_ok=False, present=True)
        return out
    raise ValueError(k)


INPLACE = [0, 0]
ENUM_MEMBERS = [0]
TEXT_AS_BYTES = [0]


def to_lib(rng, f, v):
    """Value handed to the library (names in a random accepted form, bytes in random binary types)."""
    k = f['kind']
    if v is None:
        return None
    if k == 'uint' and f.get('base') in ('enum', 'flag') and isinstance(v, int) and rng.random() < 0.5:
        # an enum-typed integer field is assigned a MEMBER of its type as often as the bare number
        try:
            ENUM_MEMBERS[0] += 1
            return (Color if f['base'] == 'enum' else Perm)(v)
        except ValueError:
            ENUM_MEMBERS[0] -= 1
            return v
    if k == 'name':
        r = rng.randrange(4)
        if r == 0:
            return rc.enc_name(v)
        if r == 1:
            return rc.name_to_uri(v, canonical=True)
        if r == 2:
            return [bytearray(c) for c in v]
        return list(v)
    if k == 'bytes':
        r = rng.randrange(3)
        return v if r == 0 else bytearray(v) if r == 1 else memoryview(v)
    if k == 'text' and isinstance(v, str) and rng.random() < 0.25:
        # a text field may be handed the UTF-8 octets instead of the str (the library's own tools do)
        b_ = v.encode('utf-8')
        TEXT_AS_BYTES[0] += 1
        return b_ if rng.random() < 0.6 else bytearray(b_)
    if k == 'model':
        m = f['spec']['cls']()
        for sf in f['spec']['fields']:
            sv = v.get(sf['name'])
            inplace = rng.random() < 0.3      # filled through the attribute of the fresh model (m.items.append(x), m.table[k] = v) as the library itself does
            if sf['kind'] in ('rep',):
                if inplace:
                    for e in sv:
                        getattr(m, sf['name']).append(to_lib(rng, sf['elem'], e))
                    INPLACE[0] += 1
                else:
                    setattr(m, sf['name'], [to_lib(rng, sf['elem'], e) for e in sv])
            elif sf['kind'] == 'map':
                if inplace:
                    for kk, vv in sv.items():
                        getattr(m, sf['name'])[kk] = to_lib(rng, sf['val'], vv)
                    INPLACE[0] += 1
                else:
                    setattr(m, sf['name'], {kk: to_lib(rng, sf['val'], vv) for kk, vv in sv.items()})
            else:
                if sv is None and sf['kind'] == 'uint' and sf.get('default') is not None:
                    continue     # leave unassigned: the default applies
                if isinstance(sv, str) and sv == EXPLICIT_NONE and sf['kind'] == 'uint':
                    setattr(m, sf['name'], None)
                    INPLACE[1] += 1
                    continue
                setattr(m, sf['name'], to_lib(rng, sf, sv))
        return m
    return v


# ------------------------------------------------------------------ reference tree
def ref_items(f, v, tag='field'):
    """-> list of items (type, payload(bytes)|children(list), tag, critical_relevant)"""
    k = f['kind']
    if k == 'uint':
        if isinstance(v, str) and v == EXPLICIT_NONE:
            return []
        if v is None:
            v = f.get('default')
        if v is None:
            return []
        fl = f.get('fixed_len')
        body = v.to_bytes(fl, 'big') if fl else rc.enc_nni(v)
        return [(f['type'], body, tag)]
    if k == 'bool':
        return [(f['type'], b'', tag)] if v else []
    if k == 'bytes':
        return [] if v is None else [(f['type'], bytes(v), tag)]
    if k == 'text':
        return [] if v is None else [(f['type'], v.encode('utf-8'), tag)]
    if k == 'name':
        return [] if v is None else [(7, b''.join(v), tag)]
    if k == 'model':
        if v is None:
            return []
        kids = []
        for sf in f['spec']['fields']:
            kids.extend(ref_items(sf, v.get(sf['name'])))
        return [(f['type'], kids, tag, f.get('ignore_critical', False))]
    if k == 'rep':
        out = []
        for e in v:
            out.extend(ref_items(f['elem'], e, 'rep'))
        return out
    if k == 'map':
        out = []
        for kk, vv in v.items():
            out.extend(ref_items(f['key'], kk, 'map-key'))
            out.extend(ref_items(f['val'], vv, 'map-val'))
        return out
    raise ValueError(k)


def enc_items(items):
    out = b''
    for it in items:
        if isinstance(it, bytes):
            out += it
        elif isinstance(it[1], list):
            out += rc.enc_tlv(it[0], enc_items(it[1]))
        else:
            out += rc.enc_tlv(it[0], it[1])
    return out


def all_types(spec, acc=None):
    acc = acc if acc is not None else set()
    for f in spec['fields']:
        types_of_field(f, acc)
    return acc


def types_of_field(f, acc):
    acc.add(f['type'])
    if f['kind'] == 'model':
        all_types(f['spec'], acc)
    if f['kind'] == 'rep':
        types_of_field(f['elem'], acc)
    if f['kind'] == 'map':
        types_of_field(f['key'], acc)
        types_of_field(f['val'], acc)


def gaps(items, path=(), ign=False):
    """yield (path, index, kind, ignore_critical_here) for every gap at every level."""
    for i in range(len(items) + 1):
        kind = 'map-kv' if i > 0 and not isinstance(items[i - 1], bytes) and items[i - 1][2] == 'map-key' else 'plain'
        yield (path, i, kind, ign)
    for i, it in enumerate(items):
        if not isinstance(it, bytes) and isinstance(it[1], list):
            yield from gaps(it[1], path + (i,), it[3])


def insert_at(items, path, idx, new):
    if not path:
        return items[:idx] + [new] + items[idx:]
    it = items[path[0]]
    return items[:path[0]] + [(it[0], insert_at(it[1], path[1:], idx, new), it[2], it[3])] + items[path[0] + 1:]


def get_level(items, path):
    for p in path:
        items = items[p][1]
    return items


def replace_level(items, path, new_level):
    if not path:
        return new_level
    it = items[path[0]]
    return items[:path[0]] + [(it[0], replace_level(it[1], path[1:], new_level), it[2], it[3])] + items[path[0] + 1:]


# ------------------------------------------------------------------ comparison
def norm_val(f, v):
    """Normalise a value obtained from a parsed model (or an expected value tree) for comparison."""
    k = f['kind']
    if k == 'uint':
        if v is None or (isinstance(v, str) and v == EXPLICIT_NONE):
            return f.get('default')         # absent on the wire: the parsed model shows the default
        return int(v.value) if isinstance(v, enum.Enum) else int(v)
    if k == 'bool':
        return bool(v)
    if k == 'bytes':
        return None if v is None else bytes(v)
    if k == 'text':
        return v
    if k == 'name':
        return None if v is None else [bytes(c) for c in (v if not isinstance(v, (bytes, bytearray, memoryview)) else Name.from_bytes(v))]
    if k == 'model':
        if v is None:
            return None
        if isinstance(v, dict):
            return {sf['name']: norm_val(sf, v.get(sf['name'])) for sf in f['spec']['fields']}
        return {sf['name']: norm_val(sf, raw_get(v, sf)) for sf in f['spec']['fields']}
    if k == 'rep':
        return [norm_val(f['elem'], e) for e in (v or [])]
    if k == 'map':
        return {norm_key(kk): norm_val(f['val'], vv) for kk, vv in (v or {}).items()}
    raise ValueError(k)


def norm_key(k):
    return bytes(k) if isinstance(k, (bytes, bytearray, memoryview)) else k


def raw_get(m, sf):
    fld = getattr(type(m), sf['name'])
    return fld.get_value(m)


# ------------------------------------------------------------------ the check
def check_value(ctx, rng, spec, value, thorough_gaps):
    top = {'kind': 'model', 'name': 'top', 'type': 0, 'spec': spec}
    cls = spec['cls']
    w = {'class': f"{spec['style']}:{spec['id']}", 'fields': [(f['name'], f['kind'], f['type']) for f in spec['fields']],
         'value': value}
    items = []
    for f in spec['fields']:
        items.extend(ref_items(f, value.get(f['name'])))
    ref = enc_items(items)
    w['ref'] = ref if len(ref) < 400 else ref[:200]
    try:
        n_in, n_ex = INPLACE
        m = to_lib(rng, top, value)
        for bf in spec.get('unplaced', ()):
            # the attributes of a base that is not placed exist on the object and may be assigned; they are no part of the wire form
            if bf['kind'] not in ('rep', 'map') and rng.random() < 0.7:
                bv = gen_value(rng, bf, big_ok=False, present=True)
                if bv is not None and not isinstance(bv, str) or (isinstance(bv, str) and bv != EXPLICIT_NONE):
                    setattr(m, bf['name'], to_lib(rng, bf, bv))
                    ctx.event('unplaced-base-attribute-assigned')
        if INPLACE[0] > n_in:
            ctx.event('container-field-filled-in-place')
        if INPLACE[1] > n_ex:
            ctx.event('field-with-default-explicitly-set-to-None')
        markers = {}
        announced = m.encoded_length(markers)
        wire = bytes(m.encode(markers=markers))
        fresh = bytes(m.encode())
        # documented form: encode into a caller-supplied buffer at an offset (the buffer is not zero-filled)
        pre, post = rng.choice([0, 1, 3, 7]), rng.choice([0, 2])
        fill = rng.choice([0xff, 0xa5, 0x01, 0x80])
        buf = bytearray([fill]) * (pre + len(wire) + post)
        m.encode(buf, pre, {})
        if bytes(buf[pre:pre + len(wire)]) != wire or any(b != fill for b in bytes(buf[:pre]) + bytes(buf[pre + len(wire):])):
            ctx.report('encode-into-buffer-differs', 'encode(wire, offset) into a pre-filled buffer wrote other bytes than encode() or wrote outside its range',
                       dict(w, got=bytes(buf)[:300], expected=wire[:300], offset=pre, fill=fill))
        ctx.event('encoded-into-caller-buffer')
    except Exception as e:   # noqa
        mech = f'encode-raises:{type(e).__name__}@{raising_site(e)[0]}'
        if isinstance(e, (ValueError, IndexError)) and has_nonascii(value):
            mech = 'text-length-in-chars'
        ctx.report(mech, f'encoding a legal assignment raised {e!r}', w)
        return
    ctx.event('encoded')
    # a model object is an ordinary Python object: a deep copy of it (and a pickled / unpickled one, where the class can be pickled)
    # is the same model
    try:
        import copy as _copy
        m_copy = _copy.deepcopy(m)
        if bytes(m_copy.encode()) != wire:
            ctx.report('copy-encodes-differently:deepcopy', 'copy.deepcopy(model).encode() differs from model.encode()', w)
        ctx.event('deep-copy-encoded')
    except TypeError:
        ctx.event('deep-copy-not-possible-for-these-values')      # (memoryview values cannot be copied by Python itself)
    except Exception as e:   # noqa
        ctx.report(f'copy-raises:deepcopy:{type(e).__name__}@{raising_site(e)[0]}', f'{e!r}', w)
    if announced != len(wire):
        ctx.report('announced-length-differs', f'encoded_length()={announced} but encode() produced {len(wire)} bytes', w)
    if wire != ref or fresh != ref:
        ctx.report('encoding-differs-from-reference', 'encode() bytes differ from the exact minimal reference encoding',
                   dict(w, got=wire[:300]))
        return
    exp = norm_val(top, value)
    try:
        back = cls.parse(ref)
    except Exception as e:   # noqa
        ctx.report(f'decode-raises:{type(e).__name__}@{raising_site(e)[0]}', f'decoding the model\'s own encoding raised {e!r}', w)
        return
    got = norm_val(top, back)
    # integer fields of an enum type: whatever was assigned (member or number), the model and its decoded copy read back equal values
    for f in spec['fields']:
        if f['kind'] == 'uint' and f.get('base') in ('enum', 'flag') and value.get(f['name']) is not None and not isinstance(value.get(f['name']), str):
            a_, b_ = getattr(m, f['name']), getattr(back, f['name'])
            ctx.event('enum-field-read-back')
            if a_ != b_:
                ctx.report('roundtrip-differs:enum-field', f'field {f["name"]} reads {a_!r} from the model and {b_!r} from its decoded copy', w)
    if got != exp:
        ctx.report('roundtrip-differs', 'decode(encode(m)) != m', dict(w, got=got))
    else:
        # TlvModel.__eq__ compares raw field values (False vs absent, URI vs component list) and is
        # therefore stricter than "equal model" in the statement: observation only
        try:
            ctx.event('observation:__eq__-true' if back == m else 'observation:__eq__-false-on-equal-fields')
            back2 = cls.parse(ref)
            if not (back == back2):
                ctx.report('eq-not-reflexive-on-decoded', 'two decodings of the same wire compare unequal', w)
        except Exception as e:   # noqa
            ctx.event('eq-raised')
    ctx.event('roundtrip')
    # ---- a decoded model belongs to the caller: it is edited in place, then the same octets are decoded again
    if got == exp:
        try:
            edited = scribble_model(back)
            again = norm_val(top, cls.parse(ref))
            if edited:
                ctx.event('decoded-again-after-editing-the-first-result')
            if again != exp:
                ctx.report('decoding-depends-on-history', 'the same octets decoded again, after the first decoded model was edited in place, give another value', dict(w, got=again))
        except Exception as e:   # noqa
            ctx.report(f'decode-again-raises:{type(e).__name__}@{raising_site(e)[0]}', f'{e!r}', w)
    # ---- the model object is edited IN PLACE after it was encoded (list grown / shrunk, map entry removed) and encoded again
    value2 = {k: v for k, v in value.items()}
    done = []
    for f in spec['fields']:
        v_ = value.get(f['name'])
        if f['kind'] == 'rep' and isinstance(v_, list) and v_:
            lst = getattr(m, f['name'], None)
            if isinstance(lst, list) and len(lst) == len(v_):
                if len(v_) % 2:
                    lst.append(lst[0])
                    value2[f['name']] = list(v_) + [v_[0]]
                    done.append('append')
                else:
                    del lst[0]
                    value2[f['name']] = list(v_[1:])
                    done.append('delete')
        elif f['kind'] == 'map' and isinstance(v_, dict) and v_:
            d_ = getattr(m, f['name'], None)
            if isinstance(d_, dict) and len(d_) == len(v_):
                del d_[next(iter(d_))]
                value2[f['name']] = {k: x for i, (k, x) in enumerate(v_.items()) if i > 0}
                done.append('map-delete')
    if done:
        try:
            items2 = []
            for f in spec['fields']:
                items2.extend(ref_items(f, value2.get(f['name'])))
            ref2 = enc_items(items2)
            ann2 = m.encoded_length()
            wire2 = bytes(m.encode())
            ctx.event('encoded-again-after-an-in-place-edit')
            if wire2 != ref2 or ann2 != len(ref2):
                ctx.report('encoding-ignores-in-place-edit', f'after {done} on the container attributes of an already encoded model, encode() / encoded_length() '
                           f'({ann2}) do not give the encoding of the model as it is now ({len(ref2)} octets)', dict(w, value_now=value2, got=wire2[:300], expected=ref2[:300]))
        except Exception as e:   # noqa
            ctx.report(f'encode-again-raises:{type(e).__name__}@{raising_site(e)[0]}', f'{e!r}', dict(w, value_now=value2))
    # ---- unknown / repeated / out-of-order elements
    used = all_types(spec)
    unk_even = next(t for t in (0xFE00, 0xFE02, 0x3E8, 0xA0, 0xFFF0, 0x10002) if t not in used)
    unk_odd = next(t for t in (0xFE01, 0xFE03, 0x3E9, 0xA1, 0xFFF1, 0x10003) if t not in used)
    gl = list(gaps(items))
    if not thorough_gaps and len(gl) > 14:
        gl = rng.sample(gl, 14)
    for (path, idx, kind, ign) in gl:
        for crit in (False, True):
            t = unk_odd if crit else unk_even
            mutated = enc_items(insert_at(items, path, idx, (t, rng.choice([b'', b'\x01', b'\xff\xfe\xfd']), 'unk')))
            ww = dict(w, mutated=mutated[:400], gap=(path, idx, kind), unknown_type=t)
            if crit and not ign and idx % 2 == 0:
                # the same octets were decoded leniently just before (a tool that inspects, then the strict consumer)
                try:
                    cls.parse(mutated, ignore_critical=True)
                    ctx.event('lenient-decode-before-the-strict-one')
                except Exception:   # noqa
                    pass
            try:
                b2 = cls.parse(mutated)
                err = None
            except DecodeError as e:
                b2, err = None, e
            except Exception as e:   # noqa
                b2, err = None, e
            ctx.event(f'gap-{kind}-{"crit" if crit else "noncrit"}' + ('-ign' if ign else ''))
            if not crit or ign:
                if err is not None:
                    mech = f'unknown-noncritical-rejected:{type(err).__name__}' if not crit else f'ignore-critical-not-honoured:{type(err).__name__}'
                    if kind == 'map-kv':
                        mech = 'map-value-not-type-checked'
                    ctx.report(mech, f'unknown {"critical (ignore_critical level)" if crit else "non-critical"} element at a {kind} gap made decoding fail: {err!r}', ww)
                elif norm_val(top, b2) != exp:
                    mech = 'unknown-noncritical-changes-result' if kind != 'map-kv' else 'map-value-not-type-checked'
                    ctx.report(mech, f'unknown element at a {kind} gap changed the decoded value', dict(ww, got=norm_val(top, b2)))
            else:
                if not isinstance(err, DecodeError):
                    mech = 'unknown-critical-accepted' if err is None else f'unknown-critical-wrong-error:{type(err).__name__}'
                    if kind == 'map-kv':
                        mech = 'map-value-not-type-checked'
                    ctx.report(mech, f'unknown critical element at a {kind} gap: expected DecodeError, got {err!r}', ww)
    # duplicated / swapped critical elements at each level
    levels = [()] + [p + (i,) for (p, i, k, g) in [] for _ in ()]
    stack = [()]
    while stack:
        path = stack.pop()
        lvl = get_level(items, path)
        ign = False
        if path:
            ign = get_level(items, path[:-1])[path[-1]][3]
        for i, it in enumerate(lvl):
            if isinstance(it[1], list):
                stack.append(path + (i,))
        if ign:
            continue
        for i, it in enumerate(lvl):
            if it[2] == 'field' and not (it[0] & 1) and (ctx.evaluations + i) % 3 == 0:
                # a RECOGNISED non-critical (even-typed) element that stands a second time / out of its place is ignored like an unknown
                # one (documented: "Out of order or unknown fields are ignored if they are non-critical"): decoding does not fail
                for lab_, lv2 in (('repeated', lvl[:i + 1] + [it] + lvl[i + 1:]), ('moved-to-the-end', lvl[:i] + lvl[i + 1:] + [it]), ('again-at-the-end', lvl + [it])):
                    wire_ = enc_items(replace_level(items, path, lv2))
                    try:
                        cls.parse(wire_)
                        ctx.event('recognised-noncritical-element-out-of-place-accepted')
                    except Exception as e:   # noqa
                        ctx.report(f'misplaced-noncritical-rejected:{type(e).__name__}', f'a recognised non-critical element ({lab_}) made decoding fail: {e!r}', dict(w, mutated=wire_[:400], element_type=it[0]))
            if it[2] != 'field' or not (it[0] & 1):
                continue
            dup = enc_items(replace_level(items, path, lvl[:i + 1] + [it] + lvl[i + 1:]))
            expect_decode_error(ctx, cls, dup, 'repeated-critical-accepted', dict(w, mutated=dup[:400], dup_type=it[0]))
            ctx.event('dup-critical')
            if i + 1 < len(lvl) and lvl[i + 1][2] == 'field' and (lvl[i + 1][0] & 1) and lvl[i + 1][0] != it[0]:
                sw = enc_items(replace_level(items, path, lvl[:i] + [lvl[i + 1], it] + lvl[i + 2:]))
                expect_decode_error(ctx, cls, sw, 'out-of-order-critical-accepted', dict(w, mutated=sw[:400]))
                ctx.event('swap-critical')


def scribble_model(x, depth=0):
    """Edit a decoded model in place: lists grow / shrink, maps lose entries, nested models are visited."""
    n = 0
    if depth > 6 or x is None:
        return 0
    if isinstance(x, list):
        for v in x:
            n += scribble_model(v, depth + 1)
        if x:
            x.append(x[0])
            del x[0]
            x.pop()
        else:
            x.append(None)
        return n + 1
    if isinstance(x, dict):
        for v in list(x.values()):
            n += scribble_model(v, depth + 1)
        x.clear()
        return n + 1
    if isinstance(x, bytearray):
        x[:] = bytes(len(x))
        return n + 1
    d = getattr(x, '__dict__', None)
    if isinstance(d, dict) and hasattr(type(x), '_encoded_fields'):
        for v in list(d.values()):
            n += scribble_model(v, depth + 1)
    return n


def check_one_shot_names(ctx, rng):
    """A NameField accepts "a list or iterator of Components": a name handed over as a one-shot generator / iterator / map object is
    encoded like the same name in list form (one encode() per model object - such a value can be walked once)."""
    from ndn.encoding import TlvModel, NameField, UintField, RepeatedField, BytesField

    class Plain(TlvModel):
        before = UintField(0x81)
        name = NameField()
        after = BytesField(0x83)

    class Many(TlvModel):
        names = RepeatedField(NameField())
        tail = UintField(0x85)
    for rep in range(ctx.n(60, 3000)):
        comps = gen.simple_name(rng, 0, 5) if hasattr(gen, 'simple_name') else [rc.comp(8, b'a')]
        shape = rep % 3
        mk = [lambda cs: (bytes(c) for c in cs), lambda cs: iter([bytes(c) for c in cs]), lambda cs: map(bytes, [bytes(c) for c in cs])][shape]
        w = {'name': [c.hex() for c in comps], 'given_as': ['generator', 'iterator', 'map'][shape]}
        try:
            m = Plain()
            m.before, m.name, m.after = 7, mk(comps), b'tail'
            got = bytes(m.encode())
            exp = rc.enc_tlv(0x81, b'\x07') + rc.enc_name(comps) + rc.enc_tlv(0x83, b'tail')
            ctx.event('name-field-given-a-one-shot-iterator')
            ctx.case(('one-shot-name', shape, len(comps)), nontrivial=True)
            if got != exp:
                ctx.report('encoding-differs-from-reference:one-shot-name', 'a name given as a one-shot iterator is not encoded like the same name as a list', dict(w, got=got[:200], expected=exp[:200]))
            elif [bytes(c) for c in Plain.parse(got).name] != comps:
                ctx.report('roundtrip-differs:one-shot-name', 'decode(encode(m)) != m for a name given as a one-shot iterator', w)
            others = [gen.simple_name(rng, 1, 3) for _ in range(rng.randint(0, 3))]
            m2 = Many()
            m2.names, m2.tail = [mk(cs) if i % 2 == 0 else list(cs) for i, cs in enumerate([comps] + others)], 300
            got2 = bytes(m2.encode())
            exp2 = b''.join(rc.enc_name(cs) for cs in [comps] + others) + rc.enc_tlv(0x85, b'\x01\x2c')
            if got2 != exp2:
                ctx.report('encoding-differs-from-reference:one-shot-name:repeated', 'names given as one-shot iterators inside a repeated field are not encoded like lists', dict(w, got=got2[:200], expected=exp2[:200]))
        except Exception as e:   # noqa
            ctx.report(f'encode-raises:{type(e).__name__}@{raising_site(e)[0]}:one-shot-name', f'{e!r}', w)


def has_nonascii(v):
    if isinstance(v, str):
        return any(ord(c) > 127 for c in v)
    if isinstance(v, dict):
        return any(has_nonascii(k) or has_nonascii(x) for k, x in v.items())
    if isinstance(v, list):
        return any(has_nonascii(x) for x in v)
    return False


def expect_decode_error(ctx, cls, wire, mech, w):
    try:
        cls.parse(wire)
    except DecodeError:
        return
    except Exception as e:   # noqa
        ctx.report(f'{mech}:wrong-error:{type(e).__name__}', f'expected DecodeError, got {e!r}', w)
        return
    ctx.report(mech, 'expected DecodeError, decoding succeeded', w)


def check_enum_models(ctx, rng):
    """Models made of integer fields only (plain, enum-typed, flag-typed): a model assigned MEMBERS, the same model assigned the bare
    numbers, and their decoded copies are all equal (TlvModel.__eq__ has nothing here that makes it stricter than the statement)."""
    class E(TlvModel):
        n = UintField(0x81)
        colour = UintField(0x82, val_base_type=Color)
        perm = UintField(0x83, val_base_type=Perm)
        fixed = UintField(0x84, fixed_len=2, val_base_type=Color)
    for colour in Color:
        for perm in (Perm.NONE, Perm.R, Perm.R | Perm.X, Perm.R | Perm.W | Perm.X):
            a, b = E(), E()
            a.n, a.colour, a.perm, a.fixed = 7, colour, perm, colour
            b.n, b.colour, b.perm, b.fixed = 7, colour.value, perm.value, colour.value
            w = {'class': 'enum-model', 'colour': colour.name, 'perm': repr(perm)}
            try:
                wa, wb = bytes(a.encode()), bytes(b.encode())
                back = E.parse(wa)
            except Exception as e:   # noqa
                ctx.report(f'encode-raises:{type(e).__name__}@{raising_site(e)[0]}', f'{e!r}', w)
                continue
            ctx.case(('enum-model', colour.name, repr(perm)), nontrivial=True)
            ctx.event('enum-model')
            if wa != wb:
                ctx.report('encoding-differs-from-reference', 'a model assigned enum members encodes differently from the same model assigned the numbers', w)
            if not (back == a and a == back and a == b and back == b):
                ctx.report('roundtrip-differs:enum-field', 'models holding the same enum-typed integers (assigned as members / as numbers / decoded) do not compare equal', w)
            if (a.colour, a.perm, a.fixed) != (back.colour, back.perm, back.fixed) or (a.colour, a.perm) != (b.colour, b.perm):
                ctx.report('roundtrip-differs:enum-field', 'enum-typed fields read back different values from equal models', w)


def check_long_containers(ctx, rng):
    """Repeated and map fields with far more elements than any test uses (1100, 5000): every element is encoded and decoded."""
    for count in (1100, 5000):
        ue = {'kind': 'uint', 'name': 'nums_e', 'type': 0x81, 'fixed_len': None, 'base': None, 'default': None}
        be = {'kind': 'bytes', 'name': 'blobs_e', 'type': 0x84}
        fields = [{'kind': 'uint', 'name': 'head', 'type': 0x80, 'fixed_len': None, 'base': None, 'default': None},
                  {'kind': 'rep', 'name': 'nums', 'type': 0x81, 'elem': ue},
                  {'kind': 'uint', 'name': 'mid', 'type': 0x82, 'fixed_len': None, 'base': None, 'default': None},
                  {'kind': 'rep', 'name': 'blobs', 'type': 0x84, 'elem': be},
                  {'kind': 'map', 'name': 'table', 'type': 0x85, 'key': {'kind': 'uint', 'name': 'table_k', 'type': 0x85, 'fixed_len': None, 'base': None, 'default': None},
                   'val': {'kind': 'bytes', 'name': 'table_v', 'type': 0x86}},
                  {'kind': 'uint', 'name': 'tail', 'type': 0x87, 'fixed_len': None, 'base': None, 'default': None}]
        cls = type(f'Long{count}', (TlvModel,), {f['name']: make_lib_field(f) for f in fields})
        spec = {'fields': fields, 'cls': cls, 'id': f'long{count}', 'style': 'long-containers'}
        value = {'head': 1, 'nums': [j * 7 for j in range(count)], 'mid': 2, 'blobs': [b'%d' % j for j in range(count)],
                 'table': {j: b'v%d' % j for j in range(count)}, 'tail': 3}
        check_value(ctx, rng, spec, value, thorough_gaps=False)
        ctx.case(('long-containers', count), nontrivial=True)
        ctx.event('long-containers')


def run(ctx):
    ctx.rule = RULE
    rng = ctx.rng
    counter = [0]
    if ctx.shard == 0:
        check_long_containers(ctx, rng)
        check_enum_models(ctx, rng)
    nclasses = ctx.n(1500, 250000)
    nvals = 8 if ctx.quick else 16
    for ci in range(nclasses):
        try:
            spec = gen_model(rng, 0, counter)
        except Exception as e:   # noqa
            ctx.report(f'class-construction-raises:{type(e).__name__}', f'building a model class raised {e!r}', None)
            continue
        ctx.klass('class-' + spec['style'])
        for vi in range(nvals):
            value = {f['name']: gen_value(rng, f, big_ok=(vi == 0)) for f in spec['fields']}
            npresent = sum(1 for f in spec['fields'] if value[f['name']] not in (None, [], {}, False))
            check_value(ctx, rng, spec, value, thorough_gaps=not ctx.quick)
            ctx.case(('gen', spec['id'], shape(value)), nontrivial=npresent >= 2,
                     sample={'class': spec['style'], 'fields': [(f['name'], f['kind'], hex(f['type'])) for f in spec['fields']],
                             'value': value} if (ci * nvals + vi) % 700 == 3 else None)
    ctx.extra['programs'] = counter[0]
    # shipped models
    shipped = shipped_models()
    ctx.extra['shipped_models'] = len(shipped)
    for cls in shipped:
        spec = spec_from_class(cls)
        if not spec['fields']:
            continue
        for vi in range(ctx.n(40, 60)):
            value = {f['name']: gen_value(rng, f, big_ok=(vi == 0)) for f in spec['fields']}
            npresent = sum(1 for f in spec['fields'] if value[f['name']] not in (None, [], {}, False))
            check_value(ctx, rng, spec, value, thorough_gaps=not ctx.quick)
            ctx.case(('shipped', cls.__name__, shape(value)), nontrivial=npresent >= 2)
            ctx.klass('shipped-values')
    for k in ('roundtrip', 'gap-plain-noncrit', 'gap-plain-crit', 'gap-map-kv-noncrit', 'dup-critical', 'swap-critical', 'container-field-filled-in-place', 'field-with-default-explicitly-set-to-None'):
        ctx.need_event(k)
    if ctx.shard == 0:
        check_one_shot_names(ctx, rng)
        ctx.need_event('name-field-given-a-one-shot-iterator')
    for k_ in ('deep-copy-encoded', 'recognised-noncritical-element-out-of-place-accepted', 'decoded-again-after-editing-the-first-result', 'encoded-again-after-an-in-place-edit', 'lenient-decode-before-the-strict-one'):
        ctx.need_event(k_)
    ctx.assumptions = ['critical = odd type', 'BoolField False == absent', 'a field with a default is either left unassigned (default encoded) or explicitly set to None (omitted)',
                       'name fields use type 7 only; type numbers are distinct within one model (unambiguous decoding)']


def shape(v):
    if isinstance(v, dict):
        return tuple(sorted((str(k), shape(x)) for k, x in v.items()))
    if isinstance(v, list):
        return ('L', len(v))
    if isinstance(v, (bytes, str)):
        return ('S', min(len(v), 300))
    if isinstance(v, int) and not isinstance(v, bool):
        return ('I', v.bit_length())
    return v
