"""C13 - ill-formed schemas and models are rejected; accepted models always terminate.

(text)   clean generated schemas must compile and pass the loader; the same schemas with one static
         error injected (each kind, at every possible position) must raise the documented SemanticError.
(binary) every single-field corruption of compiled models is loaded; an independent re-check of
         the six documented sanity rules decides whether LvsModelError is demanded; whatever is
         accepted is queried under an interpreter-step budget (termination).
"""
import copy

from . import lvs, monitors, refcodec as rc
from .common import raising_site

from ndn.app_support.light_versec import compile_lvs, Checker, SemanticError, LvsModelError
import ndn.app_support.light_versec.binary as bny
from ndn.encoding import DecodeError

LEVEL = 'fault_enumeration'

RULE = ('clean level-structured schemas (must compile and load) + one injected static error of each kind (undefined rule, '
        'temporary rule referenced, cyclic references, cyclic / self signing, constraint on / option or function argument '
        'naming a pattern that occurs nowhere, temporary pattern as constraint value, undefined / temporary signer) at '
        'every possible position; every single-field corruption of compiled models (version, node ids, parents incl. '
        'children of the root, edge destinations incl. self/ancestor/out of range, signer ids, option shapes) then 12 '
        'queries on whatever is accepted; distinct = (schema, error kind, position) resp. (model, field, new value); '
        'non-trivial = every injected case')


TEMP_RULE_NAMES = ['#_tmp', '#_', '#_1', '#_9lives', '#__', '#_T']


# ------------------------------------------------------------------ text errors
def inject_errors(schema, rng):
    """yield (kind, position label, mutated schema)"""
    rules = schema['rules']
    real = [r['name'] for r in rules if not r['name'].startswith('#_')]
    for ri, r in enumerate(rules):
        for pos in range(len(r['comps']) + 1):
            m = copy.deepcopy(schema)
            m['rules'][ri]['comps'].insert(pos, ('ref', '#undefined_rule'))
            yield 'undefined-rule-reference', (ri, pos), m
            m = copy.deepcopy(schema)
            tn = TEMP_RULE_NAMES[(ri + pos) % len(TEMP_RULE_NAMES)]        # every spelling that starts with "#_" is a temporary rule
            m['rules'].append({'name': tn, 'comps': [('lit', 'a')], 'cons': [], 'signers': []})
            m['rules'][ri]['comps'].insert(pos, ('ref', tn))
            yield 'temporary-rule-referenced', (ri, pos), m
            if not r['name'].startswith('#_'):
                m = copy.deepcopy(schema)
                m['rules'][ri]['comps'].insert(pos, ('ref', r['name']))
                yield 'cyclic-reference-self', (ri, pos), m
        # two-rule reference cycle
        for rj, r2 in enumerate(rules):
            if rj != ri and not r['name'].startswith('#_') and not r2['name'].startswith('#_') and r['name'] != r2['name']:
                m = copy.deepcopy(schema)
                m['rules'][ri]['comps'].append(('ref', r2['name']))
                m['rules'][rj]['comps'].append(('ref', r['name']))
                yield 'cyclic-reference-pair', (ri, rj), m
        named = lvs.patterns_of(rules, r)
        temps = sorted({c[1] for c in r['comps'] if c[0] == 'pat' and c[1].startswith('_')})
        nsets = len(r['cons'])
        for si in range(nsets + 1):
            def with_cons(entry, si=si):
                m = copy.deepcopy(schema)
                if si == nsets:
                    m['rules'][ri]['cons'].append([entry])
                else:
                    m['rules'][ri]['cons'][si].append(entry)
                return m
            yield 'constraint-on-unknown-pattern', (ri, si), with_cons(('nowhere', [('lit', 'a')]))
            if named:
                p = named[0]
                if si == nsets or all(x[0] != p for x in r['cons'][si]):
                    yield 'option-names-unknown-pattern', (ri, si), with_cons((p, [('lit', 'a'), ('pat', 'nowhere')]))
                    yield 'fn-arg-names-unknown-pattern', (ri, si), with_cons((p, [('fn', '$eq', [('pat', 'nowhere')])]))
                    yield 'temporary-pattern-as-option', (ri, si), with_cons((p, [('pat', '_t')]))
                    yield 'temporary-pattern-as-fn-arg', (ri, si), with_cons((p, [('fn', '$eq', [('lit', 'a'), ('pat', '_')])]))
            # the same four errors in a constraint whose left-hand side is a named pattern that occurs only in OTHER rules (named
            # patterns are schema-wide, so the left-hand side is fine; the value is what is wrong)
            elsewhere = sorted({c[1] for r2 in rules for c in r2['comps'] if c[0] == 'pat' and not c[1].startswith('_')} - set(named))
            if elsewhere:
                q = elsewhere[(ri + si) % len(elsewhere)]
                yield 'option-names-unknown-pattern:lhs-of-another-rule', (ri, si), with_cons((q, [('lit', 'a'), ('pat', 'nowhere')]))
                yield 'fn-arg-names-unknown-pattern:lhs-of-another-rule', (ri, si), with_cons((q, [('fn', '$eq', [('pat', 'nowhere')])]))
                yield 'temporary-pattern-as-option:lhs-of-another-rule', (ri, si), with_cons((q, [('pat', '_t')]))
                yield 'temporary-pattern-as-fn-arg:lhs-of-another-rule', (ri, si), with_cons((q, [('fn', '$eq', [('lit', 'a'), ('pat', '_')])]))
            yield 'constraint-on-unknown-temporary', (ri, si), with_cons(('_nowhere', [('lit', 'a')]))
            # a temporary pattern that occurs in ANOTHER definition of the same rule id (or in another rule) but not in this one
            foreign = sorted({c[1] for r2 in rules for c in r2['comps'] if c[0] == 'pat' and c[1].startswith('_')} - set(temps))
            if foreign:
                yield 'constraint-on-temporary-of-another-definition', (ri, si), with_cons((foreign[0], [('lit', 'a')]))
        m = copy.deepcopy(schema)
        m['rules'][ri]['signers'] = sorted(set(r['signers']) | {'#undefined_signer'})
        yield 'undefined-signer', (ri,), m
        m = copy.deepcopy(schema)
        tk = TEMP_RULE_NAMES[ri % len(TEMP_RULE_NAMES)]
        m['rules'].append({'name': tk, 'comps': [('lit', 'L9'), ('lit', 'k')], 'cons': [], 'signers': []})
        m['rules'][ri]['signers'] = sorted(set(r['signers']) | {tk})
        yield 'temporary-signer', (ri,), m
        if not r['name'].startswith('#_'):
            m = copy.deepcopy(schema)
            m['rules'][ri]['signers'] = sorted(set(r['signers']) | {r['name']})
            yield 'self-signing', (ri,), m
        for s in r['signers']:
            # close a signing cycle: the signer is signed by this rule
            if not r['name'].startswith('#_'):
                m = copy.deepcopy(schema)
                for d in m['rules']:
                    if d['name'] == s:
                        d['signers'] = sorted(set(d['signers']) | {r['name']})
                yield 'cyclic-signing', (ri, s), m


def build(text):
    model = compile_lvs(text)
    return model, Checker(model, lvs.USER_FNS)


def clean_templates(rng):
    """Well-formed schemas around the compiler's per-definition bookkeeping (a rule id defined several times, temporaries in one
    definition only, constraints on them), plus the LVS template schemas used by C11/C12."""
    a, b, c = rng.sample(lvs.LIT_TEXTS, 3)
    R = lambda name, comps, cons=None, signers=None: {'name': name, 'comps': comps, 'cons': cons or [], 'signers': signers or []}   # noqa
    L = lambda t: ('lit', t)   # noqa
    P = lambda t: ('pat', t)   # noqa
    out = [
        {'rules': [R('#r', [L(a), P('_x')], [[('_x', [L(c)])]]), R('#r', [L(b), P('y')])]},
        {'rules': [R('#r', [L(a), P('_x'), P('_x')], [[('_x', [L(c), L(b)])]]), R('#r', [L(b), P('y'), P('_')]), R('#q', [('ref', '#r'), L(a)])]},
        {'rules': [R('#r', [L(a), P('y')]), R('#r', [L(b), P('_x')], [[('_x', [L(c)])]]), R('#r', [L(c), P('_t'), P('z')], [[('_t', [L(a)]), ('z', [L(b)])]])]},
        {'rules': [R('#k', [L('L1'), P('_i'), P('x')], [[('_i', [L(a), L(b)])]]), R('#k', [L('L1'), P('x')]), R('#p', [L('L0'), P('x')], None, ['#k'])]},
    ]
    return out + lvs.template_schemas(rng, False) + lvs.template_schemas(rng, True)


def check_text(ctx, rng):
    nsch = ctx.n(18, 800)
    clean = []
    templates = clean_templates(rng) if ctx.shard == 0 else []
    for si in range(nsch + len(templates)):
        if si >= nsch:
            schema = templates[si - nsch]
            ctx.klass('template-schema')
        else:
            schema = lvs.gen_schema(rng, with_signers=True, n_rules=rng.randint(2, 6))
        if lvs.alt_counts(schema)[0] > 100:
            continue
        text = lvs.schema_text(schema)
        w = {'schema': text}
        try:
            model, checker = build(text)
            Checker.load(checker.save(), lvs.USER_FNS)
            ctx.event('clean-schema-accepted')
            clean.append((schema, text, checker))
        except (SemanticError, LvsModelError) as e:
            ctx.report(f'clean-schema-rejected:{type(e).__name__}', f'a schema free of the listed errors was rejected: {e}', w)
        except Exception as e:   # noqa
            ctx.report(f'clean-schema-raises:{type(e).__name__}@{raising_site(e)[0]}', f'{e!r}', w)
        ctx.case(('clean', text), nontrivial=True)
        # the documented idiom: a constraint option naming a pattern of the rule that this rule signs
        if si % 3 == 0:
            sc2 = documented_idiom(rng)
            t2 = lvs.schema_text(sc2)
            try:
                build(t2)
                ctx.event('signed-rule-pattern-schema-accepted')
            except SemanticError as e:
                ctx.report('pattern-numbering-order-dependent', f'a constraint option naming a pattern that occurs in the schema '
                           f'(in the rule signed by this one) was rejected: {e}', {'schema': t2})
            except Exception as e:   # noqa
                ctx.report(f'clean-schema-raises:{type(e).__name__}@{raising_site(e)[0]}', f'{e!r}', {'schema': t2})
            ctx.case(('idiom', t2), nontrivial=True)
        injected = list(inject_errors(schema, rng))
        if si >= nsch and len(injected) > 14:
            # template schemas: mainly "must compile"; one injected error of every kind
            by_kind = {}
            for it in injected:
                by_kind.setdefault(it[0], []).append(it)
            injected = [rng.choice(v) for v in by_kind.values()]
        if ctx.quick and len(injected) > 50:
            # keep at least one of every kind, sample the positions
            by_kind = {}
            for it in injected:
                by_kind.setdefault(it[0], []).append(it)
            injected = [rng.choice(v) for v in by_kind.values()] + rng.sample(injected, 50 - min(50, len(by_kind)))
        for kind, pos, bad in injected:
            bt = lvs.schema_text(bad)
            wb = {'schema': bt, 'error': kind, 'position': pos}
            ctx.case((text, kind, pos), nontrivial=True, sample=wb if ctx.evaluations % 700 == 5 else None)
            ctx.event('injected-' + kind)
            try:
                build(bt)
            except SemanticError:
                ctx.event('rejected-with-schema-error')
                continue
            except Exception as e:   # noqa
                ctx.report(f'ill-formed-schema-wrong-error:{kind}:{type(e).__name__}@{raising_site(e)[0]}',
                           f'schema with an injected {kind} raised {e!r} instead of the documented SemanticError', wb)
                continue
            ctx.report(f'ill-formed-schema-accepted:{kind}', f'schema with an injected {kind} compiled and yielded a checker', wb)
    return clean


def documented_idiom(rng):
    """'#r1: /a/b & {b: c}' is valid if '#r2: /c/d <= #r1' exists (docs); random rule names vary the sorting order."""
    def nm():
        return '#' + ''.join(rng.choice('abcdefghijklmnopqrstuvwxyz') for _ in range(2)) + str(rng.randint(0, 9))
    names = []
    while len(names) < 4:
        x = nm()
        if x not in names:
            names.append(x)
    rules = [
        {'name': names[0], 'comps': [('lit', 'L1'), ('pat', 'a'), ('pat', 'b')], 'cons': [[('b', [('pat', 'c')])]], 'signers': [names[3]]},
        {'name': names[3], 'comps': [('lit', 'L2')], 'cons': [], 'signers': []},
        {'name': names[1], 'comps': [('lit', 'L0'), ('pat', 'c'), ('pat', 'd')], 'cons': [], 'signers': [names[0]]},
    ]
    if rng.random() < 0.5:
        rules.append({'name': names[2], 'comps': [('lit', 'L0'), ('lit', 'u'), ('pat', 'e')], 'cons': [], 'signers': []})
    rng.shuffle(rules)
    return {'rules': rules}


# ------------------------------------------------------------------ binary corruptions
def oracle_broken(model, wire=None):
    """Independent re-check of the six documented sanity rules.  -> list of broken rules"""
    broken = []
    if model.version is None or model.version != bny.VERSION:
        broken.append('version')
    if wire is not None and 'version' not in broken:
        # the Version as it stands on the wire (read with the independent codec, not through the library's model class)
        try:
            vers = [rc.read_nni(wire, k[2], k[3]) for k in rc.children(wire, 0, len(wire)) if k[0] == 0x61]
            if len(vers) != 1 or vers[0] != bny.VERSION:
                broken.append('version')
        except (rc.Reject, KeyError):
            pass
    nodes = model.nodes
    n = len(nodes)
    for i, nd in enumerate(nodes):
        if nd.id != i:
            broken.append('node-id')
    if model.start_id is None or not (0 <= model.start_id < n):
        return broken + ['start-id']
    if nodes[model.start_id].parent is not None:
        broken.append('parent-link')      # the root has no parent (Node = NodeId [Parent] ...)
    # the documented rules speak of every node / all edges / every SignConstraint / each ConstraintOption; nodes that cannot be
    # reached from the root are tolerated by python-ndn ("does not check this") but are nodes all the same
    for cur, nd in enumerate(nodes):
        for e in list(nd.v_edges) + list(nd.p_edges):
            if e.dest is None or not (0 <= e.dest < n):
                broken.append('edge-destination')
                continue
            if nodes[e.dest].parent != cur:
                broken.append('parent-link')
        for pe in nd.p_edges:
            for cons in pe.cons_sets:
                for op in cons.options:
                    cnt = [op.value is not None, op.tag is not None, op.fn is not None].count(True)       # 'is set' = the element is present (also when empty)
                    if cnt != 1:
                        broken.append('option-shape')
        for k in nd.sign_cons:
            if k is None or not (0 <= k < n):
                broken.append('signer-id')
    return broken


def corruptions(model, rng, limit):
    """yield (label, mutate function applied to a fresh parsed copy)"""
    out = []
    n = len(model.nodes)
    out += [('version', lambda m, v=v: setattr(m, 'version', v)) for v in (0, bny.VERSION + 1, bny.VERSION - 1, None, 2**32 - 1)]
    for i, nd in enumerate(model.nodes):
        for v in {i + 1, (i + 2) % (n + 1), n + 5, None} - {i}:
            out.append((f'node{i}.id={v}', lambda m, i=i, v=v: setattr(m.nodes[i], 'id', v)))
        for v in {0, i, (nd.parent or 0) + 1, n + 3, None, (i + 1) % n} - {nd.parent}:
            out.append((f'node{i}.parent={v}', lambda m, i=i, v=v: setattr(m.nodes[i], 'parent', v)))
        for kind, edges in (('v', nd.v_edges), ('p', nd.p_edges)):
            for ei, e in enumerate(edges):
                for v in {i, nd.parent if nd.parent is not None else 0, 0, n, n + 7, None, (e.dest + 1) % n, model.start_id} - {e.dest}:
                    def mut(m, i=i, kind=kind, ei=ei, v=v):
                        ed = (m.nodes[i].v_edges if kind == 'v' else m.nodes[i].p_edges)[ei]
                        ed.dest = v
                    out.append((f'node{i}.{kind}edge{ei}.dest={v}', mut))
        for ki, k in enumerate(nd.sign_cons):
            for v in {n, n + 100, 0, i}:
                if v == k:
                    continue

                def mut(m, i=i, ki=ki, v=v):
                    m.nodes[i].sign_cons[ki] = v
                out.append((f'node{i}.signer{ki}={v}', mut))
        for ei, pe in enumerate(nd.p_edges):
            for ci, cons in enumerate(pe.cons_sets):
                for oi, op in enumerate(cons.options):
                    def clear(m, i=i, ei=ei, ci=ci, oi=oi):
                        o = m.nodes[i].p_edges[ei].cons_sets[ci].options[oi]
                        o.value = None
                        o.tag = None
                        o.fn = None

                    def extra_tag(m, i=i, ei=ei, ci=ci, oi=oi):
                        o = m.nodes[i].p_edges[ei].cons_sets[ci].options[oi]
                        if o.tag is None:
                            o.tag = 1
                        else:
                            o.value = b'\x08\x01a'

                    def all3(m, i=i, ei=ei, ci=ci, oi=oi):
                        o = m.nodes[i].p_edges[ei].cons_sets[ci].options[oi]
                        o.value = b'\x08\x01a'
                        o.tag = 1
                        o.fn = bny.UserFnCall()
                        o.fn.fn_id = '$eq'
                        o.fn.args = []
                    def empty_value_too(m, i=i, ei=ei, ci=ci, oi=oi):
                        # a Value element that is present but EMPTY next to a Tag / UserFn: two of the three are set
                        o = m.nodes[i].p_edges[ei].cons_sets[ci].options[oi]
                        if o.value is None:
                            o.value = b''
                        else:
                            o.value = b''
                            o.tag = 1
                    out += [(f'node{i}.pedge{ei}.cons{ci}.opt{oi}.empty-value-and-another', empty_value_too)]
                    out += [(f'node{i}.pedge{ei}.cons{ci}.opt{oi}.clear', clear), (f'node{i}.pedge{ei}.cons{ci}.opt{oi}.two', extra_tag),
                            (f'node{i}.pedge{ei}.cons{ci}.opt{oi}.three', all3)]
    out.append(('start_id=out', lambda m: setattr(m, 'start_id', n + 1)))

    def mk(i, par, v_to=None, signers=()):
        nd = bny.Node()
        nd.id, nd.parent, nd.rule_name, nd.v_edges, nd.p_edges, nd.sign_cons = i, par, [], [], [], list(signers)
        if v_to is not None:
            e = bny.ValueEdge()
            e.dest, e.value = v_to, b'\x08\x01u'
            nd.v_edges = [e]
        return nd
    signed = [i for i, nd in enumerate(model.nodes) if nd.sign_cons]
    # Node records stored in another order than their ids say (every id still occurs exactly once)
    for (a_, b_) in [(0, 1), (1, 2), (0, n - 1), (n - 2, n - 1)] + [tuple(sorted(rng.sample(range(n), 2))) for _ in range(2) if n >= 2]:
        if 0 <= a_ < b_ < n:
            def swap(m, a_=a_, b_=b_):
                lst = list(m.nodes)
                lst[a_], lst[b_] = lst[b_], lst[a_]
                m.nodes = lst
            out.append((f'unreachable-free.records-swapped{a_},{b_}', swap))
    # nodes that cannot be reached from the root (tolerated), well-formed and not
    out.append(('unreachable.ok', lambda m: m.nodes.append(mk(n, None))))
    out.append(('unreachable.chain-ok', lambda m: m.nodes.extend([mk(n, None, v_to=n + 1), mk(n + 1, n)])))
    out.append(('unreachable.cycle-ok', lambda m: m.nodes.extend([mk(n, n + 1, v_to=n + 1), mk(n + 1, n, v_to=n)])))
    for bad in (n + 1, n + 5, 0, n - 1):
        out.append((f'unreachable.id={bad}', lambda m, bad=bad: m.nodes.append(mk(bad, None))))
    out.append(('unreachable.edge-out-of-range', lambda m: m.nodes.append(mk(n, None, v_to=n + 9))))
    out.append(('unreachable.edge-to-tree-node', lambda m: m.nodes.append(mk(n, None, v_to=min(1, n - 1)))))
    out.append(('unreachable.child-wrong-parent', lambda m: m.nodes.extend([mk(n, None, v_to=n + 1), mk(n + 1, None)])))
    out.append(('unreachable.signer-out-of-range', lambda m: m.nodes.append(mk(n, None, signers=[n + 3]))))
    # orphans: nodes beyond the tree that still carry a Parent element (what is left when an edge is dropped or redirected) - no node
    # has an edge to them, so they cannot be reached; the rules hold for them and for what hangs below them all the same
    par = min(1, n - 1)
    out.append(('unreachable.orphan-ok', lambda m: m.nodes.append(mk(n, par))))
    out.append(('unreachable.orphan-chain-ok', lambda m: m.nodes.extend([mk(n, par, v_to=n + 1), mk(n + 1, n)])))
    out.append(('unreachable.orphan-signer-out-of-range', lambda m: m.nodes.append(mk(n, par, signers=[n + 3]))))
    out.append(('unreachable.orphan-edge-out-of-range', lambda m: m.nodes.append(mk(n, 0, v_to=n + 9))))
    out.append(('unreachable.orphan-edge-to-tree-node', lambda m: m.nodes.append(mk(n, par, v_to=0))))
    out.append(('unreachable.orphan-child-signer-out-of-range', lambda m: m.nodes.extend([mk(n, par, v_to=n + 1), mk(n + 1, n, signers=[n + 7])])))
    out.append(('unreachable.orphan-child-wrong-parent', lambda m: m.nodes.extend([mk(n, par, v_to=n + 1), mk(n + 1, par)])))
    for i in signed[:3]:
        # a signer id beyond the array, and a node beyond the tree that claims this very id
        def mut(m, i=i):
            m.nodes[i].sign_cons.append(n + 4)
            m.nodes.append(mk(n + 4, None))
        out.append((f'node{i}.signer+unreachable-claims-id', mut))

        def mut2(m, i=i):
            m.nodes[i].sign_cons.append(n)
            m.nodes.append(mk(n, None))
        out.append((f'node{i}.signer-to-unreachable-ok', mut2))
    if len(out) > limit:
        first = [o for o in out if 'unreachable' in o[0]]      # (also the swapped-record cases)
        keep = [o for o in out if ('parent' in o[0] or o[0].startswith('version') or o[0].endswith('.two')) and o not in first]
        rest = [o for o in out if o not in keep and o not in first]
        keep = keep[:max(0, limit // 2 - len(first) // 2)]
        out = first + keep + rng.sample(rest, min(len(rest), max(0, limit - len(first) - len(keep))))
    return out


def check_binary(ctx, rng, clean):
    per_model = 80 if ctx.quick else 600
    for (schema, text, checker) in clean[: (9 if ctx.quick else len(clean))]:
        blob = checker.save()
        ref = lvs.Ref(schema, lvs.USER_FNS)
        alphabet = [lvs.lit(t) for t in ref.literals()] + [rc.comp(8, b'zz')]
        base = bny.LvsModel.parse(blob)
        nn = len(base.nodes)
        ne = sum(len(x.v_edges) + len(x.p_edges) for x in base.nodes)
        for label, mut in corruptions(base, rng, per_model):
            m = bny.LvsModel.parse(blob)
            try:
                mut(m)
                wire = bytes(m.encode())
                m2 = bny.LvsModel.parse(wire)       # what the loader will see
            except Exception:   # noqa
                ctx.event('corruption-not-encodable')
                continue
            broken = oracle_broken(m2, wire)
            if label.endswith('.two') and 'option-shape' in broken:
                # the same doubly-set option as ANOTHER encoder may write it: its two elements in the other order (Tag before Value).
                # However the decoder feels about the order, a model with such an option is not accepted
                try:
                    i_, ei_, ci_, oi_ = [int(x) for x in __import__('re').findall(r'\d+', label)[:4]]
                    o_ = m2.nodes[i_].p_edges[ei_].cons_sets[ci_].options[oi_]
                    if o_.value is not None and o_.tag is not None:
                        ve_ = rc.enc_tlv(bny.TypeNumber.COMPONENT_VALUE, bytes(o_.value))
                        te_ = rc.enc_tlv(bny.TypeNumber.PATTERN_TAG, rc.enc_nni(o_.tag))
                        if wire.count(ve_ + te_) == 1:
                            swapped = wire.replace(ve_ + te_, te_ + ve_)
                            ctx.event('doubly-set-option-in-non-canonical-element-order')
                            try:
                                Checker.load(swapped, lvs.USER_FNS)
                                ctx.report('broken-model-accepted:option-shape:noncanonical-order', 'a ConstraintOption with Tag AND Value set (written Tag first) loaded without error',
                                           {'schema': text, 'corruption': label + ' (elements swapped)', 'model': swapped if len(swapped) < 700 else swapped[:350]})
                            except (LvsModelError, DecodeError):
                                ctx.event('rejected-with-model-error')
                            except Exception as e_:   # noqa
                                ctx.event(f'observation:noncanonical-option-refused-with-{type(e_).__name__}')
                except Exception:   # noqa
                    pass
            field = label.split('=')[0].split('.')[-1] if '=' in label else label.split('.')[-1]
            w = {'schema': text, 'corruption': label, 'broken_rules': sorted(set(broken)), 'model': wire if len(wire) < 700 else wire[:350]}
            ctx.case((text, label), nontrivial=True, sample=w if ctx.evaluations % 900 == 11 else None)
            ctx.event('corruption-breaking' if broken else 'corruption-benign')
            if 'unreachable' in label:
                ctx.event('corruption-with-unreachable-node')
            budget = 600 * (nn + 2) * (nn + 2) + 30000
            via = ('load', 'constructor', 'constructor-on-an-object-accepted-before')[ctx.evaluations % 3]
            ctx.event('model-built-via-' + via)
            w['built_via'] = via
            mobj = None
            if via == 'constructor-on-an-object-accepted-before':
                # the application holds ONE model object: a checker was built on it while it was sound, then the object was edited
                # (the same corruption, applied in place) and a checker is built on it again - the rules hold for the model as it is now
                try:
                    mobj = bny.LvsModel.parse(blob)
                    Checker(mobj, lvs.USER_FNS)
                    mut(mobj)
                except Exception:   # noqa
                    ctx.event('corruption-not-applicable-in-place')
                    mobj = None
                    via = 'constructor'
            try:
                with monitors.Steps(limit=budget):
                    # both documented ways of getting a checker from a binary model
                    ck = Checker.load(wire, lvs.USER_FNS) if via == 'load' else Checker(mobj if mobj is not None else bny.LvsModel.parse(wire), lvs.USER_FNS)
                err = None
            except monitors.BudgetExceeded:
                ctx.report('loader-does-not-terminate', f'loading exceeded {budget} interpreter events', w)
                continue
            except BaseException as e:   # noqa
                if isinstance(e, (KeyboardInterrupt, SystemExit)):
                    raise
                err = e
            if broken:
                if err is None:
                    mech = f'broken-model-accepted:{sorted(set(broken))[0]}'
                    if 'parent-link' in broken and ('parent' in label):
                        mech = 'root-parent-unchecked' if root_child(base, label) else mech
                    ctx.report(mech, f'model breaking {sorted(set(broken))} loaded without error', w)
                elif not isinstance(err, LvsModelError):
                    mech = f'broken-model-wrong-error:{sorted(set(broken))[0]}:{type(err).__name__}'
                    if isinstance(err, RecursionError) and ('parent-link' in broken or 'not-a-tree' in broken):
                        mech = 'root-parent-unchecked'
                    ctx.report(mech, f'model breaking {sorted(set(broken))} raised {type(err).__name__} instead of LvsModelError: {err!r}'[:300], w)
                else:
                    ctx.event('rejected-with-model-error')
            if err is not None:
                continue
            # accepted: every query terminates
            for q in range(12):
                name = [rng.choice(alphabet) for _ in range(rng.randint(0, 6))]
                key = [rng.choice(alphabet) for _ in range(rng.randint(1, 5))]
                qb = 300 * (nn + 2) * (len(name) + 2) + 30000
                try:
                    with monitors.Steps(limit=qb):
                        list(ck.match(name if name else '/'))
                        ck.check(name if name else '/', key)
                    ctx.event('query-terminated')
                except monitors.BudgetExceeded:
                    mech = 'query-does-not-terminate'
                    if broken and 'parent-link' in broken:
                        mech = 'root-parent-unchecked'
                    ctx.report(mech, f'a query on an accepted model exceeded {qb} interpreter events', dict(w, name=rc.name_to_uri(name, canonical=True)))
                    break
                except RecursionError as e:
                    ctx.report('query-recursion', 'RecursionError in a query on an accepted model', w)
                    break
                except Exception as e:   # noqa
                    if broken:
                        break
                    ctx.event(f'query-raised-{type(e).__name__}')


def check_deep_models(ctx, rng, clean):
    """Binary models with a chain of value edges deeper than the interpreter's recursion limit, one node of the chain broken
    (signer id / edge destination out of range, an option with Value and Tag): such a model must not be accepted.  Whether the
    refusal is the model error or - as the recursive loader gives for any model this deep - a RecursionError is recorded, not
    judged (nothing documented covers models of that depth); acceptance of the broken one is."""
    if not clean:
        return
    schema, text, checker = clean[0]
    for depth_ in ((1400,) if ctx.quick else (1100, 1400, 3000)):
        for where in (0.5, 0.9, 0.1):
            for kind in ('signer-id', 'edge-destination', 'option-shape', 'none'):
                m = bny.LvsModel.parse(checker.save())
                nn = len(m.nodes)
                prev = m.start_id
                for j in range(depth_):
                    nd = bny.Node()
                    nd.id = nn + j
                    nd.parent = prev
                    nd.rule_name = []
                    nd.v_edges = []
                    nd.p_edges = []
                    nd.sign_cons = []
                    e = bny.ValueEdge()
                    e.dest = nd.id
                    e.value = bytes(rc.comp(8, b'deep' if j == 0 else b'a'))
                    m.nodes[prev].v_edges = list(m.nodes[prev].v_edges) + [e]
                    m.nodes.append(nd)
                    prev = nd.id
                tgt = m.nodes[nn + int(depth_ * where)]
                if kind == 'signer-id':
                    tgt.sign_cons = [len(m.nodes) + 7]
                elif kind == 'edge-destination':
                    e = bny.ValueEdge()
                    e.dest = len(m.nodes) + 3
                    e.value = bytes(rc.comp(8, b'nowhere'))
                    tgt.v_edges = list(tgt.v_edges) + [e]
                elif kind == 'option-shape':
                    pe = bny.PatternEdge()
                    pe.dest = tgt.v_edges[0].dest
                    pe.tag = 1
                    op = bny.ConstraintOption()
                    op.value = bytes(rc.comp(8, b'v'))
                    op.tag = 1
                    pc = bny.PatternConstraint()
                    pc.options = [op]
                    pe.cons_sets = [pc]
                    tgt.p_edges = [pe]
                    tgt.v_edges = []
                try:
                    wire = bytes(m.encode())
                except Exception:   # noqa
                    ctx.event('corruption-not-encodable')
                    continue
                w = {'chain_depth': depth_, 'broken_node_at': where, 'corruption': kind}
                ctx.case(('deep', depth_, where, kind), nontrivial=True)
                ctx.event('deep-model-' + ('broken' if kind != 'none' else 'sound'))
                try:
                    ck = Checker.load(wire, lvs.USER_FNS)
                    err = None
                except BaseException as e:   # noqa
                    if isinstance(e, (KeyboardInterrupt, SystemExit)):
                        raise
                    err = e
                ctx.event('deep-model:' + ('accepted' if err is None else type(err).__name__))
                if kind != 'none' and err is None:
                    ctx.report(f'broken-model-accepted:deep-chain:{kind}', f'a model whose chain of {depth_} nodes contains a node with a broken {kind} loaded without error', w)
                elif kind == 'none' and err is None:
                    # accepted: queries along the chain terminate (by returning or by raising)
                    name = [rc.comp(8, b'deep')] + [rc.comp(8, b'a')] * (depth_ - 1)
                    try:
                        with monitors.Steps(limit=400 * (depth_ + 10) * 8):
                            list(ck.match(name))
                        ctx.event('query-terminated')
                    except monitors.BudgetExceeded:
                        ctx.report('query-does-not-terminate', 'a query along a deep chain exceeded its step budget', w)
                    except (RecursionError, Exception):   # noqa
                        ctx.event('deep-query-raised')


def check_signing_queries_terminate(ctx, rng):
    """Every query on an accepted model terminates - also the signing check on schemas whose key rules constrain patterns that the
    packet name has bound (the delicate template schemas of C12), for key names that satisfy and that fail those constraints.  Every
    call runs under its own interpreter-step budget."""
    done = 0
    for schema in lvs.template_schemas(rng, True):
        text = lvs.schema_text(schema)
        fns_lib, fns_ref = lvs.fns_for(schema)
        try:
            ck = Checker(compile_lvs(text), fns_lib)
        except Exception:   # noqa
            continue
        ref = lvs.Ref(schema, fns_ref)
        alphabet = [lvs.lit(t) for t in ref.literals()] + [rc.comp(8, b'zz')]
        names = ref.directed_names(rng, alphabet, 3)
        matching = [n for n in names if ref.match(n)][:40]
        pairs = [([lvs.lit(t) for t in pn], [lvs.lit(t) for t in kn]) for pn, kn in schema.get('probes', [])]
        pairs += [(p_, k_) for p_ in matching[:25] for k_ in matching[:25]]
        # near misses of key names: one component replaced (constraints on carried patterns then fail)
        for p_ in matching[:10]:
            for k_ in matching[:10]:
                if k_:
                    k2 = list(k_)
                    k2[rng.randrange(len(k2))] = rng.choice(alphabet)
                    pairs.append((p_, k2))
        nn = len(ck.model.nodes)
        for (p_, k_) in pairs[:900]:
            qb = 400 * (nn + 2) * (len(p_) + len(k_) + 2) + 30000
            try:
                with monitors.Steps(limit=qb):
                    ck.check(p_ if p_ else '/', k_ if k_ else '/')
                done += 1
            except monitors.BudgetExceeded:
                ctx.report('query-does-not-terminate:check', f'check({rc.name_to_uri(p_, canonical=True)}, {rc.name_to_uri(k_, canonical=True)}) on an accepted model exceeded {qb} interpreter events',
                           {'schema': text})
                break
            except Exception:   # noqa
                pass
        ctx.case(('signing-queries', text[:80]), nontrivial=True)
    ctx.event('signing-query-terminated', done)


def root_child(model, label):
    try:
        i = int(label.split('.')[0][4:])
    except ValueError:
        return False
    return model.nodes[i].parent == model.start_id


def run(ctx):
    ctx.rule = RULE
    rng = ctx.rng
    monitors.selftest()
    clean = check_text(ctx, rng)
    check_binary(ctx, rng, clean)
    check_signing_queries_terminate(ctx, rng)
    ctx.need_event('signing-query-terminated')
    if ctx.shard == 0:
        check_deep_models(ctx, rng, clean)
        ctx.need_event('deep-model-broken')
    need = ['clean-schema-accepted', 'rejected-with-schema-error', 'corruption-breaking', 'corruption-benign', 'rejected-with-model-error',
            'query-terminated', 'signed-rule-pattern-schema-accepted', 'corruption-with-unreachable-node', 'model-built-via-load', 'model-built-via-constructor',
            'model-built-via-constructor-on-an-object-accepted-before',
            'doubly-set-option-in-non-canonical-element-order']
    for k in need:
        ctx.need_event(k)
    ctx.assumptions = ['documented schema error = SemanticError (from compile_lvs or Checker()), documented model error = LvsModelError',
                       'corruptions outside the six documented sanity rules need not be rejected, but whatever is accepted must terminate',
                       'step budget: 300*(nodes+2)*(len(name)+2)+30000 interpreter events per query (a normal query costs a few hundred), 600*(nodes+2)^2+30000 for loading']
