"""C05 - nothing that requires validation reaches the application unvalidated.

The harness keeps its own validator-invocation log and handler-invocation log (virtual times);
the rules of the statement are checked as order constraints on those logs.
"""
import asyncio

from . import gen, pkts, vtime, refcodec as rc
from .boundary import RecFace
from .common import raising_site

from ndn import appv2, app as appv1, types
from ndn.encoding import make_interest, make_data, InterestParam, MetaInfo
from ndn.security import KeychainDigest, DigestSha256Signer, union_checker

RULE = ('Data side: every validator verdict (all ValidResult values / truthiness) x validator latency {0, <, =, > deadline} '
        'x both front-ends; Interest side: {ApplicationParameters absent/empty/non-empty} x {unsigned, DigestSha256, HMAC, '
        'ECDSA} x {digest correct, one bit wrong, component missing, wrong length} x {validator None, each verdict, slow}; '
        'distinct = the full parameter tuple; non-trivial = a validator or digest decision was involved')

V2_VERDICTS = ['PASS', 'ALLOW_BYPASS', 'FAIL', 'TIMEOUT', 'SILENCE', True, False, None, 1]
V1_VERDICTS = [True, 1, 'yes', False, 0, None, '']
C = lambda s: rc.comp(8, s)   # noqa


def v2_accepts(v):
    return v in ('PASS', 'ALLOW_BYPASS')


def _foreign_failure(msg):
    # what escapes from a validator whose own (nested) fetch of a certificate was refused: a ValidationFailure that describes
    # ANOTHER packet and carries the verdict of another validator
    from ndn.encoding import parse_data as _pd, make_data as _md, MetaInfo as _MI
    from ndn.security import DigestSha256Signer as _DS
    n_, m_, c_, s_ = _pd(bytes(_md('/nested/KEY/k1', _MI(), b'certificate-bits', _DS())))
    return types.ValidationFailure(n_, m_, c_, s_, types.ValidResult.SILENCE)


RAISES = {'raise:TimeoutError': TimeoutError, 'raise:CancelledError': asyncio.CancelledError, 'raise:ValueError': ValueError,
          'raise:ValidationFailure-of-a-nested-fetch': _foreign_failure}


def is_raise(v):
    return isinstance(v, str) and v.startswith('raise:')


def accepts(fe, v):
    """does this verdict accept?  a validator that gives up by raising has not accepted anything"""
    if is_raise(v):
        return False
    return v2_accepts(v) if fe == 'v2' else bool(v)


def give(fe, v):
    """what the harness validator does at its end: return the verdict, or raise"""
    if is_raise(v):
        raise RAISES[v]('validator gave up')
    return to_v2(v) if fe == 'v2' else v


def to_v2(v):
    return getattr(types.ValidResult, v) if isinstance(v, str) else v


# ------------------------------------------------------------------ Data side
CT_SEQ = [0]


def check_data_side(ctx, rng):
    cases = []
    for fe in ('v2', 'v1'):
        for verdict in (V2_VERDICTS[:5] if fe == 'v2' else V1_VERDICTS):
            for L in (100, 1000):
                for t_data in (0, 10, L - 1):
                    for rel in (None, -1, 0, 1, 50, 5000):
                        lat = 0 if rel is None else max(0, L - t_data + rel)
                        cases.append((fe, verdict, L, t_data, lat, 0))
    # validators that give up by raising instead of returning a verdict
    special = []
    for fe in ('v2', 'v1'):
        for verdict in RAISES:
            for (t_data, lat) in ((10, 0), (10, 20), (90, 50)):
                special.append((fe, verdict, 100, t_data, lat, 0))
            if fe == 'v2':
                special.append((fe, verdict, 100, 10, 200, 350))      # gives up after the deadline; the caller begins to await later still
    # current front-end: express() sends at once and returns a coroutine; the caller starts awaiting it later (but before
    # the deadline).  The deadline is still send time + lifetime.
    for verdict in ('PASS', 'ALLOW_BYPASS', 'FAIL'):
        for L in (100, 1000):
            for await_at in (L // 4, L // 2, L - 1, L + 5, L + 60):       # the last two: first awaited after the deadline
                for (t_data, rel) in ((5, None), (L - 10, -1), (L - 10, 1), (L - 10, await_at // 2), (L - 1, await_at - 1), (5, 5000)):
                    lat = 0 if rel is None else max(0, L - t_data + rel)
                    special.append(('v2', verdict, L, t_data, lat, await_at))
    if ctx.quick:
        rng.shuffle(cases)
        rs = [c for c in special if is_raise(c[1])]
        aw = [c for c in special if not is_raise(c[1])]
        rng.shuffle(aw)
        cases = cases[:220] + rs + aw[:60]
    else:
        cases = [c for i, c in enumerate(cases + special) if i % ctx.nshards == ctx.shard]
    for ci, (fe, verdict, L, t_data, lat, await_at) in enumerate(cases):
        run_data_case(ctx, fe, verdict, L, t_data, lat, await_at, implicit=(ci % 3 == 1), falsy_obj=(ci % 4 == 2))


def as_object(fn):
    """The same validator as a callable OBJECT that is empty, hence false in a boolean test (e.g. a key store with no keys yet): it is
    still the validator supplied for the Interest."""
    class EmptyStoreValidator(dict):
        async def __call__(self, *a):
            return await fn(*a)
    return EmptyStoreValidator()


def run_data_case(ctx, fe, verdict, L, t_data, lat, await_at=0, implicit=False, falsy_obj=False):
    obs = {}
    vlog = []
    # the name space of the Data (the application's own, the local forwarder's management names, link-local names) is no input of
    # the rule either
    name = [[C(b'd'), C(b'x')], [C(b'localhost'), C(b'nfd'), C(b'status'), C(b'general')], [C(b'd'), C(b'x')], [C(b'localhop'), C(b'nfd'), C(b'rib'), C(b'list')],
            [C(b'd'), C(b'x')], [C(b'localhost'), C(b'nfd'), C(b'faces'), C(b'events'), rc.comp(0x3a, b'\x07')], [C(b'ndn'), C(b'KEY'), C(b'k')]][(CT_SEQ[0] + 1) % 7]
    # the Data's ContentType (BLOB, LINK, KEY, application-level NACK, absent, an unassigned number) is no input of validation
    CT_SEQ[0] += 1
    ct = [0, 3, 2, 1, None, 3, 1024, 3][CT_SEQ[0] % 8]
    wire = bytes(make_data(name, MetaInfo(content_type=ct, freshness_period=5), b'payload', DigestSha256Signer()))
    # fetched by full name: the Interest carries the implicit digest of exactly this packet; the validator still decides
    iname = name + [rc.comp(1, __import__('hashlib').sha256(wire).digest())] if implicit else name

    async def main(S):
        face = RecFace()
        the_app = appv2.NDNApp(face=face) if fe == 'v2' else appv1.NDNApp(face=face, keychain=KeychainDigest())
        main_task = asyncio.ensure_future(the_app.main_loop())
        await asyncio.sleep(0)
        if fe == 'v2':
            async def validator(n, sig, c):
                vlog.append(('call', S.now_ms()))
                if lat:
                    await asyncio.sleep(lat / 1000)
                vlog.append(('ret', S.now_ms()))
                return give(fe, verdict)
            coro = the_app.express(iname, as_object(validator) if falsy_obj else validator, lifetime=L, nonce=1)
        else:
            async def validator(n, sig):
                vlog.append(('call', S.now_ms()))
                if lat:
                    await asyncio.sleep(lat / 1000)
                vlog.append(('ret', S.now_ms()))
                return give(fe, verdict)
            # (asking for the raw packet as well is no input of validation)
            CT_SEQ[0] += 1
            the_validator = as_object(validator) if falsy_obj else validator
            if CT_SEQ[0] % 4 in (1, 2):
                # the validator supplied is a chain built with the library's own combinator: it accepts only when every member accepts,
                # whatever the members after a refusing one say
                async def yes(n, sig):
                    vlog.append(('member-yes', S.now_ms()))
                    return True
                the_validator = union_checker(the_validator, yes) if CT_SEQ[0] % 4 == 1 else union_checker(yes, the_validator, yes)
                obs['chain'] = True
            if CT_SEQ[0] % 5 == 3:
                # the validator in force is the application-wide one: the Interest names none of its own
                the_app.data_validator = the_validator
                obs['app-wide'] = True
                if CT_SEQ[0] % 2 == 0:
                    # the application set its validator, lost its connection and connected again (same object): its policy is still its policy
                    the_app.shutdown()
                    await asyncio.wait_for(main_task, 5)
                    main_task = asyncio.ensure_future(the_app.main_loop())
                    await asyncio.sleep(0)
                    obs['reconnected'] = True
                coro = the_app.express_interest(iname, lifetime=L, nonce=1, need_raw_packet=(CT_SEQ[0] % 3 == 0))
            else:
                coro = the_app.express_interest(iname, validator=the_validator, lifetime=L, nonce=1,
                                                need_raw_packet=(CT_SEQ[0] % 3 == 0))

        async def waiter():
            if await_at:
                await S.sleep_until_ms(await_at)
            try:
                r = await coro
                obs['res'] = ('data', r, S.now_ms())
            except BaseException as e:   # noqa
                obs['res'] = ('exc', e, S.now_ms())
                if isinstance(e, asyncio.CancelledError):
                    raise
        t = asyncio.ensure_future(waiter())
        await S.sleep_until_ms(t_data)
        await face.deliver(wire)
        await S.sleep_until_ms(L + lat + 100)
        if not t.done():
            obs['res'] = ('open', None, None)
            t.cancel()
        the_app.shutdown()
        await asyncio.wait_for(main_task, 5)

    S = vtime.run(main)
    w = {'frontend': fe, 'verdict': repr(verdict), 'lifetime': L, 'data_at': t_data, 'validator_latency': lat, 'awaited_from': await_at, 'by_full_name': implicit}
    if S.result != 'ok':
        ctx.report(f'data-scenario-{S.result}:{fe}', f'{S.error!r}', w)
        return
    kind, val, t = obs.get('res', ('open', None, None))
    tv = t_data + lat
    accept = accepts(fe, verdict)
    rel = 'before' if tv < L else 'at' if tv == L else 'after'
    if implicit:
        ctx.event('data-fetched-by-full-name')
    if falsy_obj:
        ctx.event('validator-is-a-falsy-callable-object')
    if obs.get('reconnected'):
        ctx.event('application-wide-validator-set-before-a-reconnect')
        w['reconnected_after_setting_the_validator'] = True
    if obs.get('app-wide'):
        ctx.event('validator-is-the-application-wide-one')
        w['validator_set_as'] = 'app.data_validator'
    if name[0] != C(b'd'):
        ctx.event('data-under-' + bytes(name[0][2:]).decode())
    w['name'] = rc.name_to_uri(name) if hasattr(rc, 'name_to_uri') else [bytes(c).hex() for c in name]
    if obs.get('chain'):
        ctx.event('validator-is-a-chain-of-the-library-combinator')
        w['validator'] = 'union_checker(...) with accepting members after the deciding one'
    ctx.case(('data', fe, repr(verdict), L, t_data, lat, await_at, implicit), nontrivial=True, sample=w if ctx.evaluations % 60 == 0 else None)
    ctx.event(f'data-{rel}-deadline')
    if await_at:
        ctx.event('data-awaited-later-than-expressed')
    if is_raise(verdict):
        # what an application sees when its own validator raises is outside the statement; the payload as a result is not
        ctx.event('data-validator-raised')
        if kind == 'data':
            ctx.report(f'payload-returned-although-validator-raised:{fe}', f'Data returned although the validator gave up with {verdict}', w)
        elif isinstance(val, types.ValidationFailure) and fe == 'v2':
            # (legacy front-end: the validator runs inside the caller's own await, its exception reaches the caller as any exception
            # of the caller's code would - not judged.)  Current front-end: the validator runs in a task of the library, which decides
            # what the caller is told: a validation failure reported for THIS Interest carries this Interest's packet, and
            # nothing but a timeout is reported once the deadline has passed
            ctx.event('validation-failure-after-the-validator-raised')
            if val.name is None or [bytes(c) for c in val.name] != name or val.content is None or bytes(val.content) != b'payload':
                ctx.report(f'validation-failure-lacks:packet:{fe}:validator-raised', 'the ValidationFailure handed to the caller describes another packet than the one that answered its Interest', w)
            if rel == 'after' and fe == 'v2':
                ctx.report('verdict-after-deadline:v2:validator-raised', f'ValidationFailure delivered at {t} ms although the validator gave up after the {L} ms deadline (a timeout is due)', w)
        return
    for le in S.sentinel.all():
        ex = le.get('exception')
        ctx.report(f'data-background-error:{fe}:{type(ex).__name__ if ex else "?"}', f'{le.get("repr")}', w)
    if kind == 'data':
        ctx.event('payload-returned')
        if not accept:
            ctx.report(f'payload-returned-despite-verdict:{fe}', f'Data returned although the validator said {verdict!r}', w)
        elif rel == 'after':
            ctx.report('v1-validator-unbounded' if fe == 'v1' else 'payload-returned-after-deadline:v2',
                       f'payload returned at {t} ms although the validator finished after the {L} ms deadline', w)
        elif not vlog:
            ctx.report(f'payload-returned-without-validation:{fe}', 'Data returned but the validator was never invoked', w)
        return
    if kind == 'open':
        ctx.report(f'express-never-completes:{fe}', 'the awaitable never completed', w)
        return
    e = val
    if isinstance(e, types.ValidationFailure):
        ctx.event('validation-failure')
        if accept and rel == 'before':
            ctx.event('observation:validation-failure-despite-accept')       # C03 demands the Data here; C05 only the "only if" direction
        if rel == 'after':
            ctx.report('v1-validator-unbounded' if fe == 'v1' else 'verdict-after-deadline:v2',
                       f'ValidationFailure delivered at {t} ms, after the {L} ms deadline, instead of a timeout', w)
        probs = []
        if e.name is None or [bytes(c) for c in e.name] != name:
            probs.append('name')
        if e.content is None or bytes(e.content) != b'payload':
            probs.append('content')
        if e.sig_ptrs is None or e.meta_info is None:
            probs.append('sig/meta')
        if fe == 'v2' and e.result != to_v2(verdict) and not (not isinstance(verdict, str)):
            probs.append('verdict')
        for p in probs:
            ctx.report(f'validation-failure-lacks:{p}:{fe}', f'ValidationFailure does not carry the {p}', w)
        return
    if isinstance(e, types.InterestTimeout):
        ctx.event('timeout')
        if rel == 'before':
            ctx.event('observation:timeout-although-validated-in-time')      # judged by C03
        return
    ctx.report(f'unexpected-outcome:{fe}:{type(e).__name__}', f'express ended with {e!r}', w)


def check_data_multi(ctx, rng):
    """Several Interests pending on one name (and on a CanBePrefix parent), each with its own validator: one Data must be
    judged by every caller's own validator."""
    for fe in ('v2', 'v1'):
        verdicts = V2_VERDICTS[:5] if fe == 'v2' else V1_VERDICTS
        for rep in range(ctx.n(40, 100000)):
            k = rng.randint(2, 4)
            specs = []
            for j in range(k):
                specs.append({'verdict': rng.choice(verdicts), 'lat': rng.choice([0, 0, 5, 20]), 'parent': rng.random() < 0.25})
            if rep % 4 == 0:
                specs[0]['verdict'] = verdicts[0]          # an accepting validator first, a refusing one later
                specs[-1]['verdict'] = verdicts[2]
            obs = {}
            vlog = []
            vnames = []
            name = [C(b'm'), C(b'x')]
            CT_SEQ[0] += 1
            wire = bytes(make_data(name, MetaInfo(content_type=[0, 3, 2, 3, None, 1][CT_SEQ[0] % 6]), b'payload', DigestSha256Signer()))

            async def main(S):
                face = RecFace()
                the_app = appv2.NDNApp(face=face) if fe == 'v2' else appv1.NDNApp(face=face, keychain=KeychainDigest())
                main_task = asyncio.ensure_future(the_app.main_loop())
                await asyncio.sleep(0)
                tasks = []
                for j, sp in enumerate(specs):
                    nm = name[:1] if sp['parent'] else name
                    if fe == 'v2':
                        async def v(n, sig, c, j=j, sp=sp):
                            vlog.append(j)
                            vnames.append([bytes(x) for x in n])
                            if sp['lat']:
                                await asyncio.sleep(sp['lat'] / 1000)
                            return to_v2(sp['verdict'])
                        coro = the_app.express(nm, v, lifetime=1000, can_be_prefix=sp['parent'], nonce=10 + j)
                    else:
                        async def v(n, sig, j=j, sp=sp):
                            vlog.append(j)
                            vnames.append([bytes(x) for x in n])
                            if sp['lat']:
                                await asyncio.sleep(sp['lat'] / 1000)
                            return sp['verdict']
                        coro = the_app.express_interest(nm, validator=v, lifetime=1000, can_be_prefix=sp['parent'], nonce=10 + j, need_raw_packet=(j % 2 == 1))

                    async def waiter(j=j, coro=coro):
                        try:
                            await coro
                            obs[j] = 'data'
                        except types.ValidationFailure as e:
                            obs[j] = ('valfail', getattr(e, 'result', None))
                        except asyncio.CancelledError:
                            raise
                        except BaseException as e:   # noqa
                            obs[j] = type(e).__name__
                    tasks.append(asyncio.ensure_future(waiter()))
                await asyncio.sleep(0.01)
                await face.deliver(wire)
                await asyncio.sleep(1.5)
                the_app.shutdown()
                await asyncio.wait_for(main_task, 5)
            S = vtime.run(main)
            w = {'frontend': fe, 'interests': [dict(sp, verdict=repr(sp['verdict'])) for sp in specs], 'observed': {str(k_): str(v_) for k_, v_ in obs.items()},
                 'validators_called': vlog}
            ctx.case(('multi', fe, tuple((repr(sp['verdict']), sp['lat'], sp['parent']) for sp in specs)), nontrivial=True)
            ctx.event('multi-interest-data')
            if S.result != 'ok':
                ctx.report(f'multi-scenario-{S.result}:{fe}', f'{S.error!r}', w)
                continue
            if any(vn != name for vn in vnames):
                ctx.report(f'validator-given-wrong-name:{fe}', 'a validator was called with a name other than the name of the Data it has to judge',
                           dict(w, given=[[c.hex() for c in vn] for vn in vnames if vn != name][:2]))
            for j, sp in enumerate(specs):
                accept = v2_accepts(sp['verdict']) if fe == 'v2' else bool(sp['verdict'])
                got = obs.get(j)
                if got == 'data' and not accept:
                    ctx.report(f'payload-returned-despite-own-validator:{fe}', f'Interest {j} got the payload although its own validator says {sp["verdict"]!r}', w)
                elif got == 'data' and vlog.count(j) == 0:
                    ctx.report(f'payload-returned-without-own-validator:{fe}', f'Interest {j} got the payload but its validator was never consulted', w)
                elif accept and got != 'data':
                    ctx.event('observation:accepted-data-not-returned')      # the "if" direction is C03's (Data iff it matches in time)
                elif not accept and (not isinstance(got, tuple)) and vlog.count(j) > 0:
                    # only when this Interest's validator was consulted (and refused): a refusing verdict must surface as a validation failure
                    ctx.report(f'refused-data-wrong-outcome:{fe}', f'Interest {j}: its validator was consulted and refuses but the outcome is {got!r}', w)


# ------------------------------------------------------------------ Interest side
def build_interest(rng, prefix, seq, app, signer_kind, digest_mode):
    name = list(prefix) + [rc.comp(8, str(seq).encode())]
    signer = None
    if signer_kind == 'sig-without-params':
        # hand-made: InterestSignatureInfo and InterestSignatureValue but NO ApplicationParameters element at all; the digest
        # component is absent ('missing') or arbitrary: it "carries a signature", and no reading makes its parameters digest correct
        w0 = bytes(make_interest(name, InterestParam(nonce=seq, lifetime=4000), b'', pkts.make_signer(rng, 'digest-int')[0]))
        buf, vs, ve = rc.outer(w0, 5)
        kids = [k for k in rc.children(buf, vs, ve) if k[0] not in (7, 0x24)]
        comps = [c for c in rc.strict_interest(w0)['name'] if rc.comp_parts(c)[0] != 2]
        if digest_mode != 'missing':
            comps.append(rc.comp(2, gen.rand_bytes(rng, 32)))
        return rc.enc_tlv(5, rc.enc_name(comps) + b''.join(buf[k[1]:k[3]] for k in kids))
    if signer_kind != 'unsigned':
        signer, _ = pkts.make_signer(rng, {'digest': 'digest-int', 'hmac': 'hmac', 'ecdsa': 'ecdsa256', 'siginfo-only': 'digest-int'}[signer_kind])
    app_param = {'absent': None, 'empty': b'', 'nonempty': b'param-bytes'}[app]
    wire = bytes(make_interest(name, InterestParam(nonce=seq, lifetime=4000), app_param, signer))
    if signer_kind == 'siginfo-only':
        # half-signed: the InterestSignatureInfo is there, the InterestSignatureValue is not (digest recomputed): it still "carries a
        # signature" for the purposes of the digest check and the validator
        buf, vs, ve = rc.outer(wire, 5)
        kids = rc.children(buf, vs, ve)
        keep = [k for k in kids if k[0] != 0x2e]
        params_from = [k for k in keep if k[0] in (0x24, 0x2c)][0][1]
        params = buf[params_from:keep[-1][3]]
        comps = [rc.comp(2, __import__('hashlib').sha256(params).digest()) if rc.comp_parts(c)[0] == 2 else c for c in rc.strict_interest(wire)['name']]
        wire = rc.enc_tlv(5, rc.enc_name(comps) + buf[keep[0][3]:keep[-1][3]])
    ref = rc.strict_interest(wire)
    has_digest = any(rc.comp_parts(c)[0] == 2 for c in ref['name'])
    if digest_mode != 'ok' and has_digest:
        comps = list(ref['name'])
        idx = [i for i, c in enumerate(comps) if rc.comp_parts(c)[0] == 2][0]
        t, v = rc.comp_parts(comps[idx])
        if digest_mode == 'bitflip':
            b = bytearray(v)
            b[rng.randrange(32)] ^= 1 << rng.randrange(8)
            comps[idx] = rc.comp(2, bytes(b))
        elif digest_mode == 'missing':
            del comps[idx]
        elif digest_mode == 'short':
            comps[idx] = rc.comp(2, v[:31])
        elif digest_mode == 'trailer':
            pass        # name unchanged: an unrecognised non-critical element is appended below, which the digest then does not cover
        # re-encode the Interest with the edited name, everything else byte-identical
        buf = wire
        _, vs, ve = rc.outer(buf, 5)
        kids = rc.children(buf, vs, ve)
        body = rc.enc_name(comps) + buf[kids[0][3]:ve]
        if digest_mode == 'trailer':
            body += rc.enc_tlv(0xF0, b'appended-after-the-digest-was-computed')
        wire = rc.enc_tlv(5, body)
    return wire


def check_interest_side(ctx, rng):
    for fe in ('v2', 'v1'):
        verdicts = V2_VERDICTS if fe == 'v2' else V1_VERDICTS
        configs = [('none', None, 0)] + [('v', v, 0) for v in verdicts] + [('v', verdicts[0], 30), ('v', verdicts[2], 30)]
        configs += [('v', r, 0) for r in RAISES] + [('v', 'raise:TimeoutError', 30)]
        matrix = []
        for app in ('absent', 'empty', 'nonempty'):
            for sk in ('unsigned', 'digest', 'hmac', 'ecdsa', 'siginfo-only'):
                for dm in ('ok', 'bitflip', 'missing', 'short', 'trailer'):
                    if app == 'absent' and sk == 'unsigned' and dm != 'ok':
                        continue
                    matrix.append((app, sk, dm))
        matrix += [('absent', 'sig-without-params', 'missing'), ('absent', 'sig-without-params', 'bitflip')] * 3
        reps = 1 if ctx.quick else 3
        run_interest_batch(ctx, rng, fe, configs, matrix * reps)


def run_interest_batch(ctx, rng, fe, configs, matrix):
    hlog = []      # (cfg index, name tuple, t)
    vlog = []      # (cfg index, name tuple, 'call'|'ret', t, verdict)
    res = {'viol': []}
    deliveries = []

    async def main(S):
        face = RecFace()
        the_app = appv2.NDNApp(face=face) if fe == 'v2' else appv1.NDNApp(face=face, keychain=KeychainDigest())
        main_task = asyncio.ensure_future(the_app.main_loop())
        await asyncio.sleep(0)
        default_v1 = []
        if fe == 'v1':
            async def default_validator(n, sig):
                default_v1.append(tuple(bytes(c) for c in n))
                vlog.append(('default', tuple(bytes(c) for c in n), 'ret', S.now_ms(), True))
                return True
            the_app.int_validator = default_validator
        for ci, (kind, verdict, lat) in enumerate(configs):
            prefix = [C(b'v%d' % ci)]

            def mk_handler(ci=ci):
                if fe == 'v2':
                    return lambda n, p, reply, c: hlog.append((ci, tuple(bytes(x) for x in n), S.now_ms()))
                return lambda n, p, a, **kw: hlog.append((ci, tuple(bytes(x) for x in n), S.now_ms()))

            def mk_validator(ci=ci, verdict=verdict, lat=lat):
                if fe == 'v2':
                    async def v(n, sig, c):
                        key = tuple(bytes(x) for x in n)
                        vlog.append((ci, key, 'call', S.now_ms(), None))
                        if lat:
                            await asyncio.sleep(lat / 1000)
                        vlog.append((ci, key, 'ret', S.now_ms(), verdict))
                        return give(fe, verdict)
                else:
                    async def v(n, sig):
                        key = tuple(bytes(x) for x in n)
                        vlog.append((ci, key, 'call', S.now_ms(), None))
                        if lat:
                            await asyncio.sleep(lat / 1000)
                        vlog.append((ci, key, 'ret', S.now_ms(), verdict))
                        return give(fe, verdict)
                return v
            val = mk_validator() if kind == 'v' else None
            if fe == 'v2':
                the_app.attach_handler(prefix, mk_handler(), val)
            else:
                # legacy delivery options (raw packet / signature pointers handed to the handler) are no input of validation
                the_app.set_interest_filter(prefix, mk_handler(), val, need_raw_packet=(ci % 2 == 1), need_sig_ptrs=(ci % 3 != 1))
        seq = 0
        for ci, (kind, verdict, lat) in enumerate(configs):
            for (app, sk, dm) in matrix:
                seq += 1
                try:
                    wire = build_interest(rng, [C(b'v%d' % ci)], seq, app, sk, dm)
                except Exception as e:   # noqa
                    res['viol'].append((f'build-raises:{type(e).__name__}', f'{e!r}', {'app': app, 'signer': sk}))
                    continue
                try:
                    ref = rc.strict_interest(wire)
                except rc.Reject:
                    continue
                key = tuple(ref['name'])
                deliveries.append((ci, key, app, sk, dm, ref, wire))
                nerr = len(S.sentinel.all())
                try:
                    await face.deliver(wire)
                except Exception as e:   # noqa
                    res['viol'].append((f'interest-reception-raises:{fe}:{type(e).__name__}@{raising_site(e)[0]}', f'{e!r}',
                                        {'frontend': fe, 'wire': wire}))
                await asyncio.sleep(0.05)
                for le in S.sentinel.all()[nerr:]:
                    if is_raise(verdict):
                        continue        # the validator itself raised: what becomes of that exception is outside the statement
                    ex = le.get('exception')
                    res['viol'].append((f'interest-background-error:{fe}:{type(ex).__name__ if ex else "?"}', f'{le.get("repr")}',
                                        {'frontend': fe, 'wire': wire, 'app': app, 'signer': sk, 'digest': dm}))
        await asyncio.sleep(1)
        the_app.shutdown()
        await asyncio.wait_for(main_task, 5)

    S = vtime.run(main)
    for v in res['viol']:
        ctx.report(*v)
    if S.result != 'ok':
        ctx.report(f'interest-scenario-{S.result}:{fe}', f'{S.error!r}', {'frontend': fe})
        return
    handled = {}
    for (ci, key, t) in hlog:
        handled.setdefault(key, []).append((ci, t))
    vrets = {}
    vcalls = {}
    for (ci, key, what, t, verdict) in vlog:
        (vrets if what == 'ret' else vcalls).setdefault(key, []).append((ci, t, verdict))
    for (ci, key, app, sk, dm, ref, wire) in deliveries:
        kind, verdict, lat = configs[ci]
        w = {'frontend': fe, 'validator': kind, 'verdict': repr(verdict), 'latency': lat, 'app_param': app, 'signer': sk,
             'digest': dm, 'wire': wire if len(wire) < 400 else wire[:200]}
        needs = ref['app_param'] is not None or ref['sig_info'] is not None
        digest_ok = rc.params_digest_ok(ref)
        h = handled.get(key, [])
        vr = vrets.get(key, [])
        ctx.case(('int', fe, kind, repr(verdict), lat, app, sk, dm), nontrivial=needs)
        ctx.event('interest-needs-validation' if needs else 'interest-plain')
        if len(h) > 1:
            ctx.report(f'handler-called-twice:{fe}', 'handler invoked more than once for one Interest', w)
        if not needs:
            if not h:
                ctx.report(f'plain-interest-not-delivered:{fe}', 'a plain Interest did not reach its handler', w)
            if vcalls.get(key) or vr:
                ctx.report(f'validator-consulted-for-plain-interest:{fe}', 'a validator was consulted for a plain Interest', w)
            continue
        if h and not digest_ok:
            ctx.report(f'bad-digest-delivered:{fe}', 'Interest with an incorrect / missing parameters digest reached its handler', w)
            continue
        if fe == 'v2':
            must_validate = True
        else:
            must_validate = ref['sig_info'] is not None
        if h and must_validate:
            ok_rets = [x for x in vr if x[1] <= h[0][1] and accepts(fe, x[2])
                       and (x[0] == h[0][0] or x[0] == 'default')]       # the validator of the handler that was invoked
            if kind == 'none' and fe == 'v2':
                ctx.report('delivered-without-validator:v2', 'parameterised/signed Interest delivered although no validator is attached', w)
            elif not ok_rets:
                if vr and not any(accepts(fe, x[2]) for x in vr):
                    ctx.report(f'delivered-despite-verdict:{fe}', f'Interest reached its handler although the validator said {verdict!r}', w)
                elif vr:
                    ctx.report(f'delivered-before-validation-finished:{fe}', 'handler invoked before the validator returned', w)
                else:
                    ctx.report(f'delivered-unvalidated:{fe}', 'Interest that requires validation reached its handler without any validator having returned', w)
            else:
                ctx.event('validated-then-delivered')
        if h and not must_validate:
            ctx.event('v1-unsigned-parameterised-delivered')
            if vcalls.get(key):
                ctx.event('observation:v1-validator-called-for-unsigned')
        if not h:
            ctx.event('dropped')
            if is_raise(verdict):
                ctx.event('dropped-after-validator-raised')
            if digest_ok and ((kind == 'v' and accepts(fe, verdict)) or (fe == 'v1' and not must_validate)):
                ctx.event('observation:accepted-but-not-delivered')


def check_validator_in_force(ctx, rng):
    """Multi-step histories: the validator that counts is the one in force for the handler that receives the Interest."""
    for fe in ('v2', 'v1'):
        for rep in range(ctx.n(6, 400)):
            log = []       # ('h', handler id, name) / ('v', validator id, name)
            res = {}

            async def main(S):
                face = RecFace()
                the_app = appv2.NDNApp(face=face) if fe == 'v2' else appv1.NDNApp(face=face, keychain=KeychainDigest())
                main_task = asyncio.ensure_future(the_app.main_loop())
                await asyncio.sleep(0)

                def handler(hid):
                    if fe == 'v2':
                        return lambda n, p, reply, c: log.append(('h', hid, tuple(bytes(x) for x in n)))
                    return lambda n, p, a: log.append(('h', hid, tuple(bytes(x) for x in n)))

                def validator(vid, accept, lat=0):
                    if fe == 'v2':
                        async def v(n, sig, c):
                            log.append(('v', vid, tuple(bytes(x) for x in n)))
                            if lat:
                                await asyncio.sleep(lat / 1000)
                            return types.ValidResult.PASS if accept else types.ValidResult.FAIL
                    else:
                        async def v(n, sig):
                            log.append(('v', vid, tuple(bytes(x) for x in n)))
                            if lat:
                                await asyncio.sleep(lat / 1000)
                            return accept
                    return v

                def attach(prefix, h, v):
                    if fe == 'v2':
                        the_app.attach_handler(prefix, h, v)
                    else:
                        the_app.set_interest_filter(prefix, h, v)

                def detach(prefix):
                    if fe == 'v2':
                        the_app.detach_handler(prefix)
                    else:
                        the_app.unset_interest_filter(prefix)
                if fe == 'v1':
                    the_app.int_validator = validator('default', False)
                seq = [0]

                async def signed(prefix):
                    seq[0] += 1
                    wire = build_interest(rng, prefix, seq[0], 'nonempty', rng.choice(['digest', 'hmac', 'ecdsa']), 'ok')
                    await face.deliver(wire)
                    await asyncio.sleep(0.2)
                    return tuple(rc.strict_interest(wire)['name'])
                out = []
                # (1) permissive validator, detach, re-attach without validator: the old validator must not survive
                P = [C(b're'), C(b'attach%d' % rep)]
                attach(P, handler('h1'), validator('permissive', True))
                n1 = await signed(P)
                detach(P)
                attach(P, handler('h2'), None)
                n2 = await signed(P)
                out.append(('reattach', n1, n2))
                # (2) nested prefixes; the longer one is detached while its (slow, accepting) validator is still running
                A = [C(b'site%d' % rep)]
                B = A + [C(b'admin')]
                attach(A, handler('outer'), None if fe == 'v2' else validator('outer-reject', False))
                attach(B, handler('inner'), validator('inner-accept', True, lat=50))
                seq[0] += 1
                wire = build_interest(rng, B, seq[0], 'nonempty', 'digest', 'ok')
                await face.deliver(wire)
                await asyncio.sleep(0.01)
                detach(B)
                await asyncio.sleep(0.3)
                out.append(('detach-during-validation', tuple(rc.strict_interest(wire)['name'])))
                # (3) a handler without validator below a handler with a permissive one: the validator in force for the longer
                # prefix is "none" (current front-end: rejection; legacy: the application-wide default, which rejects here)
                P2 = [C(b'zone%d' % rep)]
                Q2 = P2 + [C(b'strict')]
                attach(P2, handler('zone'), validator('zone-accept', True))
                attach(Q2, handler('strict-no-validator'), None)
                n4 = await signed(Q2)
                n5 = await signed(P2)
                out.append(('nested-no-validator', n4, n5))
                n6 = None
                if fe == 'v1':
                    # (4) legacy: the application-wide default validator is looked up when the Interest arrives, not when the filter
                    # was set: a route without own validator set while a permissive default was in place obeys the stricter one later
                    the_app.int_validator = validator('early-permissive-default', True)
                    P4 = [C(b'late%d' % rep)]
                    attach(P4, handler('route-without-validator'), None)
                    the_app.int_validator = validator('late-strict-default', False)
                    n6 = await signed(P4)
                out.append(('default-replaced-later', n6))
                # (5) a second attachment to an occupied prefix is refused (documented); the refused call's validator - a permissive
                # one, or none - must not replace the validator in force for the handler that stays attached
                D1 = [C(b'dup-strict%d' % rep)]
                D2 = [C(b'dup-open%d' % rep)]
                attach(D1, handler('kept-strict'), validator('kept-rejects', False))
                attach(D2, handler('kept-open'), validator('kept-accepts', True))
                refused = 0
                for pre, v2 in ((D1, validator('intruder-accepts', True)), (D2, None)):
                    try:
                        attach(pre, handler('intruder'), v2)
                    except ValueError:
                        refused += 1
                n7 = await signed(D1)
                n8 = await signed(D2)
                out.append(('duplicate-attach-refused', n7, n8, refused))
                res['out'] = out
                the_app.shutdown()
                await asyncio.wait_for(main_task, 5)
            S = vtime.run(main)
            w = {'frontend': fe, 'log': [(a, b, [c.hex() for c in n]) for a, b, n in log]}
            if S.result != 'ok':
                ctx.report(f'in-force-scenario-{S.result}:{fe}', f'{S.error!r}', w)
                continue
            _, n1, n2 = res['out'][0]
            ctx.case(('in-force', fe, rep), nontrivial=True)
            ctx.event('validator-in-force-history')
            if ('h', 'h1', n1) not in log:
                ctx.event('observation:first-signed-interest-not-delivered')
            if ('h', 'h2', n2) in log:
                ctx.report(f'stale-validator-after-reattach:{fe}', 'after detaching and re-attaching a prefix without validator, a signed Interest reached the new handler '
                           '(the validator of the previous attachment was still consulted)' if ('v', 'permissive', n2) in log else
                           'after re-attaching a prefix without validator a signed Interest reached the handler although the validator in force rejects', w)
            _, n4, n5 = res['out'][2]
            if ('h', 'strict-no-validator', n4) in log or ('h', 'zone', n4) in log:
                ctx.report(f'delivered-by-validator-of-another-prefix:{fe}', 'a handler attached without validator received a signed Interest because the validator of an enclosing '
                           'prefix accepted it' if ('v', 'zone-accept', n4) in log else 'a signed Interest reached a handler although no validator in force for its prefix accepted it', w)
            if ('h', 'zone', n5) not in log:
                ctx.event('observation:accepted-signed-interest-not-delivered')
            n6 = res['out'][3][1]
            if n6 is not None and ('h', 'route-without-validator', n6) in log:
                ctx.report(f'delivered-despite-default-validator-in-force:{fe}', 'a signed Interest reached a route without own validator although the application-wide default '
                           'validator in force when it arrived rejects it (the default of the time the filter was set was used)', w)
            _, n7, n8, refused = res['out'][4]
            if refused == 2:
                ctx.event('refused-duplicate-attachment')
                if any(e[0] == 'h' and e[2] == n7 for e in log) or ('v', 'intruder-accepts', n7) in log:
                    ctx.report(f'refused-attachment-changed-validator-in-force:{fe}', 'after a refused second attachment (with a permissive validator) a signed Interest that the '
                               'validator in force rejects reached a handler / was judged by the refused call\'s validator', w)
                if ('h', 'kept-open', n8) not in log:
                    ctx.report(f'refused-attachment-changed-validator-in-force:{fe}', 'after a refused second attachment (without validator) a signed Interest that the validator in force '
                               'accepts no longer reaches the handler that stayed attached', w)
            n3 = res['out'][1][1]
            if ('h', 'outer', n3) in log:
                ctx.report(f'delivered-to-handler-whose-validator-did-not-accept:{fe}', 'an Interest validated for the (meanwhile detached) longer prefix was handed to the handler of the '
                           'shorter prefix, whose own validator in force never accepted it', w)


def check_route_before_connect(ctx, rng):
    """Routes declared with their own validator BEFORE the application connects (registered by the start-up task) obey that
    validator exactly as routes declared on a running application do."""
    from .c17 import Forwarder
    for fe in ('v2', 'v1'):
        for rep in range(ctx.n(3, 60)):
            log = []

            async def main(S):
                face = RecFace()
                the_app = appv2.NDNApp(face=face) if fe == 'v2' else appv1.NDNApp(face=face, keychain=KeychainDigest())
                Forwarder(face, fe, ['200'], ctx, rng, S)

                def handler(hid):
                    if fe == 'v2':
                        return lambda n, p, reply, c: log.append(('h', hid, tuple(bytes(x) for x in n)))
                    return lambda n, p, a: log.append(('h', hid, tuple(bytes(x) for x in n)))

                def validator(vid, accept):
                    if fe == 'v2':
                        async def v(n, sig, c):
                            log.append(('v', vid, tuple(bytes(x) for x in n)))
                            return types.ValidResult.PASS if accept else types.ValidResult.FAIL
                    else:
                        async def v(n, sig):
                            log.append(('v', vid, tuple(bytes(x) for x in n)))
                            return accept
                    return v
                PR, PA = [C(b'early'), C(b'strict%d' % rep)], [C(b'early'), C(b'open%d' % rep)]
                the_app.route(PR, validator=validator('early-rejects', False))(handler('early-strict'))
                the_app.route(PA, validator=validator('early-accepts', True))(handler('early-open'))
                out = {}

                async def after():
                    await asyncio.sleep(0.2)
                    LR = [C(b'late'), C(b'strict%d' % rep)]
                    the_app.route(LR, validator=validator('late-rejects', False))(handler('late-strict'))
                    await asyncio.sleep(0.2)
                    for key, pre in (('er', PR), ('ea', PA), ('lr', LR)):
                        wire = build_interest(rng, pre, 1, 'nonempty', rng.choice(['hmac', 'ecdsa']), 'ok')
                        out[key] = tuple(rc.strict_interest(wire)['name'])
                        await face.deliver(wire)
                        await asyncio.sleep(0.1)
                    the_app.shutdown()
                await the_app.main_loop(after())
                log.append(('names', out))
            S = vtime.run(main)
            w = {'frontend': fe, 'log': [(x[0], x[1], [c.hex() for c in x[2]]) for x in log if x[0] != 'names']}
            ctx.case(('route-before-connect', fe, rep), nontrivial=True)
            ctx.event('route-declared-before-connecting')
            if S.result != 'ok':
                ctx.report(f'route-before-connect-{S.result}:{fe}', f'{S.error!r}', w)
                continue
            names = [x for x in log if x[0] == 'names'][0][1]
            if ('h', 'early-strict', names['er']) in log or ('v', 'early-rejects', names['er']) not in log:
                ctx.report(f'route-declared-before-connecting-ignores-its-validator:{fe}', 'a signed Interest under a route declared (with a rejecting validator) before the application connected '
                           'reached its handler / was not shown to that validator', w)
            if ('h', 'late-strict', names['lr']) in log:
                ctx.report(f'delivered-despite-verdict:{fe}', 'a signed Interest reached the handler of a route whose validator rejects', w)
            if ('h', 'early-open', names['ea']) not in log:
                ctx.event('observation:accepted-signed-interest-not-delivered')


def check_plain_after_detach(ctx, rng):
    """Plain Interests are delivered (without consulting any validator) to the handler in force - also right after a LONGER prefix
    that used to have its own handler and validator was detached: the Interests under it belong to the shorter prefix again."""
    from ndn.encoding import make_interest, InterestParam
    for fe in ('v2', 'v1'):
        for rep in range(ctx.n(6, 200)):
            res = {}

            async def main(S):
                face = RecFace()
                the_app = appv2.NDNApp(face=face) if fe == 'v2' else appv1.NDNApp(face=face, keychain=KeychainDigest())
                main_task = asyncio.ensure_future(the_app.main_loop())
                await asyncio.sleep(0)
                got, vcalls = [], []

                async def val2(n, s_, c):
                    vcalls.append(1)
                    return types.ValidResult.PASS

                async def val1(n, s_):
                    vcalls.append(1)
                    return True
                outer, inner = [C(b'svc')], [C(b'svc'), C(b'admin')]
                if fe == 'v2':
                    the_app.attach_handler(outer, lambda n, p, r, c: got.append(('outer', bytes(n[-1]))), val2)
                    the_app.attach_handler(inner, lambda n, p, r, c: got.append(('inner', bytes(n[-1]))), val2)
                else:
                    the_app.set_interest_filter(outer, lambda n, p, a: got.append(('outer', bytes(n[-1]))), val1)
                    the_app.set_interest_filter(inner, lambda n, p, a: got.append(('inner', bytes(n[-1]))), val1)
                for nm in (inner + [C(b'1')], outer + [C(b'x')]):
                    await face.deliver(bytes(make_interest(nm, InterestParam(nonce=1, lifetime=1000))))
                    for _ in range(3):
                        await asyncio.sleep(0)
                (the_app.detach_handler if fe == 'v2' else the_app.unset_interest_filter)(inner)
                for nm in (inner + [C(b'2')], inner, outer + [C(b'y')]):
                    await face.deliver(bytes(make_interest(nm, InterestParam(nonce=2, lifetime=1000))))
                    for _ in range(3):
                        await asyncio.sleep(0)
                res['got'], res['vcalls'] = list(got), len(vcalls)
                the_app.shutdown()
                await asyncio.wait_for(main_task, 5)
            S = vtime.run(main)
            ctx.case(('plain-after-detach', fe, rep % 3), nontrivial=True)
            ctx.event('plain-interest-after-a-longer-prefix-was-detached')
            w = {'frontend': fe, 'delivered': res.get('got')}
            if S.result != 'ok':
                ctx.report(f'plain-after-detach-scenario-{S.result}:{fe}', f'{S.error!r}', w)
                continue
            exp = [('inner', C(b'1')), ('outer', C(b'x')), ('outer', C(b'2')), ('outer', C(b'admin')), ('outer', C(b'y'))]
            if res.get('got') != exp:
                ctx.report(f'plain-interest-not-delivered:{fe}:after-detach', f'plain Interests after the detach of a longer prefix were delivered as {res.get("got")}, expected {exp}', w)
            if res.get('vcalls'):
                ctx.report(f'plain-interest-validated:{fe}', 'a validator was consulted for a plain Interest', w)


def run(ctx):
    ctx.rule = RULE
    check_plain_after_detach(ctx, ctx.rng)
    ctx.need_event('plain-interest-after-a-longer-prefix-was-detached')
    ctx.need_event('application-wide-validator-set-before-a-reconnect')
    rng = ctx.rng
    check_data_side(ctx, rng)
    check_data_multi(ctx, rng)
    check_validator_in_force(ctx, rng)
    check_route_before_connect(ctx, rng)
    if ctx.shard == 0:
        check_interest_side(ctx, rng)
    need = ['validator-is-a-falsy-callable-object', 'data-fetched-by-full-name', 'validator-in-force-history', 'multi-interest-data', 'data-awaited-later-than-expressed', 'data-validator-raised', 'data-before-deadline', 'data-after-deadline', 'data-at-deadline', 'payload-returned', 'validation-failure', 'timeout']
    if ctx.shard == 0:
        need += ['interest-needs-validation', 'interest-plain', 'validated-then-delivered', 'dropped', 'dropped-after-validator-raised']
    for k in need:
        ctx.need_event(k)
    if ctx.events.get('observation:accepted-but-not-delivered'):
        ctx.extra['note'] = 'accepted-but-not-delivered is an observation (the statement only has the only-if direction)'
    ctx.assumptions = ['a validator finishing exactly at the deadline may go either way',
                       'for parameterised/signed Interests only the "only if accepted" direction is demanded']
