"""C11 - a compiled trust schema matches exactly the names its source text describes.

Generated schemas (programs) are printed from the generator's AST, compiled by the real compiler
and queried through Checker.match - directly and after save()/load() - for every name up to a
length bound over an alphabet that hits every literal of the schema; the answers are compared
with the reference interpreter working on the AST.
"""
import time

from . import lvs, monitors, refcodec as rc
from .common import raising_site, set_debug_logging

from ndn.app_support.light_versec import compile_lvs, Checker, SemanticError, LvsModelError
from ndn.app_support.light_versec import binary as bny

RULE = ('generated schemas of 2-7 rules (references incl. the same rule twice, redefinitions, temporary rules and patterns, '
        'repeated named patterns, multi-option and multi-set constraints, inherited + added constraints, user functions) x '
        'all names of length 0..L+1 over {literals of the schema} + 2 fresh components (bounded-exhaustive per schema, '
        'sampled above 6000 names); distinct = (schema text, name); non-trivial = the name matches some rule or differs '
        'from a matching name in one component'
        '; certificate-hierarchy template (dozens of temporaries), names built from the alternatives plus near misses, abandoned and interleaved match() iterations')

FRESH = [rc.comp(8, b'zz'), rc.comp(8, b'q')]


def impl_matches(checker, name):
    out = set()
    syms = getattr(checker, 'nvf_symbols', None)     # set on the symbol-less variant: tag number -> identifier of the full model
    kept = []
    for rule_names, ctx in checker.match(name):
        for rn in rule_names:
            if lvs.INTERIOR.match(rn):
                continue
            out.add((lvs.STRIP_TMP.sub('', rn), frozenset((syms.get(k, k) if syms is not None else k, bytes(v)) for k, v in ctx.items())))
        kept.append((rule_names, ctx))
    # what match() handed out belongs to the caller, who may edit it (collect rule names into its own list, fill the bindings in):
    # later queries are not affected by that (every name is asked about several times in a run)
    SCRIBBLED[0] += 1
    if SCRIBBLED[0] % 3 == 0:
        for rule_names, ctx in kept:
            if isinstance(rule_names, list):
                rule_names.append('#edited-by-the-caller')
            if isinstance(ctx, dict):
                ctx['edited-by-the-caller'] = b'\x08\x01e'
    return out


SCRIBBLED = [0]


def classify(schema, diff_rules):
    """Narrow structural classifier for the known inlining defect: the disagreeing rule (transitively)
    references some rule more than once, and that rule (transitively) contains a constrained temporary pattern."""
    rules = schema['rules']
    by = {}
    for r in rules:
        by.setdefault(r['name'], []).append(r)

    def ref_counts(rn, acc, seen):
        for d in by.get(rn, []):
            for c in d['comps']:
                if c[0] == 'ref':
                    acc[c[1]] = acc.get(c[1], 0) + 1
                    ref_counts(c[1], acc, seen)
        return acc

    def has_constrained_temp(rn, seen=None):
        seen = seen or set()
        if rn in seen:
            return False
        seen.add(rn)
        for d in by.get(rn, []):
            for cs in d['cons']:
                if any(p.startswith('_') for p, o in cs):
                    return True
            for c in d['comps']:
                if c[0] == 'ref' and has_constrained_temp(c[1], seen):
                    return True
        return False
    for rn in diff_rules:
        counts = ref_counts(rn, {}, set())
        if any(v >= 2 and has_constrained_temp(k) for k, v in counts.items()):
            continue
        return None
    return 'temp-tag-reuse-on-inline'


def run(ctx):
    ctx.rule = RULE
    rng = ctx.rng
    nsch = ctx.n(140, 6000)
    reach = ctx.reach
    templates = []
    for _ in range(ctx.n(3, 12)):
        templates += lvs.template_schemas(rng, False)
    for si in range(nsch + len(templates)):
        if si < len(templates):
            schema = templates[si]
            ctx.klass('template-schema')
        else:
            schema = lvs.gen_schema(rng, with_signers=(si % 4 == 3))
        text = lvs.schema_text(schema)
        FNS_LIB, FNS_REF = lvs.fns_for(schema)
        # the application's log level is no input: every fourth schema is compiled and asked about with the library's loggers at DEBUG
        set_debug_logging(si % 4 == 1)
        if si % 4 == 1:
            ctx.event('schema-checked-while-the-application-logs-at-DEBUG')
        if schema.get('default_fns'):
            ctx.event('schema-checked-with-the-built-in-functions')
        w = {'schema': text}
        tot_alts, max_len_ = lvs.alt_counts(schema)
        if tot_alts > 120 or max_len_ > 9:
            ctx.event('schema-skipped-too-large')
            continue
        rival = None
        lvs.REENTER['checker'] = None
        if not schema.get('default_fns') and si % 4 == 2:
            FNS_LIB = lvs.reentrant_fns(FNS_LIB)
        try:
            with monitors.Steps(reach=reach):
                model = compile_lvs(text)
                if si % 2:
                    model = compile_lvs(text)       # the same text compiled a second time in this process: the second result is used
                    ctx.event('schema-text-compiled-twice')
                if not schema.get('default_fns') and si % 6 == 3:
                    # the application provides its functions AFTER it built the checker (through its own dict, or the checker's attribute)
                    late_ = {}
                    checker = Checker(model, late_)
                    (late_ if si % 12 == 3 else checker.user_fns).update(FNS_LIB)
                    ctx.event('user-functions-provided-after-construction')
                elif not schema.get('default_fns') and si % 6 == 5:
                    # ... or replaces the functions it gave at first by others of the same names before it asks anything
                    first_ = lvs.rival_fns(FNS_LIB)
                    checker = Checker(model, first_)
                    for k_, f_ in FNS_LIB.items():
                        (first_ if si % 12 == 5 else checker.user_fns)[k_] = f_
                    ctx.event('user-functions-replaced-after-construction')
                else:
                    checker = Checker(model, FNS_LIB)
            if not schema.get('default_fns') and si % 3 == 0:
                rival = Checker(compile_lvs(text), lvs.rival_fns(lvs.USER_FNS))
                ctx.event('rival-checker-with-same-named-functions')
        except (SemanticError, LvsModelError) as e:
            # whether clean schemas are accepted is C13's clause; here a schema without a compiled model cannot be judged
            ctx.event('schema-rejected-not-judged')
            continue
        except Exception as e:   # noqa
            ctx.report(f'compile-raises:{type(e).__name__}@{raising_site(e)[0]}', f'{e!r}', w)
            continue
        try:
            loaded = Checker.load(checker.save(), FNS_LIB)
        except Exception as e:   # noqa
            ctx.report(f'save-load-raises:{type(e).__name__}@{raising_site(e)[0]}', f'{e!r}', w)
            loaded = None
        # the tag-symbol table is optional in the binary format: without it bindings are reported under the tag number
        nosym = None
        try:
            m2 = bny.LvsModel.parse(checker.save())
            table = {str(s_.tag): s_.ident for s_ in m2.symbols}
            m2.symbols = []
            nosym = Checker.load(bytes(m2.encode()), FNS_LIB)
            nosym.nvf_symbols = table
            ctx.event('model-without-symbol-table')
        except Exception as e:   # noqa
            ctx.report(f'symbol-less-model-raises:{type(e).__name__}@{raising_site(e)[0]}', f'loading the model without its optional symbol table raised {e!r}', w)
        ref = lvs.Ref(schema, FNS_REF)
        alphabet = [lvs.lit(t) for t in ref.literals()] + FRESH
        L = min(ref.max_len() + 1, 7)
        ctx.event('schema')
        ctx.klass('schema-with-double-reference' if any(
            sum(1 for c in r['comps'] if c == ('ref', x)) >= 2 for r in schema['rules'] for x in {c[1] for c in r['comps'] if c[0] == 'ref'}) else 'schema-plain')
        names = [[]] + ref.directed_names(rng, alphabet, 3 if ctx.quick else 8) + list(lvs.all_names(alphabet, L, 1500 if ctx.quick else 8000, rng))
        budget = 4000 * (len(model.nodes) + 1) * (L + 2)
        nfail = 0
        abandoned, last_match = [], {}
        t_schema = time.time()
        for ni, name in enumerate(names):
            if ni % 64 == 0 and time.time() - t_schema > (20 if ctx.quick else 60):
                ctx.event('schema-abandoned-slow')       # generator guard only: nothing is concluded from wall time
                break
            exp = ref.match(name)
            if rival is not None and ni % 2 == 0:
                try:
                    for _ in rival.match(name if name else '/'):
                        pass
                except Exception:   # noqa
                    pass
            if ni == 0 and not schema.get('default_fns') and si % 4 == 2:
                lvs.REENTER.update(checker=checker, names=[n for n in names if n and ref.match(n)][:3] or names[1:3])
                ctx.event('schema-with-functions-that-re-enter-their-checker')
            wn = dict(w, name=rc.name_to_uri(name, canonical=True))
            if exp and ni % 5 == 0:
                # legal uses of the generator: abandoned after the first result, and two iterations interleaved
                for label, ck in (('direct', checker), ('loaded', loaded)):
                    if ck is None:
                        continue
                    try:
                        g1 = ck.match(name)
                        first = next(g1, None)
                        abandoned.append(g1)               # kept alive, never resumed
                        if len(abandoned) > 8:
                            abandoned.pop(0)
                        other = last_match.get(label, name)
                        ga, gb = ck.match(name), ck.match(other)
                        ra, rb = [], []
                        while ga is not None or gb is not None:
                            for g, acc in ((ga, ra), (gb, rb)):
                                if g is None:
                                    continue
                                try:
                                    rns, c_ = next(g)
                                    acc.append((tuple(rns), frozenset((k, bytes(v)) for k, v in c_.items())))
                                except StopIteration:
                                    if g is ga:
                                        ga = None
                                    else:
                                        gb = None
                        got_i = {(lvs.STRIP_TMP.sub('', rn), b) for rns, b in ra for rn in rns if not lvs.INTERIOR.match(rn)}
                        if got_i != exp or first is None:
                            ctx.report(f'interleaved-match-differs:{label}', f'two match() iterations advanced alternately: match({wn["name"]}) '
                                       f'yielded {sorted(r for r, _ in got_i)}, text describes {sorted(r for r, _ in exp)}', wn)
                        ctx.event('interleaved-and-abandoned-iteration')
                        last_match[label] = name
                    except Exception as e:   # noqa
                        ctx.report(f'match-raises:{type(e).__name__}@{raising_site(e)[0]}', f'interleaved match({wn["name"]}) raised {e!r}', wn)
            for label, ck in (('direct', checker), ('loaded', loaded)) + ((('loaded-without-symbols', nosym),) if ni % 4 == 1 else ()):
                if ck is None:
                    continue
                try:
                    arg = lvs.name_arg(rng, name) if ni % 3 == 0 else (name if name else '/')
                    if ni % 16 == 0:
                        with monitors.Steps(limit=budget):
                            got = impl_matches(ck, arg)
                        ctx.event('step-monitored')
                    else:
                        got = impl_matches(ck, arg)
                    if ni % 3 == 0:
                        ctx.event('name-given-in-another-form')
                except monitors.BudgetExceeded:
                    ctx.report('match-step-budget', f'match() exceeded {budget} interpreter events', wn)
                    continue
                except Exception as e:   # noqa
                    mech = f'match-raises:{type(e).__name__}@{raising_site(e)[0]}'
                    if not name:
                        mech = 'empty-name-index' if isinstance(e, IndexError) else mech
                    ctx.report(mech, f'match({wn["name"]}) raised {e!r}', wn)
                    continue
                if got != exp:
                    diff = got ^ exp
                    mech = classify(schema, {d[0] for d in diff}) or \
                        ('match-reported-but-not-described' if got - exp else 'described-match-not-reported') + f':{label}'
                    nfail += 1
                    if nfail <= 3:
                        ctx.report(mech, f'{label} model: match({wn["name"]}) = {sorted((r, sorted((k, v.hex()) for k, v in b)) for r, b in got)}, '
                                         f'text describes {sorted((r, sorted((k, v.hex()) for k, v in b)) for r, b in exp)}', wn)
                    else:
                        ctx.report(mech, 'further disagreement on the same schema', None)
            ctx.case((text, tuple(name)), nontrivial=bool(exp), sample=wn if exp and ctx.evaluations % 20000 == 7 else None)
            ctx.event('name-matching' if exp else 'name-not-matching')
    for k in ('_replicate_rules', '_generate_node', '_sanity_check'):
        ctx.require_reach(k)
    for k in ('name-matching', 'name-not-matching'):
        ctx.need_event(k)
    set_debug_logging(False)
    lvs.REENTER['checker'] = None
    ctx.extra['user_function_calls_that_re_entered_the_checker'] = lvs.REENTER['calls']
    for k in ('schema-checked-while-the-application-logs-at-DEBUG', 'user-functions-provided-after-construction', 'user-functions-replaced-after-construction', 'schema-text-compiled-twice', 'rival-checker-with-same-named-functions', 'schema-with-functions-that-re-enter-their-checker'):
        ctx.need_event(k)
    ctx.need_class('schema-with-double-reference')
    ctx.need_event('schema', 40)      # most generated schemas must have compiled, otherwise nothing was decided
    ctx.need_class('template-schema')
    ctx.need_event('model-without-symbol-table')
    ctx.need_event('interleaved-and-abandoned-iteration')
    ctx.need_event('name-given-in-another-form')
    ctx.assumptions = ['interior tree nodes reported as #_<id> are not matches for a rule and are filtered out',
                       'constraints refer only to patterns of the rule itself or of rules it references']
