"""sys.monitoring based monitors: logical step budget and function reach counters, restricted to
code objects of the repository under test."""
import collections
import os
import sys

from . import run as _run

REPO_PREFIX = os.path.realpath(_run.REPO_SRC) + os.sep
mon = sys.monitoring
TOOL = 3   # a free tool id (0 debugger, 1 coverage, 2 profiler, 5 optimizer are reserved names)


class BudgetExceeded(Exception):
    pass


class Steps:
    """Counts PY_START / PY_RESUME / PY_THROW / JUMP / BRANCH events of repository code.

    with Steps(limit) as s: ...   -> s.count; raises BudgetExceeded inside the monitored code when
    the limit is passed (interrupts loops that would never end)."""
    _active = None
    _installed = False

    def __init__(self, limit=None, reach=None):
        self.limit = limit
        self.count = 0
        self.reach = reach   # Counter or None: function-name reach counts

    @classmethod
    def _install(cls):
        if cls._installed:
            return
        cls._installed = True
        mon.use_tool_id(TOOL, 'nvf')
        E = mon.events

        def in_repo(code):
            return code.co_filename.startswith(REPO_PREFIX) or '/ndn/' in code.co_filename and \
                os.path.realpath(code.co_filename).startswith(REPO_PREFIX)

        def tick(code):
            a = cls._active
            if a is None:
                return
            a.count += 1
            if a.limit is not None and a.count > a.limit:
                lim = a.limit
                a.limit = None     # raise once
                raise BudgetExceeded(f'more than {lim} interpreter events in repository code')

        def on_start(code, off):
            if not in_repo(code):
                return mon.DISABLE
            a = cls._active
            if a is not None and a.reach is not None:
                a.reach[code.co_name] += 1
            tick(code)

        def on_resume(code, off):
            if not in_repo(code):
                return mon.DISABLE
            tick(code)

        def on_jump(code, src, dst):
            if not in_repo(code):
                return mon.DISABLE
            tick(code)

        def on_throw(code, off, exc):
            if in_repo(code):
                tick(code)

        mon.register_callback(TOOL, E.PY_START, on_start)
        mon.register_callback(TOOL, E.PY_RESUME, on_resume)
        mon.register_callback(TOOL, E.JUMP, on_jump)
        mon.register_callback(TOOL, E.BRANCH, on_jump)
        mon.register_callback(TOOL, E.PY_THROW, on_throw)
        cls._events = E.PY_START | E.PY_RESUME | E.JUMP | E.BRANCH | E.PY_THROW

    def __enter__(self):
        Steps._install()
        self._prev = Steps._active
        Steps._active = self
        if self._prev is None:
            mon.set_events(TOOL, Steps._events)
        return self

    def __exit__(self, *a):
        Steps._active = self._prev
        if self._prev is None:
            mon.set_events(TOOL, 0)
        return False


def selftest():
    from ndn.encoding import Name
    with Steps() as s:
        Name.from_str('/a/b/c')
    assert s.count > 10, s.count
    try:
        with Steps(limit=5):
            Name.from_str('/a/b/c/d/e/f')
        raise AssertionError('budget not enforced')
    except BudgetExceeded:
        pass
    r = collections.Counter()
    with Steps(reach=r):
        Name.from_str('/a')
    assert r['from_str'] >= 1, r
