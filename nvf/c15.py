"""C15 - keychain contents, defaults and signers stay consistent over any history.

Random histories of keychain operations (also across close/reopen) are executed on a real
KeychainSqlite3 + TpmFile in a scratch directory and mirrored in a dict model; after every
operation the mapping views, default flags, stored rows, private-key files and signers are
compared with the model.  Fault sequences: the k-th database execute/commit, private-key write or
file removal of an operation raises, then the operation is repeated; crash points: the connection
is abandoned without commit at step k and the store reopened.
"""
import datetime
import hashlib
import os
import shutil
import sqlite3
import tempfile

from Cryptodome.PublicKey import ECC, RSA

from . import gen, pkts, refcodec as rc
from .common import raising_site

from ndn.encoding import make_data, parse_data, MetaInfo, Name
from ndn.security import KeychainSqlite3, TpmFile
from ndn.security.keychain.keychain_sqlite3 import Identity, Key, Certificate
from ndn.app_support.security_v2 import derive_cert
import ndn.security.tpm.tpm_file as tpm_file_mod

LEVEL = 'fault_enumeration'

RULE = ('histories of 5-40 operations {touch/new identity, new key (EC P-256, RSA-1024), import certificate, set default '
        'identity/key/certificate, delete certificate/key/identity, get_signer in every documented argument form incl. '
        'key_locator overrides shared between keys, close+reopen}; fault sequences: k-th execute/commit/save_key/os.remove of '
        'an operation raises, operation repeated; crash points: connection abandoned at step k and reopened; distinct = the '
        'operation-kind sequence (+ fault position); non-trivial = at least two identities or keys alive'
        '; identity names nested in each other / containing KEY, caller-chosen key ids (repeated), deletions through the Identity/Key views; every failure point of every multi-step operation in turn (repeat and crash); set_default_* with non-member names; equal signer requests before/after every default change; several stores in one process holding keys of the same name')

C = lambda s: rc.comp(8, s)   # noqa


class InjectedFault(Exception):
    pass


class InjectedOSFault(InjectedFault, PermissionError):
    """What the operating system raises when it refuses to unlink a file (EACCES / EROFS / EBUSY ...): an OSError."""
    def __str__(self):
        return self.args[0] if self.args else ''


def os_tick(ctl):
    try:
        ctl.tick('os.remove')
    except InjectedFault as f:
        raise InjectedOSFault(str(f)) from None


class ConnProxy:
    """Delegates to a sqlite3.Connection; raises InjectedFault at the armed call."""
    def __init__(self, conn, ctl):
        self._c = conn
        self._ctl = ctl

    def execute(self, *a, **k):
        self._ctl.tick('execute')
        return self._c.execute(*a, **k)

    def commit(self):
        self._ctl.tick('commit')
        return self._c.commit()

    def close(self):
        return self._c.close()

    def __getattr__(self, n):
        return getattr(self._c, n)


class FaultCtl:
    def __init__(self):
        self.armed = None      # index of the call to fail
        self.count = 0
        self.kinds = []

    def reset(self, armed=None):
        self.armed = armed
        self.count = 0
        self.kinds = []

    def tick(self, kind):
        i = self.count
        self.count += 1
        self.kinds.append(kind)
        if self.armed is not None and i == self.armed:
            self.armed = None
            raise InjectedFault(f'{kind}#{i}')


class Store:
    def __init__(self, root):
        self.root = root
        self.db = os.path.join(root, 'pib.db')
        self.tpm_dir = os.path.join(root, 'tpm')
        KeychainSqlite3.initialize(self.db, 'tpm-file', self.tpm_dir)
        self.ctl = FaultCtl()
        self.open()

    def open(self):
        self.tpm = TpmFile(self.tpm_dir)
        self.kc = KeychainSqlite3(self.db, self.tpm)
        self.kc.conn = ConnProxy(self.kc.conn, self.ctl)
        orig_save = self.tpm.save_key
        ctl = self.ctl

        def save_key(key_name, key_der):
            ctl.tick('save_key')
            return orig_save(key_name, key_der)
        self.tpm.save_key = save_key

    def close(self):
        try:
            self.kc.shutdown()
        except Exception:   # noqa
            pass

    def crash(self):
        """Abandon the connection without commit."""
        try:
            self.kc.conn._c.close()
        except Exception:   # noqa
            pass
        self.kc.conn = None


def key_file(tpm_dir, key_name_comps):
    return os.path.join(tpm_dir, hashlib.sha256(rc.enc_name(key_name_comps)).digest().hex() + '.privkey')


class Model:
    def __init__(self):
        self.ids = {}          # name tuple -> {'keys': {ktuple: {'bits':..., 'certs': {ctuple: data}, 'default_cert': c|None, 'cert_default_deleted': bool}},
        #                        'default_key': k|None, 'key_default_deleted': bool}
        self.default_id = None
        self.id_default_deleted = False
        self.deleted_keys = set()
        self.deleted_ids = set()
        self.deleted_certs = set()

    def add_identity(self, n):
        self.ids[n] = {'keys': {}, 'default_key': None, 'key_default_deleted': False}
        if self.default_id is None:
            self.default_id = n
            self.id_default_deleted = False

    def add_key(self, idn, k, bits):
        i = self.ids[idn]
        i['keys'][k] = {'bits': bytes(bits), 'certs': {}, 'default_cert': None, 'cert_default_deleted': False}
        if i['default_key'] is None:
            i['default_key'] = k
            i['key_default_deleted'] = False
        self.deleted_keys.discard(k)

    def add_cert(self, idn, k, c, data):
        kk = self.ids[idn]['keys'][k]
        kk['certs'][c] = bytes(data)
        if kk['default_cert'] is None:
            kk['default_cert'] = c
            kk['cert_default_deleted'] = False
        self.deleted_certs.discard(c)

    def find_key(self, k):
        for idn, i in self.ids.items():
            if k in i['keys']:
                return idn
        return None

    def find_cert(self, c):
        for idn, i in self.ids.items():
            for k, kk in i['keys'].items():
                if c in kk['certs']:
                    return idn, k
        return None

    def del_cert(self, c):
        f = self.find_cert(c)
        if f:
            kk = self.ids[f[0]]['keys'][f[1]]
            del kk['certs'][c]
            if kk['default_cert'] == c:
                kk['default_cert'] = None
                kk['cert_default_deleted'] = True
                kk['cert_default_explicit'] = False
            self.deleted_certs.add(c)

    def del_key(self, k):
        idn = self.find_key(k)
        if idn:
            i = self.ids[idn]
            for c in list(i['keys'][k]['certs']):
                self.deleted_certs.add(c)
            del i['keys'][k]
            if i['default_key'] == k:
                i['default_key'] = None
                i['key_default_deleted'] = True
                i['key_default_explicit'] = False
            self.deleted_keys.add(k)

    def del_identity(self, n):
        for k in list(self.ids[n]['keys']):
            self.del_key(k)
        del self.ids[n]
        self.deleted_ids.add(n)
        if self.default_id == n:
            self.default_id = None
            self.id_default_deleted = True
            self.id_default_explicit = False


def T(name):
    if isinstance(name, (bytes, bytearray, memoryview)):
        name = Name.from_bytes(bytes(name))      # Certificate.name holds the encoded Name
    return tuple(bytes(c) for c in name)


# ------------------------------------------------------------------ invariants
def check_invariants(ctx, S, M, w, after):
    kc = S.kc
    viol = []

    def bad(mech, what):
        viol.append((mech, what))
    try:
        ids = [T(n) for n in kc]
        if sorted(ids) != sorted(M.ids):
            bad('identity-view-differs', f'iteration yields {len(ids)} identities, model has {len(M.ids)}')
        if len(kc) != len(ids):
            bad('identity-len-differs', f'len(keychain)={len(kc)} but iteration yields {len(ids)}')
        for gone in list(M.deleted_ids)[:3]:
            if gone not in M.ids and list(gone) in kc:
                bad('deleted-identity-still-member', 'a deleted identity is still reported as member')
        all_keys = {k: idn for idn, i in M.ids.items() for k in i['keys']}
        all_certs = {c: (idn, k) for idn, i in M.ids.items() for k, kk in i['keys'].items() for c in kk['certs']}
        for idn, i in M.ids.items():
            if list(idn) not in kc:
                bad('identity-membership', 'an existing identity is not a member')
                continue
            I = kc[list(idn)]
            if T(I.name) != idn:
                bad('identity-lookup-name', 'lookup returned another identity')
            keys = [T(k) for k in I]
            if sorted(keys) != sorted(i['keys']):
                bad('key-view-differs', f'identity iteration yields {len(keys)} keys, model has {len(i["keys"])}')
            if len(I) != len(keys):
                bad('identity-len-vs-iter', f'len(identity)={len(I)} but iteration yields {len(keys)}')
            for k, owner in all_keys.items():
                inside = list(k) in I
                if inside != (owner == idn):
                    bad('view-lookup-unscoped:identity', f'key of identity {"this" if owner == idn else "another"} one: membership says {inside}')
                    break
            # defaults
            if I.has_default_key() != (i['default_key'] is not None):
                if i['default_key'] is None and not i['keys']:
                    bad('phantom-default-key', 'has_default_key() true for an identity without keys')
                elif i['default_key'] is not None:
                    bad('default-key-missing', 'identity populated, default never deleted, but has_default_key() is False')
                else:
                    ctx.event('observation:default-key-reassigned-after-deletion')
            elif i['default_key'] is not None and T(I.default_key().name) != i['default_key']:
                if i.get('key_default_explicit'):
                    bad('default-key-differs', 'default_key() is not the key that set_default_key made default')
                elif T(I.default_key().name) in i['keys']:
                    i['default_key'] = T(I.default_key().name)        # which key becomes default automatically is the store's choice
                else:
                    bad('default-key-foreign', 'default_key() is not a key of this identity')
            ndef = kc.conn._c.execute('SELECT count(*) FROM keys WHERE is_default=1 AND identity_id=?', (I.row_id,)).fetchone()[0]
            if ndef > 1:
                bad('two-default-keys', f'{ndef} default keys in one identity')
            if (I.is_default) != (M.default_id == idn) and M.default_id is not None and getattr(M, 'id_default_explicit', False):
                bad('default-identity-flag', 'Identity.is_default disagrees with set_default_identity')
            for k, kk in i['keys'].items():
                K = I[list(k)]
                if T(K.name) != k or bytes(K.key_bits) != kk['bits'] or T(K.identity) != idn:
                    bad('key-lookup-fields', 'key lookup returned other name/bits/identity')
                certs = [T(c) for c in K]
                if sorted(certs) != sorted(kk['certs']):
                    bad('cert-view-differs', f'key iteration yields {len(certs)} certificates, model has {len(kk["certs"])}')
                if len(K) != len(certs):
                    bad('key-len-wrong-table', f'len(key)={len(K)} but iteration yields {len(certs)} certificates')
                for c, (oi, ok) in all_certs.items():
                    inside = list(c) in K
                    if inside != (ok == k):
                        bad('view-lookup-unscoped:key', f'certificate of {"this" if ok == k else "another"} key: membership says {inside}')
                        break
                for c, data in kk['certs'].items():
                    CC = K[list(c)]
                    if Name.to_bytes(CC.name) != rc.enc_name(list(c)) or bytes(CC.data) != data or T(CC.key) != k:
                        bad('cert-lookup-fields', 'certificate lookup returned other name/data/key')
                if K.has_default_cert() != (kk['default_cert'] is not None):
                    if kk['default_cert'] is not None:
                        bad('default-cert-missing', 'key populated, default never deleted, but has_default_cert() is False')
                    elif not kk['certs']:
                        bad('phantom-default-cert', 'has_default_cert() true for a key without certificates')
                    else:
                        ctx.event('observation:default-cert-reassigned-after-deletion')
                elif kk['default_cert'] is not None and Name.to_bytes(K.default_cert().name) != rc.enc_name(list(kk['default_cert'])):
                    if kk.get('cert_default_explicit'):
                        bad('default-cert-differs', 'default_cert() is not the certificate that set_default_cert made default')
                    elif T(K.default_cert().name) in kk['certs']:
                        kk['default_cert'] = T(K.default_cert().name)
                    else:
                        bad('default-cert-foreign', 'default_cert() is not a certificate of this key')
                ndef = kc.conn._c.execute('SELECT count(*) FROM certificates WHERE is_default=1 AND key_id=?', (K.row_id,)).fetchone()[0]
                if ndef > 1:
                    bad('two-default-certs', f'{ndef} default certificates in one key')
                if not os.path.exists(key_file(S.tpm_dir, list(k))):
                    bad('private-key-missing', 'private key file of a live key is missing')
        if kc.has_default_identity() != (M.default_id is not None):
            if M.default_id is not None:
                bad('default-identity-missing', 'store populated, default never deleted, but no default identity')
            elif not M.ids:
                bad('phantom-default-identity', 'default identity reported for an empty store')
            else:
                ctx.event('observation:default-identity-reassigned-after-deletion')
        elif M.default_id is not None and T(kc.default_identity().name) != M.default_id:
            if getattr(M, 'id_default_explicit', False):
                bad('default-identity-differs', 'default_identity() is not the one that set_default_identity made default')
            elif T(kc.default_identity().name) in M.ids:
                M.default_id = T(kc.default_identity().name)
            else:
                bad('default-identity-foreign', 'default_identity() is not an identity of the store')
        ndef = kc.conn._c.execute('SELECT count(*) FROM identities WHERE is_default=1').fetchone()[0]
        if ndef > 1:
            bad('two-default-identities', f'{ndef} default identities')
        # nothing left under deleted things
        nk = kc.conn._c.execute('SELECT count(*) FROM keys').fetchone()[0]
        nc = kc.conn._c.execute('SELECT count(*) FROM certificates').fetchone()[0]
        if nk != len(all_keys):
            bad('orphan-key-rows', f'{nk} key rows stored, {len(all_keys)} keys alive')
        if nc != len(all_certs):
            bad('orphan-cert-rows', f'{nc} certificate rows stored, {len(all_certs)} certificates alive')
        for k in M.deleted_keys:
            if k not in all_keys and os.path.exists(key_file(S.tpm_dir, list(k))):
                bad('private-key-survives-deletion', 'private key file of a deleted key still exists')
                break
    except Exception as e:   # noqa
        bad(f'view-raises:{type(e).__name__}@{raising_site(e)[0]}', f'reading the views raised {e!r}')
    ctx.event('invariant-scan')
    for mech, what in viol:
        ctx.report(mech, f'after {after}: {what}', w)
    return not viol


def verify_sig(bits, signed_portion, sig_value):
    from Cryptodome.Signature import DSS, pkcs1_15
    from Cryptodome.Hash import SHA256
    try:
        k = ECC.import_key(bits)
        DSS.new(k, 'fips-186-3', 'der').verify(SHA256.new(signed_portion), sig_value)
        return True
    except ValueError:
        pass
    try:
        k = RSA.import_key(bits)
        pkcs1_15.new(k).verify(SHA256.new(signed_portion), sig_value)
        return True
    except (ValueError, TypeError):
        return False


def check_signer(ctx, S, M, rng, w):
    """Obtain a signer in a random documented argument form and judge it."""
    kc = S.kc
    alive = [(idn, k) for idn, i in M.ids.items() for k in i['keys']]
    form = rng.choice(['default', 'identity-name', 'identity-obj', 'key-name', 'key-obj', 'cert-name', 'deleted-key', 'shared-locator',
                       'identity+key', 'identity+key', 'key+cert', 'identity+cert'])
    args = {}
    exp_key = None
    exp_loc = None
    try:
        if form == 'default':
            if M.default_id is None:
                if not kc.has_default_identity():
                    # nothing to select: no signer of any kind may be handed out for the default signing arguments
                    try:
                        sg = kc.get_signer({})
                    except Exception:   # noqa
                        ctx.event('signer-no-default-refused')
                        return
                    ctx.report('signer-without-default-identity', f'get_signer({{}}) returned {type(sg).__name__} although the store has no default identity', dict(w, form=form))
                return
            idn = M.default_id
            i = M.ids[idn]
            exp_key = i['default_key']
        elif form in ('identity-name', 'identity-obj'):
            if not M.ids:
                return
            idn = rng.choice(list(M.ids))
            args['identity'] = list(idn) if form == 'identity-name' else kc[list(idn)]
            exp_key = M.ids[idn]['default_key']
        elif form in ('key-name', 'key-obj'):
            if not alive:
                return
            idn, k = rng.choice(alive)
            args['key'] = list(k) if form == 'key-name' else kc[list(idn)][list(k)]
            exp_key = k
        elif form in ('cert-name', 'cert-obj'):
            cands = [(idn, k, c) for idn, k in alive for c in M.ids[idn]['keys'][k]['certs']]
            if not cands:
                return
            idn, k, c = rng.choice(cands)
            args['cert'] = list(c) if form == 'cert-name' else kc[list(idn)][list(k)][list(c)]
            exp_key = k
            exp_loc = c
        elif form in ('identity+key', 'key+cert', 'identity+cert'):
            # several selectors at once (documented: the more specific one wins - certificate over key over identity); the less
            # specific one points somewhere else whenever the store allows
            if not alive:
                return
            idn, k = rng.choice(alive)
            other_ids = [i for i in M.ids if i != idn] or [idn]
            other_keys = [(i2, k2) for i2, k2 in alive if k2 != k] or [(idn, k)]
            if form == 'identity+key':
                i_sel = rng.choice(other_ids) if rng.random() < 0.5 else idn
                args['identity'] = list(i_sel) if rng.random() < 0.6 else kc[list(i_sel)]
                args['key'] = list(k) if rng.random() < 0.6 else kc[list(idn)][list(k)]
                exp_key = k
            else:
                cs = list(M.ids[idn]['keys'][k]['certs'])
                if not cs:
                    return
                c = rng.choice(cs)
                args['cert'] = list(c)
                exp_key, exp_loc = k, c
                if form == 'key+cert':
                    i2, k2 = rng.choice(other_keys)
                    args['key'] = list(k2)
                else:
                    args['identity'] = list(rng.choice(other_ids))
            ctx.event('signer-requested-with-several-selectors')
        elif form == 'deleted-key':
            gone = [k for k in M.deleted_keys if M.find_key(k) is None]
            if not gone:
                return
            # first: an earlier successful request (same arguments, names only) whose key has been deleted since
            old = [(a, k) for (a, k) in getattr(S, 'signer_history', []) if k in gone]
            if old and rng.random() < 0.7:
                a, k = rng.choice(old)
                try:
                    s = kc.get_signer(dict(a))
                except Exception:   # noqa
                    ctx.event('signer-deleted-key-refused')
                    return
                if s is not None:
                    ctx.report('signer-for-deleted-key' + (':private-key-removal-failed' if k in getattr(S, 'failed_removals', ()) else ''),
                               'get_signer returned a signer for a key that has been deleted (same arguments as before the deletion)',
                               dict(w, form='replayed-request', args={x: (rc.name_to_uri(list(y), canonical=True)) for x, y in a.items()}))
                return
            k = rng.choice(gone)
            args['key'] = list(k)
            try:
                s = kc.get_signer(dict(args))
            except Exception:   # noqa
                ctx.event('signer-deleted-key-refused')
                return
            if s is not None:
                ctx.report('signer-for-deleted-key' + (':private-key-removal-failed' if k in getattr(S, 'failed_removals', ()) else ''),
                           'get_signer returned a signer for a key that has been deleted', dict(w, form=form))
            return
        elif form == 'shared-locator':
            if len(alive) < 2:
                return
            (i1, k1), (i2, k2) = rng.sample(alive, 2)
            L = [C(b'shared'), C(b'locator'), C(gen.rand_bytes(rng, 2))]
            for idn, k in ((i1, k1), (i2, k2)):
                judge_signer(ctx, S, M, {'key': list(k), 'key_locator': L}, k, T(L), dict(w, form=form), rng)
            return
        if exp_key is None:
            # no default key in the selected identity: raising is fine
            try:
                kc.get_signer(dict(args))
            except Exception:   # noqa
                ctx.event('signer-no-default-refused')
            return
        if rng.random() < 0.25:
            L = [C(b'loc'), C(gen.rand_bytes(rng, 3))]
            args['key_locator'] = L
            exp_loc = T(L)
        if rng.random() < 0.2:
            # the keyless-signer flags passed explicitly with their documented default (forwarded from a variable that is False)
            for flag in rng.sample(['no_signature', 'digest_sha256'], rng.choice([1, 2])):
                args[flag] = False
            ctx.event('signing-flags-passed-as-False')
        if exp_loc is None:
            idn = M.find_key(exp_key)
            exp_loc = M.ids[idn]['keys'][exp_key]['default_cert']
            if exp_loc is None:
                try:
                    kc.get_signer(dict(args))
                except Exception:   # noqa
                    ctx.event('signer-no-default-cert-refused')
                return
        judge_signer(ctx, S, M, args, exp_key, exp_loc, dict(w, form=form), rng)
        if isinstance(args.get('key_locator'), list):
            # the name list passed as key locator is the caller's: it goes on editing it, then asks again with an equal, fresh list
            orig = list(args['key_locator'])
            args['key_locator'].append(C(b'edited-by-caller'))
            ctx.event('key-locator-list-edited-by-the-caller-after-the-call')
            judge_signer(ctx, S, M, dict(args, key_locator=list(orig)), exp_key, T(orig), dict(w, form=form + '+locator-list-edited-after-the-first-call'), rng)
    except Exception as e:   # noqa
        ctx.report(f'signer-check-raises:{type(e).__name__}@{raising_site(e)[0]}', f'{e!r}', dict(w, form=form))


def default_signer_probe(ctx, S, M, op, w, rng, phase):
    """Around an operation that moves a default: the same requests before and after must each reflect the defaults in force
    at the time of the request (a signer handed out earlier must not be replayed for equal arguments)."""
    idn = op[1] if len(op) > 1 and op[1] in M.ids else None
    probes = []
    if idn is not None:
        probes.append({'identity': list(idn)})
        if len(op) > 2 and isinstance(op[2], tuple) and op[2] in M.ids[idn]['keys']:
            probes.append({'key': list(op[2])})
    if M.default_id is not None and M.default_id in M.ids:
        probes.append({})
    for args in probes:
        i2 = T(args['identity']) if 'identity' in args else (M.find_key(T(args['key'])) if 'key' in args else M.default_id)
        if i2 is None or i2 not in M.ids:
            continue
        k2 = T(args['key']) if 'key' in args else M.ids[i2]['default_key']
        if k2 is None or k2 not in M.ids[i2]['keys']:
            continue
        loc = M.ids[i2]['keys'][k2]['default_cert']
        if loc is None:
            continue
        ctx.event('signer-probe-around-default-change')
        judge_signer(ctx, S, M, args, k2, loc, dict(w, form=f'probe-{phase}-default-change', probe=sorted(args)), rng)


def judge_signer(ctx, S, M, args, exp_key, exp_loc, w, rng):
    try:
        s = S.kc.get_signer(dict(args))
    except Exception as e:   # noqa
        idn0 = M.find_key(exp_key)
        if idn0 is not None and M.ids[idn0]['keys'][exp_key]['default_cert'] is None and 'cert' not in args:
            ctx.event('signer-no-default-cert-refused')      # only obtained signers are judged
            return
        ctx.report(f'get-signer-raises:{type(e).__name__}@{raising_site(e)[0]}', f'get_signer raised {e!r} for a live selection', w)
        return
    if all(isinstance(v, list) for v in args.values()) and ('key' in args or 'cert' in args):      # requests that pin the key itself
        if not hasattr(S, 'signer_history'):
            S.signer_history = []
        S.signer_history.append(({k: list(v) for k, v in args.items()}, exp_key))
        del S.signer_history[:-40]
    wire = bytes(make_data([C(b'signed'), C(gen.rand_bytes(rng, 4))], MetaInfo(), b'x', s))
    r = rc.strict_data(wire)
    idn = M.find_key(exp_key)
    bits = M.ids[idn]['keys'][exp_key]['bits']
    ctx.event('signer-judged')
    if not verify_sig(bits, r['signed_portion'], r['sig_value']):
        others = [k for i in M.ids.values() for k, kk in i['keys'].items() if k != exp_key and verify_sig(kk['bits'], r['signed_portion'], r['sig_value'])]
        ctx.report('signer-cache-key' if others and 'key_locator' in args else 'signer-wrong-private-key',
                   f'signature does not verify under the selected key' + (' but verifies under another key of the store' if others else ''),
                   dict(w, selected=rc.name_to_uri(list(exp_key), canonical=True), verifies_under=[rc.name_to_uri(list(o), canonical=True) for o in others],
                        args={k: (v if isinstance(v, bool) else rc.name_to_uri(list(T(v.name)), canonical=True) if hasattr(v, 'name') else rc.name_to_uri(list(v), canonical=True)) for k, v in args.items()},
                        key_locator_in_packet=None if r['sig_info'] is None or r['sig_info']['key_name'] is None else rc.name_to_uri(r['sig_info']['key_name'], canonical=True)))
    kl = r['sig_info']['key_name'] if r['sig_info'] else None
    if kl is None or tuple(kl) != tuple(exp_loc):
        ctx.report('signer-key-locator', 'key locator is not the selected/default certificate (or the explicit key_locator)', w)
    # signers the application obtained EARLIER and kept (one per purpose) are used again after this request: each still signs with
    # the key and names the key locator it was obtained for
    held = getattr(S, 'held_signers', None)
    if held is None:
        held = S.held_signers = []
    for (s0, k0, loc0, bits0) in held:
        if M.find_key(k0) is None:
            continue
        try:
            r0 = rc.strict_data(bytes(make_data([C(b'signed-later'), C(gen.rand_bytes(rng, 4))], MetaInfo(), b'y', s0)))
        except Exception as e:   # noqa
            ctx.report(f'held-signer-raises:{type(e).__name__}', f'a signer obtained earlier raised {e!r} when used again', w)
            continue
        ctx.event('held-signer-used-again-after-a-later-request')
        kl0 = r0['sig_info']['key_name'] if r0['sig_info'] else None
        if kl0 is None or tuple(kl0) != tuple(loc0):
            ctx.report('held-signer-key-locator-changed', 'a signer obtained earlier (and kept by the application) names another key locator after a later get_signer request', w)
        elif not verify_sig(bits0, r0['signed_portion'], r0['sig_value']):
            ctx.report('held-signer-key-changed', 'a signer obtained earlier signs with another key after a later get_signer request', w)
    held.append((s, exp_key, tuple(exp_loc), bits))
    del held[:-5]


# ------------------------------------------------------------------ operations
def gen_op(rng, M):
    alive = [(idn, k) for idn, i in M.ids.items() for k in i['keys']]
    certs = [(idn, k, c) for idn, k in alive for c in M.ids[idn]['keys'][k]['certs']]
    r = rng.random()
    if r < 0.16 or not M.ids:
        tail = rng.choice([[b'a'], [b'b'], [b'c'], [b'd'], [b'a', b'sub'], [b'a', b'KEY', b'n'], [b'KEY']])
        return ('touch', T([C(b'id')] + [C(x) for x in tail]))
    if r < 0.21:
        return ('new_identity', T([C(b'bare'), C(gen.rand_bytes(rng, 2))]))
    if r < 0.36:
        kid = rng.choice([None, None, None, b'k1', b'k2', 'k3', '', b''])      # an empty key id is no key id (a random one is drawn)
        via = 'obj' if kid is None and rng.random() < 0.3 else 'kc'
        return ('new_key', rng.choice(list(M.ids)), rng.choice(['ec', 'ec', 'ec', 'rsa', 'ec384', 'ec521']), kid, via)
    if r < 0.46 and alive:
        idn, k = rng.choice(alive)
        issuer = rng.choice(alive)
        return ('import_cert', idn, k, issuer)
    if r < 0.52:
        return ('set_default_identity', rng.choice(list(M.ids)))
    if r < 0.58 and alive:
        return ('set_default_key',) + rng.choice(alive)
    if r < 0.64 and certs:
        return ('set_default_cert',) + rng.choice(certs)
    if r < 0.67 and alive:
        # set_default_* with a name that is no member of the scope: a name that does not exist, or one owned by another scope
        idn, k = rng.choice(alive)
        others = [x for x in alive if x[0] != idn]
        if certs and rng.random() < 0.5:
            oc = [x for x in certs if x[1] != k]
            tgt = rng.choice(oc)[2] if (oc and rng.random() < 0.6) else k + (C(b'ghost'), C(b'v1'))
            return ('set_default_cert_nonmember', idn, k, tgt)
        tgt = rng.choice(others)[1] if (others and rng.random() < 0.6) else idn + (C(b'KEY'), C(b'ghost'))
        return ('set_default_key_nonmember', idn, tgt)
    if r < 0.72 and certs:
        return ('del_cert',) + rng.choice(certs) + (rng.choice(['kc', 'kc', 'obj']),)
    if r < 0.80 and alive:
        return ('del_key',) + rng.choice(alive) + (rng.choice(['kc', 'kc', 'obj']),)
    if r < 0.86:
        return ('del_identity', rng.choice(list(M.ids)))
    if r < 0.91:
        return ('reopen',)
    return ('signer',)


def one_shot(rng, ctx, comps):
    """A name as the caller may hold it: a list - or, now and then, a one-shot iterator / generator of components (a NonStrictName is
    'a list or iterator of Components')."""
    k_ = rng.random()
    if k_ < 0.15:
        ctx.event('name-given-as-a-one-shot-iterator')
        return iter(list(comps))
    if k_ < 0.3:
        ctx.event('name-given-as-a-one-shot-iterator')
        return (c for c in list(comps))
    return list(comps)


def apply_op(S, M, op, rng, ctx):
    """Run the operation on the real store; on success mirror it in the model.  Returns None or raises."""
    kc = S.kc
    kind = op[0]
    if kind == 'touch':
        n = op[1]
        I = kc.touch_identity(list(n))
        if M.default_id is None:
            M.default_id = n          # touching an identity makes it the default when there is none
            M.id_default_deleted = False
        if n not in M.ids:
            M.add_identity(n)
            for k in I:
                K = I[k]
                M.add_key(n, T(k), K.key_bits)
                for c in K:
                    M.add_cert(n, T(k), T(c), K[c].data)
    elif kind == 'new_identity':
        n = op[1]
        if n in M.ids:
            return
        kc.new_identity(list(n))
        M.add_identity(n)
    elif kind == 'new_key':
        idn, typ, kid, via = op[1], op[2], op[3], op[4]
        kw = {'key_size': 1024} if typ == 'rsa' else {}
        if typ in ('ec384', 'ec521'):
            kw = {'key_size': int(typ[2:])}         # larger curves (the signature algorithm stays SHA-256 with ECDSA)
            typ = 'ec'
            ctx.event('new-key-on-a-larger-curve')
        if kid in ('', b''):
            kw['key_id'] = kid
            kid = None
            ctx.event('new-key-with-empty-key-id')
        if kid is not None:
            kw['key_id'] = rc.comp(8, kid) if isinstance(kid, bytes) else kid
            kname = idn + (C(b'KEY'), C(kid if isinstance(kid, bytes) else kid.encode()))
            if kname in M.ids[idn]['keys']:
                # a key of that name exists already: the call may refuse (any error) but must leave the existing key as it is
                try:
                    kc.new_key(list(idn), typ, **kw)
                except InjectedFault:
                    raise
                except Exception:   # noqa
                    ctx.event('duplicate-key-id-refused')
                    return
                ctx.event('duplicate-key-id-replaced')
                K = kc[list(idn)][list(kname)]
                M.ids[idn]['keys'][kname]['bits'] = bytes(K.key_bits)
                M.ids[idn]['keys'][kname]['certs'] = {}
                for c in K:
                    M.add_cert(idn, kname, T(c), K[c].data)
                return
        if via == 'obj' and typ == 'ec':
            K = kc[list(idn)].new_key(typ)
        else:
            K = kc.new_key(list(idn), typ, **kw)
        if kid is not None and T(K.name) != kname:
            ctx.report('explicit-key-id-ignored', f'new_key(key_id={kid!r}) created {rc.name_to_uri(list(T(K.name)), canonical=True)}', None)
        M.add_key(idn, T(K.name), K.key_bits)
        for c in K:
            M.add_cert(idn, T(K.name), T(c), K[c].data)
    elif kind == 'import_cert':
        _, idn, k, (ii, ik) = op
        signer = kc.tpm.get_signer(list(ik), list(ik))
        bits = M.ids[idn]['keys'][k]['bits']
        cn, cw = derive_cert(list(k), rc.comp(8, b'iss' + gen.rand_bytes(rng, 2)), bits, signer, datetime.datetime(2021, 1, 1), 86400)
        kc.import_cert(list(k), cn, cw)
        M.add_cert(idn, k, T(cn), cw)
    elif kind == 'set_default_identity':
        kc.set_default_identity(list(op[1]))
        M.default_id = op[1]
        M.id_default_deleted = False
        M.id_default_explicit = True
    elif kind == 'set_default_key':
        _, idn, k = op
        kc[list(idn)].set_default_key(list(k))
        M.ids[idn]['default_key'] = k
        M.ids[idn]['key_default_deleted'] = False
        M.ids[idn]['key_default_explicit'] = True
    elif kind == 'set_default_cert':
        _, idn, k, c = op
        kc[list(idn)][list(k)].set_default_cert(list(c))
        M.ids[idn]['keys'][k]['default_cert'] = c
        M.ids[idn]['keys'][k]['cert_default_explicit'] = True
    elif kind in ('set_default_key_nonmember', 'set_default_cert_nonmember'):
        # not a member of the scope: the call may refuse or do nothing; this scope keeps a default all the same (nothing was
        # deleted).  What happens to the scope that owns the name is not stated: its default is re-read, not prescribed.
        try:
            if kind == 'set_default_key_nonmember':
                _, idn, tgt = op
                kc[list(idn)].set_default_key(list(tgt))
                for i2 in M.ids.values():
                    if tgt in i2['keys']:
                        i2['key_default_explicit'] = False
            else:
                _, idn, k, tgt = op
                kc[list(idn)][list(k)].set_default_cert(list(tgt))
                for i2 in M.ids.values():
                    for kk in i2['keys'].values():
                        if tgt in kk['certs']:
                            kk['cert_default_explicit'] = False
            ctx.event('set-default-with-nonmember-name')
        except InjectedFault:
            raise
        except Exception:   # noqa
            ctx.event('set-default-with-nonmember-name')
            ctx.event('set-default-nonmember-refused')
    elif kind == 'del_cert':
        _, idn, k, c, via = op
        if via == 'obj':
            kc[list(idn)][list(k)].del_cert(list(c))
        else:
            kc.del_cert(one_shot(rng, ctx, c))
        M.del_cert(c)
    elif kind == 'del_key':
        _, idn, k, via = op
        if via == 'obj':
            kc[list(idn)].del_key(list(k))
        else:
            kc.del_key(one_shot(rng, ctx, k))
        M.del_key(k)
    elif kind == 'del_identity':
        kc.del_identity(one_shot(rng, ctx, op[1]))
        M.del_identity(op[1])
    elif kind == 'reopen':
        S.close()
        S.open()


def postcondition(S, M, op, existed=False):
    """After a (repeated) operation returned or raised: does the store satisfy what the operation is for?  -> problem or None"""
    kc = S.kc
    kind = op[0]
    try:
        if kind == 'touch':
            I = kc[list(op[1])]
            if existed:
                return None        # an existing identity is returned as it is
            if not I.has_default_key():
                return 'touch-identity-partial'
            K = I.default_key()
            if not K.has_default_cert():
                return 'touch-identity-partial'
            kc.get_signer({'identity': list(op[1])})
        elif kind == 'new_identity':
            kc[list(op[1])]
    except Exception as e:   # noqa
        return f'postcondition-raises:{kind}:{type(e).__name__}'
    return None


def resync(S, M):
    """Rebuild the model's contents from the store (after an injected fault the store decides what took effect);
    default bookkeeping is kept where still meaningful."""
    kc = S.kc
    N = Model()
    N.deleted_keys = set(M.deleted_keys)
    N.deleted_ids = set(M.deleted_ids)
    for n in kc:
        I = kc[n]
        N.add_identity(T(n))
        for k in I:
            K = I[k]
            N.add_key(T(n), T(k), K.key_bits)
            for c in K:
                N.add_cert(T(n), T(k), T(c), K[c].data)
            N.ids[T(n)]['keys'][T(k)]['default_cert'] = T(K.default_cert().name) if K.has_default_cert() else None
        N.ids[T(n)]['default_key'] = T(I.default_key().name) if I.has_default_key() else None
    N.default_id = T(kc.default_identity().name) if kc.has_default_identity() else None
    return N


def replay_pinned(ctx, S, M, w):
    """Every earlier request that pinned a key which is gone now must be refused from now on."""
    for (a, k) in list(getattr(S, 'signer_history', [])):
        if M.find_key(k) is None:
            try:
                sg = S.kc.get_signer(dict(a))
            except Exception:   # noqa
                ctx.event('signer-deleted-key-refused')
                continue
            if sg is not None:
                ctx.report('signer-for-deleted-key' + (':private-key-removal-failed' if k in getattr(S, 'failed_removals', ()) else ''),
                           'get_signer returned a signer for a key that has just been deleted (same arguments as before the deletion)',
                           dict(w, args={x: rc.name_to_uri(list(y), canonical=True) for x, y in a.items()}))
    S.signer_history = [(a, k) for (a, k) in getattr(S, 'signer_history', []) if M.find_key(k) is not None]


def faulted_op(ctx, S, M, op, w, mode, armed, rng, sig):
    """Run op with the armed-th failure point raising; then either repeat the operation or crash and reopen.
    -> (model, fault reached?)"""
    S.ctl.reset(armed=armed)
    existed = op[0] == 'touch' and op[1] in M.ids
    try:
        apply_op(S, M, op, rng, ctx)
        S.ctl.reset()
        ctx.event('fault-not-reached')
        sig.append(op[0])
        # the operation completed: judged (and the defaults whose fate is not prescribed re-read) as after any other operation
        check_invariants(ctx, S, M, w, op[0])
        return M, False
    except InjectedFault as f:
        S.ctl.reset()
        ctx.event('fault-injected:' + str(f).split('#')[0])
        sig.append(f'{op[0]}!{f}')
        if op[0] == 'new_key' and op[3] not in (None, '', b''):
            # a creation under an explicit key id that did not complete may leave its freshly written private-key file behind:
            # that is an orphan of the failed creation (an observation), not the file of the key of that name deleted earlier
            kn = op[1] + (C(b'KEY'), C(op[3] if isinstance(op[3], bytes) else op[3].encode()))
            if kn in M.deleted_keys and M.find_key(kn) is None:
                M.deleted_keys.discard(kn)
                ctx.event('observation:failed-creation-reuses-deleted-key-name')
        if str(f).startswith('os.remove') and op[0] in ('del_key', 'del_identity'):
            # the removal of a private key file failed: which keys that concerns (see the open finding)
            gone = [op[2]] if op[0] == 'del_key' else list(M.ids.get(op[1], {'keys': {}})['keys'])
            S.failed_removals = getattr(S, 'failed_removals', set()) | set(gone)
        if mode == 'crash':
            S.crash()
            S.open()
            M = resync(S, M)
            ctx.event('crash-reopen')
            check_invariants(ctx, S, M, dict(w, fault=str(f), mode='crash'), f'crash at {f} inside {op[0]} and reopen')
        else:
            # repeat the operation
            try:
                M2 = resync(S, M)
                try:
                    apply_op(S, M2, op, rng, ctx)
                    rep = 'ok'
                except InjectedFault:
                    raise
                except Exception as e:   # noqa
                    rep = e
                M = resync(S, M2)
                pc = postcondition(S, M, op, existed)
                ww = dict(w, fault=str(f), mode='repeat', repeat_result=str(rep)[:200])
                ctx.event('operation-repeated')
                if pc:
                    ctx.report(pc if pc == 'touch-identity-partial' else f'repeat-misbehaves:{pc}',
                               f'after {op[0]} failed at {f} the repeated call left the store without the operation\'s effect', ww)
                elif not isinstance(rep, str) and not isinstance(rep, KeyError):
                    ctx.report(f'repeat-raises:{op[0]}:{type(rep).__name__}', f'repeating {op[0]} after a failure at {f} raised {rep!r}', ww)
                check_invariants(ctx, S, M, ww, f'{op[0]} failed at {f} and was repeated')
            except Exception as e:   # noqa
                ctx.report(f'repeat-harness:{type(e).__name__}@{raising_site(e)[0]}', f'{e!r}', w)
        return M, True
    except Exception as e:   # noqa
        S.ctl.reset()
        ctx.report(f'operation-raises:{op[0]}:{type(e).__name__}@{raising_site(e)[0]}', f'{e!r}', w)
        return M, True


def fault_sweep(ctx, rng):
    """Every failure point of every multi-step operation, one at a time (k = 0, 1, ... until the operation completes without
    reaching the k-th point), each once followed by a repetition and once by a crash + reopen, on a small populated store."""
    A = T([C(b'id'), C(b'a')])
    Bn = T([C(b'id'), C(b'b')])

    def builders(M):
        ka = next(iter(M.ids[A]['keys']))
        kb = next(iter(M.ids[Bn]['keys']))
        ca = next(iter(M.ids[A]['keys'][ka]['certs']))
        return [('touch', T([C(b'id'), C(b'sweep')])), ('new_key', A, 'ec', None, 'kc'), ('new_key', A, 'ec', b'k1', 'kc'), ('import_cert', A, ka, (Bn, kb)),
                ('set_default_identity', Bn), ('set_default_key', A, ka), ('del_cert', A, ka, ca, 'kc'), ('del_key', A, ka, 'kc'), ('del_key', A, ka, 'obj'),
                ('del_identity', A), ('new_identity', T([C(b'bare'), C(b'z')]))]
    nops = 11
    for oi in range(nops):
        for mode in ('fault', 'crash'):
            k = 0
            while k < 30:
                root = tempfile.mkdtemp(prefix='nvf-kc-')
                orig_remove = tpm_file_mod.os.remove
                try:
                    S = Store(root)
                    M = Model()

                    def remove_hook(p, S=S):
                        os_tick(S.ctl)
                        return orig_remove(p)
                    tpm_file_mod.os.remove = remove_hook
                    for pre in (('touch', A), ('touch', Bn), ('new_key', A, 'ec', None, 'kc')):
                        apply_op(S, M, pre, rng, ctx)
                    op = builders(M)[oi]
                    if op[0] in ('del_key', 'del_identity', 'del_cert'):
                        # requests that pin the key, made while it is alive, are replayed after the (failed, repeated) deletion
                        ka_ = next(iter(M.ids[A]['keys']))
                        ca_ = M.ids[A]['keys'][ka_]['default_cert']
                        if ca_ is not None:
                            judge_signer(ctx, S, M, {'cert': list(ca_)}, ka_, ca_, {'sweep': True, 'form': 'pin-before-delete'}, rng)
                            judge_signer(ctx, S, M, {'key': list(ka_)}, ka_, ca_, {'sweep': True, 'form': 'pin-before-delete'}, rng)
                    sig = []
                    w = {'sweep': True, 'op': [op[0]], 'failure_point': k, 'mode': mode}
                    M, reached = faulted_op(ctx, S, M, op, w, mode, k, rng, sig)
                    ctx.case(('sweep', op[0], oi, mode, k, tuple(sig)), nontrivial=True)
                    if reached:
                        ctx.event('fault-sweep-point')
                        replay_pinned(ctx, S, M, w)
                        check_signer(ctx, S, M, rng, w)
                    S.close()
                finally:
                    tpm_file_mod.os.remove = orig_remove
                    shutil.rmtree(root, ignore_errors=True)
                if not reached:
                    break
                k += 1


def run_history(ctx, rng, length, faults):
    root = tempfile.mkdtemp(prefix='nvf-kc-')
    orig_remove = tpm_file_mod.os.remove
    sig = []
    try:
        S = Store(root)
        M = Model()

        def remove_hook(p):
            os_tick(S.ctl)
            return orig_remove(p)
        tpm_file_mod.os.remove = remove_hook
        for step in range(length):
            op = gen_op(rng, M)
            w = {'step': step, 'op': [op[0]] + [rc.name_to_uri(list(x), canonical=True) if isinstance(x, tuple) and x and isinstance(x[0], bytes) else str(x)[:80] for x in op[1:]],
                 'history': sig[-12:]}
            if op[0] == 'signer':
                check_signer(ctx, S, M, rng, w)
                sig.append('signer')
                continue
            fault_here = faults and op[0] not in ('reopen',) and rng.random() < 0.35
            if fault_here:
                # dry count of the failure points of this operation on a scratch copy is not possible cheaply: arm a random early index
                M, _ = faulted_op(ctx, S, M, op, w, rng.choice(['fault', 'fault', 'crash']), rng.randint(0, 7), rng, sig)
                continue
            moves_default = op[0] in ('set_default_key', 'set_default_cert', 'set_default_identity')
            if moves_default:
                default_signer_probe(ctx, S, M, op, w, rng, 'before')
            try:
                apply_op(S, M, op, rng, ctx)
            except Exception as e:   # noqa
                ctx.report(f'operation-raises:{op[0]}:{type(e).__name__}@{raising_site(e)[0]}', f'{op[0]} raised {e!r}', w)
                M = resync(S, M)
                continue
            if moves_default:
                default_signer_probe(ctx, S, M, op, w, rng, 'after')
            sig.append(op[0])
            ctx.event('op-' + op[0])
            if op[0] in ('del_key', 'del_identity'):
                replay_pinned(ctx, S, M, w)
            check_invariants(ctx, S, M, w, op[0])
            if rng.random() < 0.3:
                check_signer(ctx, S, M, rng, w)
        nalive = len(M.ids) + sum(len(i['keys']) for i in M.ids.values())
        ctx.case(tuple(sig), nontrivial=nalive >= 2 or len(sig) > 6, sample={'ops': sig} if ctx.evaluations % 40 == 0 else None)
        S.close()
    finally:
        tpm_file_mod.os.remove = orig_remove
        shutil.rmtree(root, ignore_errors=True)


def scripted_defaults(ctx, rng):
    """Deterministic histories: an explicitly chosen default (certificate / key / identity) that is neither the oldest nor the
    newest member of its scope survives the deletion of OTHER members, additions, and close / reopen."""
    for rep in range(ctx.n(2, 30)):
        root = tempfile.mkdtemp(prefix='nvf-kc-')
        try:
            S = Store(root)
            M = Model()
            A, B, Cn = (T([C(b'id'), C(x)]) for x in (b'a', b'b', b'c'))
            step = [0]

            def do(op):
                step[0] += 1
                w = {'scripted': True, 'step': step[0], 'op': [op[0]]}
                apply_op(S, M, op, rng, ctx)
                check_invariants(ctx, S, M, w, f'{op[0]} (scripted history, step {step[0]})')
                if op[0] != 'reopen':
                    check_signer(ctx, S, M, rng, w)
            def no_default_probe(when):
                if not S.kc.has_default_identity():
                    try:
                        sg = S.kc.get_signer({})
                    except Exception:   # noqa
                        ctx.event('signer-no-default-refused')
                        return
                    ctx.report('signer-without-default-identity', f'get_signer({{}}) returned {type(sg).__name__} on a store without default identity ({when})', {'scripted': True})
            no_default_probe('fresh store')
            for idn in (A, B, Cn):
                do(('touch', idn))
            ka = next(iter(M.ids[A]['keys']))
            for _ in range(3):
                do(('import_cert', A, ka, (B, next(iter(M.ids[B]['keys'])))))
            certs = list(M.ids[A]['keys'][ka]['certs'])          # oldest (self-signed) first
            do(('set_default_cert', A, ka, certs[2]))
            # a certificate name that the store already holds under key A, imported again under ANOTHER key: refused (names are
            # unique in the store); whatever the call does, nothing may disappear from A or change hands
            kb = next(iter(M.ids[B]['keys']))
            for cn in (certs[2], certs[1]):
                try:
                    S.kc.import_cert(list(kb), list(cn), M.ids[A]['keys'][ka]['certs'][cn])
                    ctx.event('observation:foreign-certificate-name-import-accepted')
                except Exception:   # noqa
                    ctx.event('foreign-certificate-name-import-refused')
                    try:
                        S.kc.conn.rollback()
                    except Exception:   # noqa
                        pass
                check_invariants(ctx, S, M, {'scripted': True, 'op': ['import_cert of a name held by another key']}, 'importing under key B a certificate name stored under key A')
            do(('del_cert', A, ka, certs[1], 'kc'))
            do(('reopen',))
            do(('del_cert', A, ka, certs[3], 'obj'))
            do(('import_cert', A, ka, (B, next(iter(M.ids[B]['keys'])))))
            do(('del_cert', A, ka, certs[0], 'kc'))
            for _ in range(3):
                do(('new_key', A, 'ec', None, 'kc'))
            keys = list(M.ids[A]['keys'])
            do(('set_default_key', A, keys[2]))
            do(('del_key', A, keys[1], 'kc'))
            do(('reopen',))
            do(('del_key', A, keys[3], 'obj'))
            do(('new_key', A, 'ec', None, 'kc'))
            do(('del_key', A, keys[0], 'kc'))
            do(('touch', T([C(b'id'), C(b'd')])))
            do(('set_default_identity', B))
            do(('del_identity', Cn))
            do(('reopen',))
            do(('del_identity', A))
            for idn in list(M.ids):
                do(('del_identity', idn))
            no_default_probe('every identity deleted')
            do(('reopen',))
            no_default_probe('every identity deleted, store reopened')
            ctx.event('scripted-defaults-history')
            ctx.case(('scripted-defaults', rep), nontrivial=True)
            S.close()
        except Exception as e:   # noqa
            ctx.report(f'scripted-history-raises:{type(e).__name__}@{raising_site(e)[0]}', f'{e!r}', {'scripted': True})
        finally:
            shutil.rmtree(root, ignore_errors=True)


def bulk_scopes(ctx, rng):
    """Scopes with many members (an identity with 70 keys, a key with 70 certificates, a store with 70 identities): views list all of
    them, and deleting the scope removes all of them - also the 65th and later."""
    root = tempfile.mkdtemp(prefix='nvf-kc-')
    try:
        S = Store(root)
        M = Model()
        Z = T([C(b'id'), C(b'bulk')])
        O = T([C(b'id'), C(b'other')])
        w = {'scripted': True, 'op': ['bulk']}
        apply_op(S, M, ('touch', Z), rng, ctx)
        apply_op(S, M, ('touch', O), rng, ctx)
        for _ in range(69):
            apply_op(S, M, ('new_key', Z, 'ec', None, 'kc'), rng, ctx)
        kz = next(iter(M.ids[Z]['keys']))
        ko = next(iter(M.ids[O]['keys']))
        for _ in range(69):
            apply_op(S, M, ('import_cert', O, ko, (Z, kz)), rng, ctx)
        for j in range(68):
            apply_op(S, M, ('touch', T([C(b'many'), C(b'%03d' % j)])), rng, ctx)
        check_invariants(ctx, S, M, w, 'building scopes with 70 members')
        apply_op(S, M, ('reopen',), rng, ctx)
        check_invariants(ctx, S, M, w, 'reopening a store with 70-member scopes')
        apply_op(S, M, ('del_key', O, ko, 'kc'), rng, ctx)
        check_invariants(ctx, S, M, w, 'deleting a key with 70 certificates')
        apply_op(S, M, ('del_identity', Z), rng, ctx)
        check_invariants(ctx, S, M, w, 'deleting an identity with 70 keys')
        replay_pinned(ctx, S, M, w)
        apply_op(S, M, ('touch', T([C(b'id'), C(b'after')])), rng, ctx)
        check_invariants(ctx, S, M, w, 'creating an identity after the bulk deletion')
        for n_ in [i for i in list(M.ids) if i[0] == C(b'many')]:
            apply_op(S, M, ('del_identity', n_), rng, ctx)
        check_invariants(ctx, S, M, w, 'deleting 68 identities')
        ctx.event('bulk-scopes-history')
        ctx.case(('bulk-scopes',), nontrivial=True)
        S.close()
    except Exception as e:   # noqa
        ctx.report(f'scripted-history-raises:{type(e).__name__}@{raising_site(e)[0]}', f'{e!r}', {'scripted': True, 'op': ['bulk']})
    finally:
        shutil.rmtree(root, ignore_errors=True)


def several_stores(ctx, rng):
    """Several stores (each with its own directory) open in one process, holding identities / keys of the SAME names (explicit
    key ids): every store signs with its own private keys, also after the other store created, replaced or deleted its key of
    that name and after close / reopen; a store that does not hold the key hands out no signer for it."""
    for rep in range(ctx.n(3, 60)):
        roots = [tempfile.mkdtemp(prefix='nvf-kc-') for _ in range(3)]
        try:
            SA, SB, SC = (Store(r) for r in roots)
            MA, MB, MC = Model(), Model(), Model()
            idn = T([C(b'id'), C(b'same')])
            steps = [(SA, MA, 'A'), (SB, MB, 'B')]
            if rng.random() < 0.5:
                steps.reverse()
            kid = rng.choice([b'k1', b'shared'])
            for S, M, lab in steps:
                apply_op(S, M, ('touch', idn), rng, ctx)
                apply_op(S, M, ('new_key', idn, 'ec', kid, 'kc'), rng, ctx)
            kname = idn + (C(b'KEY'), C(kid))
            w = {'stores': 'A,B,C in one process', 'key': rc.name_to_uri(list(kname), canonical=True)}

            def probe(S, M, lab, phase):
                if kname in M.ids.get(idn, {'keys': {}})['keys']:
                    loc = M.ids[idn]['keys'][kname]['default_cert']
                    for args in ({'key': list(kname)}, {'cert': list(loc)}, {'identity': list(idn), 'key_locator': [C(b'loc')]}):
                        ek = kname if 'identity' not in args else M.ids[idn]['default_key']
                        el = loc if 'key_locator' not in args else T(args['key_locator'])
                        if 'identity' in args and ek != kname:
                            continue
                        judge_signer(ctx, S, M, args, ek, el, dict(w, store=lab, phase=phase, form='several-stores'), rng)
            for phase in ('both-created',):
                probe(SA, MA, 'A', phase)
                probe(SB, MB, 'B', phase)
                probe(SA, MA, 'A', phase + '-again')
            certA = MA.ids[idn]['keys'][kname]['default_cert']
            # a store that never held the key
            for args in ({'cert': list(certA)}, {'key': list(kname)}):
                try:
                    sg = SC.kc.get_signer(dict(args))
                except Exception:   # noqa
                    ctx.event('foreign-store-signer-refused')
                    continue
                if sg is not None:
                    ctx.report('signer-from-store-without-the-key', 'a store that does not hold the key handed out a signer for it (another store in the same process holds a key of that name)',
                               dict(w, args=sorted(args)))
            # reopen A, delete in B, probe again
            SA.close()
            SA.open()
            probe(SA, MA, 'A', 'after-reopen')
            apply_op(SB, MB, ('del_key', idn, kname, 'kc'), rng, ctx)
            replay_pinned(ctx, SB, MB, dict(w, store='B'))
            probe(SA, MA, 'A', 'after-other-store-deleted-its-key')
            ctx.event('several-stores-history')
            ctx.case(('several-stores', rep, kid), nontrivial=True)
            for S in (SA, SB, SC):
                S.close()
        finally:
            for r in roots:
                shutil.rmtree(r, ignore_errors=True)


def stale_views(ctx, rng):
    """View objects the application obtained EARLIER (an Identity, a Key) and still holds after what they stood for was deleted and
    other things were created: a lookup through such a view shows nothing or fails - it never shows (or signs with) the keys and
    certificates of ANOTHER owner."""
    for rep in range(ctx.n(4, 80)):
        root = tempfile.mkdtemp(prefix='nvf-kc-')
        try:
            S = Store(root)
            kc = S.kc
            w = {'scripted': 'stale views'}
            # --- an Identity view outlives its identity
            for filler in range(rep % 3):
                kc.touch_identity([C(b'filler'), C(b'%d' % filler)])
            kc.touch_identity([C(b'old'), C(b'owner')])
            view = kc[[C(b'old'), C(b'owner')]]
            kc.del_identity([C(b'old'), C(b'owner')])
            kc.touch_identity([C(b'new'), C(b'owner')])
            new_keys = {tuple(bytes(c) for c in k) for k in kc[[C(b'new'), C(b'owner')]]}
            ctx.event('stale-identity-view-probed')
            ctx.case(('stale-view', 'identity', rep % 3), nontrivial=True)
            try:
                shown = {tuple(bytes(c) for c in k) for k in view}
            except Exception:   # noqa
                shown = set()
            if shown & new_keys:
                ctx.report('stale-view-shows-another-owner:identity', 'an Identity view kept from before its identity was deleted lists the keys of an identity created afterwards', w)
            try:
                sg = kc.get_signer({'identity': view})
            except Exception:   # noqa
                sg = None
            if sg is not None:
                r = rc.strict_data(bytes(make_data([C(b'signed')], MetaInfo(), b'x', sg)))
                for k in kc[[C(b'new'), C(b'owner')]]:
                    bits = bytes(kc[[C(b'new'), C(b'owner')]][k].key_bits)
                    if verify_sig(bits, r['signed_portion'], r['sig_value']):
                        ctx.report('stale-view-shows-another-owner:identity:signer', 'get_signer with an Identity view of a DELETED identity hands out a signer for the key of an identity created afterwards', w)
            # --- a Key view outlives its key
            idn = [C(b'keys'), C(b'owner')]
            kc.touch_identity(idn)
            k1 = kc.new_key(idn, key_type='ec')
            kview = kc[idn][k1.name]
            kc.del_key(k1.name)
            k2 = kc.new_key(idn, key_type='ec')
            new_certs = {tuple(bytes(c) for c in cn) for cn in kc[idn][k2.name]}
            ctx.event('stale-key-view-probed')
            try:
                shown = {tuple(bytes(c) for c in cn) for cn in kview}
            except Exception:   # noqa
                shown = set()
            if shown & new_certs:
                ctx.report('stale-view-shows-another-owner:key', 'a Key view kept from before its key was deleted lists the certificates of a key created afterwards', w)
            S.close()
        except Exception as e:   # noqa
            ctx.report(f'stale-view-check-raises:{type(e).__name__}@{raising_site(e)[0]}', f'{e!r}', None)
        finally:
            shutil.rmtree(root, ignore_errors=True)


def root_identity_probe(ctx, rng):
    """The root identity "/" (a name without components) beside a default identity: a signer requested for it BY NAME - in list and
    tuple form, which are empty containers - is a signer of its key, not the default identity's."""
    for rep in range(ctx.n(2, 20)):
        root = tempfile.mkdtemp(prefix='nvf-kc-')
        try:
            S = Store(root)
            kc = S.kc
            kc.touch_identity([C(b'first'), C(b'default')])
            kc.touch_identity([])
            rkeys = [k for k in kc[[]]]
            if not rkeys:
                ctx.event('observation:root-identity-without-key')
                continue
            bits = bytes(kc[[]][rkeys[0]].key_bits)
            loc = tuple(bytes(c) for c in Name.normalize(kc[[]][rkeys[0]].default_cert().name))
            for form, lab in (([], 'list'), ((), 'tuple'), ('/', 'uri')):
                ctx.event('signer-for-the-root-identity-by-name')
                ctx.case(('root-identity', lab), nontrivial=True)
                try:
                    sg = kc.get_signer({'identity': form})
                except Exception as e:   # noqa
                    ctx.report(f'get-signer-raises:{type(e).__name__}@{raising_site(e)[0]}:root-identity', f'get_signer for the root identity given as {lab} raised {e!r}', {'form': lab})
                    continue
                r = rc.strict_data(bytes(make_data([C(b'signed')], MetaInfo(), b'x', sg)))
                kl = r['sig_info']['key_name'] if r['sig_info'] else None
                if not verify_sig(bits, r['signed_portion'], r['sig_value']) or kl is None or tuple(kl) != loc:
                    ctx.report('signer-wrong-private-key:root-identity', f'the signer obtained for the root identity (name given as {lab}) does not sign with / name the root identity\'s key', {'form': lab})
            S.close()
        except Exception as e:   # noqa
            ctx.report(f'root-identity-probe-raises:{type(e).__name__}@{raising_site(e)[0]}', f'{e!r}', None)
        finally:
            shutil.rmtree(root, ignore_errors=True)


def lookalike_names_probe(ctx, rng):
    """Key names and certificate names that differ only in the octet width of a number inside a typed component (54=%01 and
    54=%00%01 print alike as v=1, they are different names): each signer signs with its own key and names its own certificate."""
    for rep in range(ctx.n(2, 20)):
        root = tempfile.mkdtemp(prefix='nvf-kc-')
        try:
            S = Store(root)
            kc = S.kc
            idn = [C(b'look'), C(b'alike')]
            kc.touch_identity(idn)
            typ = (0x36, 0x32, 0x3a)[rep % 3]
            widths = [b'\x01', b'\x00\x01', b'\x00\x00\x00\x01'] if rep % 2 == 0 else [b'\x00\x00\x00\x00\x00\x00\x00\x07', b'\x07', b'\x00\x07']
            keys = []
            for wv in widths:
                K = kc.new_key(idn, 'ec', key_id=rc.comp(typ, wv))
                keys.append((tuple(bytes(c) for c in Name.normalize(K.name)), bytes(K.key_bits)))
            if len({k for k, _ in keys}) != len(keys) or any(k[-1] != rc.comp(typ, wv) for (k, _), wv in zip(keys, widths)):
                ctx.report('explicit-key-id-ignored:lookalike', 'keys created with key ids that differ only in number width do not carry those ids', None)
                S.close()
                continue
            shared_locator = [C(b'some'), C(b'locator')]
            for order in (keys, keys[::-1]):
                for sel in ('locator', 'plain'):
                    for kname, bits in order:
                        ctx.event('signer-for-look-alike-key-names')
                        ctx.case(('look-alike', sel, typ), nontrivial=True)
                        args = {'key': list(kname)}
                        if sel == 'locator':
                            args['key_locator'] = list(shared_locator)
                        try:
                            sg = kc.get_signer(args)
                        except Exception as e:   # noqa
                            ctx.report(f'get-signer-raises:{type(e).__name__}@{raising_site(e)[0]}:lookalike', f'get_signer({sel}) for a key whose id is a typed number raised {e!r}', None)
                            continue
                        r = rc.strict_data(bytes(make_data([C(b'signed')], MetaInfo(), b'x', sg)))
                        kl = r['sig_info']['key_name'] if r['sig_info'] else None
                        want = tuple(shared_locator) if sel == 'locator' else tuple(bytes(c) for c in Name.normalize(kc[idn][list(kname)].default_cert().name))
                        if not verify_sig(bits, r['signed_portion'], r['sig_value']):
                            ctx.report('signer-wrong-private-key:lookalike-names', 'the signer obtained for one of two keys whose names differ only in the width of a number signs with the other key', {'selector': sel})
                        elif kl is None or tuple(kl) != want:
                            ctx.report('signer-wrong-key-locator:lookalike-names', 'the signer obtained for one of two keys whose names differ only in the width of a number names another certificate', {'selector': sel})
            # two certificates of one key whose version differs only in width
            kname, bits = keys[0]
            own = kc[idn][list(kname)]
            base_cert = own.default_cert()
            cname = [bytes(c) for c in Name.normalize(base_cert.name)]
            signer0 = kc.get_signer({'key': list(kname)})
            cns = []
            for wv in (b'\x05', b'\x00\x05'):
                cn = cname[:-1] + [rc.comp(0x36, wv)]
                _, _, content_, _ = parse_data(bytes(base_cert.data))
                kc.import_cert(list(kname), cn, bytes(make_data(cn, MetaInfo(content_type=2, freshness_period=3600000), bytes(content_), signer0)))
                cns.append(cn)
            for order in (cns, cns[::-1]):
                for cn in order:
                    ctx.event('signer-for-look-alike-certificate-names')
                    try:
                        sg = kc.get_signer({'cert': list(cn)})
                    except Exception as e:   # noqa
                        ctx.report(f'get-signer-raises:{type(e).__name__}@{raising_site(e)[0]}:lookalike-cert', f'{e!r}', None)
                        continue
                    r = rc.strict_data(bytes(make_data([C(b'signed')], MetaInfo(), b'y', sg)))
                    kl = r['sig_info']['key_name'] if r['sig_info'] else None
                    if kl is None or tuple(kl) != tuple(cn):
                        ctx.report('signer-wrong-key-locator:lookalike-names', 'the signer obtained for one of two certificates whose names differ only in the width of the version names the other one', {'selector': 'cert'})
                    elif not verify_sig(bits, r['signed_portion'], r['sig_value']):
                        ctx.report('signer-wrong-private-key:lookalike-names', 'the signer for a certificate does not sign with its key', {'selector': 'cert'})
            S.close()
        except Exception as e:   # noqa
            ctx.report(f'lookalike-probe-raises:{type(e).__name__}@{raising_site(e)[0]}', f'{e!r}', None)
        finally:
            shutil.rmtree(root, ignore_errors=True)


def optimised_interpreter_probe(ctx):
    """The same short history (two identities, an extra key, del_key, del_identity, a new identity) in a child interpreter started
    normally and one started with -O: what is left in the store is the same - one identity's rows and files, nothing of the deleted."""
    import subprocess
    import sys
    import json as _json
    res = {}
    for opt in ((), ('-O',)):
        try:
            r = subprocess.run([sys.executable, *opt, '-m', 'nvf.c15_opt'], capture_output=True, text=True, timeout=120, cwd=os.path.dirname(os.path.dirname(os.path.abspath(__file__))),
                               env=dict(os.environ))
            res[opt] = _json.loads(r.stdout.strip().splitlines()[-1])
        except Exception as e:   # noqa
            res[opt] = {'error': repr(e)}
        ctx.event('history-in-a-child-interpreter' + ('-with--O' if opt else ''))
    ctx.case(('optimised-interpreter',), nontrivial=True)
    a, b = res[()], res[('-O',)]
    w = {'normal': a, 'with -O': b}
    if 'error' in a or 'error' in b:
        ctx.report('optimised-interpreter-probe-error', f'{a.get("error")} / {b.get("error")}', w)
        return
    exp = {'alice_keys_after_del_key': 1, 'key_rows': 1, 'cert_rows': 1, 'private_key_files': 1, 'identities': 1, 'carol_keys': 1}
    for lab, got in (('normal', a), ('with -O', b)):
        bad = {k: got.get(k) for k, v in exp.items() if got.get(k) != v}
        if bad:
            ctx.report('orphan-rows-or-files:interpreter-' + ('optimised' if lab != 'normal' else 'normal'), f'after del_key / del_identity / a new identity in an interpreter started {lab}: {bad}, expected {exp}', w)


def run(ctx):
    ctx.rule = RULE
    rng = ctx.rng
    several_stores(ctx, rng)
    scripted_defaults(ctx, rng)
    if ctx.shard == 0:
        stale_views(ctx, rng)
        root_identity_probe(ctx, rng)
        lookalike_names_probe(ctx, rng)
        optimised_interpreter_probe(ctx)
        ctx.need_event('history-in-a-child-interpreter-with--O')
        ctx.need_event('signer-for-the-root-identity-by-name')
        ctx.need_event('signer-for-look-alike-key-names')
        ctx.need_event('signer-for-look-alike-certificate-names')
        ctx.need_event('stale-identity-view-probed')
    if ctx.shard == 0:
        bulk_scopes(ctx, rng)
    if ctx.shard == 0:
        fault_sweep(ctx, rng)
    n = ctx.n(60, 20000)
    for i in range(n):
        run_history(ctx, rng, rng.randint(5, 40), faults=(i % 3 == 2))
    need = ['name-given-as-a-one-shot-iterator', 'signing-flags-passed-as-False', 'invariant-scan', 'signer-judged', 'operation-repeated', 'crash-reopen', 'op-del_key', 'op-del_identity', 'op-reopen',
            'op-import_cert', 'signer-deleted-key-refused', 'new-key-with-empty-key-id', 'new-key-on-a-larger-curve', 'set-default-with-nonmember-name', 'signer-probe-around-default-change', 'signer-requested-with-several-selectors', 'scripted-defaults-history', 'several-stores-history', 'foreign-store-signer-refused']
    if ctx.shard == 0:
        need.append('fault-sweep-point')
    for k in need:
        ctx.need_event(k)
    ctx.assumptions = ['crash points are simulated by abandoning the SQLite connection without commit (SQLite\'s atomic commit is trusted)',
                       'after an injected fault the model is re-synchronised from the store; the repeated operation is judged by its postcondition and the invariants',
                       'get_signer with str/bytes names raising is not judged; orphan private-key files after a fault are observations unless the key was deleted']
