"""setup_cmd: self-test of the engines (no build step).  A disagreement between refcodec and the
repository's own fixed byte vectors fails here, not in a property."""
import os
import subprocess
import sys

from . import run, common


def body():
    from . import refcodec as rc
    # vectors copied from tests/encoding/ndn_format_0_3_test.py
    i1 = b'\x05\x1a\x07\x14\x08\x05local\x08\x03ndn\x08\x06prefix\x0c\x02\x0f\xa0'
    p = rc.strict_interest(i1)
    assert [bytes(c) for c in p['name']] == [b'\x08\x05local', b'\x08\x03ndn', b'\x08\x06prefix'] and p['lifetime'] == 4000
    d1 = (b"\x06\x42\x07\x14\x08\x05local\x08\x03ndn\x08\x06prefix"
          b"\x14\x03\x18\x01\x00"
          b"\x16\x03\x1b\x01\x00"
          b"\x17 \x7f1\xe4\t\xc5z/\x1d\r\xdaVh8\xfd\xd9\x94"
          b"\xd8'S\x13[\xd7\x15\xa5\x9d%^\x80\xf2\xab\xf0\xb5")
    p = rc.strict_data(d1)
    import hashlib
    assert hashlib.sha256(p['signed_portion']).digest() == p['sig_value']
    assert rc.make_data(p['name'], content_type=0, sig_type=0, sign=lambda b: hashlib.sha256(b).digest()) == d1
    assert rc.enc_var(252) == b'\xfc' and rc.enc_var(253) == b'\xfd\x00\xfd' and rc.enc_var(65536) == b'\xfe\x00\x01\x00\x00'
    for bad in (b'\x06\x05\x07\x03\x08\x05a', b'\x06\x02\x07', b'\x06\x00'):
        try:
            rc.strict_data(bad)
            raise AssertionError(bad)
        except rc.Reject:
            pass
    # signed interest vector from the same test file (test_signed_interest)
    lp = rc.make_lp(fragment=i1, nack_reason=150)
    q = rc.strict_lp(lp)
    assert q['nack'] and q['nack_reason'] == 150 and q['fragment'] == i1
    from . import vtime
    vtime.selftest()
    import ndn
    assert os.path.realpath(ndn.__file__).startswith(os.path.realpath(run.REPO_SRC)), ndn.__file__
    print('nvf selftest ok; ndn from', os.path.dirname(ndn.__file__))


if __name__ == '__main__':
    if os.environ.get('PYTHONHASHSEED') != '0' or run.REPO_SRC not in os.environ.get('PYTHONPATH', ''):
        sys.exit(subprocess.call([sys.executable, '-m', 'nvf.selftest'], env=run.child_env(), cwd=common.ROOT))
    body()
