"""C07 - packet decoders accept exactly the well-formed packets.

Differential monitor against refcodec (strict reader) + step budget (sys.monitoring) for the
"terminates in time proportional to the input" clause.
"""
import re
import struct

from . import gen, pkts, refcodec as rc, monitors
from .common import raising_site

from ndn.encoding import (parse_interest, parse_data, parse_lp_packet_v2, make_data, make_interest, DecodeError,
                          MetaInfo, InterestParam, Name)
from ndn.app_support.security_v2 import parse_certificate, self_sign, derive_cert

RULE = ('byte strings: uniformly random, random with plausible outer T/L, grammar-generated valid packets '
        '(library- and reference-encoded Interest/Data/LpPacket/certificate/Name), and single-edit mutants of them '
        '(byte substitution, truncation, length +-1/big, delete/duplicate/swap/insert-unknown at every nesting level); '
        'distinct = (decoder, input class, mutation kind, impl outcome, reference outcome); non-trivial = both '
        'sides produced an outcome')

DOCUMENTED = (DecodeError, IndexError, ValueError, struct.error, TypeError)
STEP_A, STEP_B = 60, 5000


def bl(x):
    return None if x is None else bytes(x)


def names(lst):
    return [[bytes(c) for c in n] for n in lst]


def cmp_siginfo(si, r, cert=False):
    d = []
    if (si is None) != (r is None):
        return ['sig_info-presence']
    if si is None:
        return d
    if si.signature_type != r['type']:
        d.append('sig_type')
    kl = si.key_locator
    kn = None if kl is None or kl.name is None else [bytes(c) for c in kl.name]
    if kn != r['key_name']:
        d.append('key_locator_name')
    if (si.signature_nonce, si.signature_time, si.signature_seq_num) != (r['nonce'], r['time'], r['seq']):
        d.append('sig-nonce-time-seq')
    if cert:
        vp = si.validity_period
        nb = None if vp is None else bl(vp.not_before)
        na = None if vp is None else bl(vp.not_after)
        if (nb, na) != (r['not_before'], r['not_after']):
            d.append('validity')
        ad = getattr(si, 'additional_description', None)
        got_ad = None if ad is None else [(bl(x.description_key), bl(x.description_value)) for x in (ad.description_entry or [])]
        if r.get('add_desc_regular', True) and got_ad != r.get('add_desc'):
            d.append('additional_description')
    return d


def dec_interest(wire):
    n, p, a, s = parse_interest(wire)
    return n, p, a, s


def cmp_interest(got, r):
    n, p, a, s = got
    d = []
    if [bytes(c) for c in n] != r['name']:
        d.append('name')
    if (bool(p.can_be_prefix), bool(p.must_be_fresh), p.nonce, p.lifetime, p.hop_limit) != \
            (r['can_be_prefix'], r['must_be_fresh'], r['nonce'], r['lifetime'], r['hop_limit']):
        d.append('params')
    if names(p.forwarding_hint) != r['fwd_hint']:
        d.append('fwd_hint')
    if bl(a) != r['app_param']:
        d.append('app_param')
    d += cmp_siginfo(s.signature_info, r['sig_info'])
    if bl(s.signature_value_buf) != r['sig_value']:
        d.append('sig_value')
    # pointers handed to verifiers (only where the packet format defines them: one digest component at most,
    # parameters or SignatureInfo present)
    ndig = sum(1 for c in r['name'] if rc.comp_parts(c)[0] == 2)
    if ndig <= 1:
        if bl(s.digest_value_buf) != r['digest_value']:
            d.append('digest_value_ptr')
        if r['app_param'] is not None and b''.join(bytes(x) for x in (s.digest_covered_part or [])) != r['digest_portion']:
            d.append('digest_covered_part')
        if r['signed_portion'] is not None and r['sig_info'] is not None and \
                b''.join(bytes(x) for x in (s.signature_covered_part or [])) != r['signed_portion']:
            d.append('signature_covered_part')
    return d


def cmp_data(got, r):
    n, m, c, s = got
    d = []
    if [bytes(x) for x in n] != r['name']:
        d.append('name')
    if bl(c) != r['content']:
        d.append('content')
    if r['has_meta']:
        if (m.content_type, m.freshness_period, bl(m.final_block_id)) != (r['content_type'], r['freshness'], r['final_block']):
            d.append('meta_info')
    d += cmp_siginfo(s.signature_info, r['sig_info'])
    if bl(s.signature_value_buf) != r['sig_value']:
        d.append('sig_value')
    if r['signed_portion'] is not None and b''.join(bytes(x) for x in (s.signature_covered_part or [])) != r['signed_portion']:
        d.append('signature_covered_part')
    return d


def cmp_cert(c, r):
    d = []
    if [bytes(x) for x in c.name] != r['name']:
        d.append('name')
    if bl(c.content) != r['content']:
        d.append('content')
    m = c.meta_info
    if r['has_meta']:
        if m is None or (m.content_type, m.freshness_period, bl(m.final_block_id)) != (r['content_type'], r['freshness'], r['final_block']):
            d.append('meta_info')
    d += cmp_siginfo(c.signature_info, r['sig_info'], cert=True)
    if bl(c.signature_value) != r['sig_value']:
        d.append('sig_value')
    return d


# NDNLPv2: header fields in order of increasing type number, the fragment last
LP_ORDER = [0x52, 0x53, 0x62, 0x320, 0x32c, 0x330, 0x334, 0x340, 0x344, 0x348, 0x34c, 0x350, 0x50]


def lp_in_order(types):
    pos = 0
    seen = set()
    for t in types:
        if t not in LP_ORDER:
            continue
        i = LP_ORDER.index(t)
        if i < pos or t in seen:
            return False
        pos = i
        seen.add(t)
    return True


def ref_lp(wire):
    # with repeated / out-of-order headers it is not stated which header counts, so their interiors are not read at all
    b0, vs0, ve0 = rc.outer(bytes(wire), rc.L['LP_PACKET'])
    types0 = [k[0] for k in rc.children(b0, vs0, ve0)]
    if not lp_in_order(types0):
        return {'types': types0, 'fragmented': False}
    r = rc.strict_lp(wire)
    if r['fragmented']:
        raise rc.Reject('fragmented')
    # nested Nack / CachePolicy are parsed strictly by the library (unknown critical inside rejected) - but only the
    # header it actually takes; with repeated / out-of-order headers it is not stated which one counts, so the
    # interiors are not judged there (the field comparison is skipped for such envelopes as well)
    if not lp_in_order(r['types']):
        return r
    buf = bytes(wire)
    _, vs, ve = rc.outer(buf, rc.L['LP_PACKET'])
    for (t, ts, cvs, cve) in rc.children(buf, vs, ve):
        if t == rc.L['NACK']:
            f = rc.scan(buf, cvs, cve, [(rc.L['NACK_REASON'], False)])
            e = f.get(rc.L['NACK_REASON'])
            if e:
                rc.read_nni(buf, e[0][1], e[0][2])
        elif t == rc.L['CACHE_POLICY']:
            f = rc.scan(buf, cvs, cve, [(rc.L['CACHE_POLICY_TYPE'], False)])
            e = f.get(rc.L['CACHE_POLICY_TYPE'])
            if e:
                rc.read_nni(buf, e[0][1], e[0][2])
        elif t in (rc.L['INCOMING_FACE_ID'], rc.L['NEXT_HOP_FACE_ID'], rc.L['CONGESTION_MARK']):
            rc.read_nni(buf, cvs, cve)      # NonNegativeInteger headers: legal width only
    return r


def cmp_lp(v, r):
    if not lp_in_order(r['types']):
        return None
    d = []
    if bl(v.pit_token) != r['pit_token']:
        d.append('pit_token')
    nr = None if v.nack is None else v.nack.nack_reason
    if (v.nack is not None) != r['nack'] or nr != r['nack_reason']:
        d.append('nack')
    if bl(v.fragment) != r['fragment']:
        d.append('fragment')
    # the other headers the format defines, as the library hands them out
    for key in ('incoming_face_id', 'next_hop_face_id', 'congestion_mark'):
        exp = None if r.get(key) is None else int.from_bytes(r[key], 'big')
        if getattr(v, key) != exp:
            d.append(key)
    for key in ('ack', 'tx_sequence', 'prefix_announcement'):
        if bl(getattr(v, key)) != r.get(key):
            d.append(key)
    if bool(v.non_discovery) != (r.get('non_discovery') is not None):
        d.append('non_discovery')
    return d


def ref_name(wire):
    buf = bytes(wire)
    t, ts, vs, ve = rc.read_tlv(buf, 0, len(buf))
    if t != 7:
        raise rc.Reject('outer-type')
    return rc.read_name(buf, ts, vs, ve)


def ref_cert(wire):
    r = rc.strict_data(wire, cert=True)
    return r


DECODERS = {
    'interest': (dec_interest, rc.strict_interest, cmp_interest),
    'data': (lambda w: parse_data(w), rc.strict_data, cmp_data),
    'lp': (lambda w: parse_lp_packet_v2(w), ref_lp, cmp_lp),
    'cert': (lambda w: parse_certificate(w), ref_cert, cmp_cert),
    'name': (lambda w: Name.from_bytes(w), ref_name, lambda g, r: [] if [bytes(c) for c in g] == r else ['components']),
}


OVR_TYPES = {}
INT_TYPES = {0x0c, 0x18, 0x19, 0x1b, 0x22, 0x28, 0x2a}      # InterestLifetime, ContentType, FreshnessPeriod, SignatureType, HopLimit, SignatureTime, SignatureSeqNum


def judge(ctx, dec, wire, klass, wellformed=False, steps=True):
    impl_fn, ref_fn, cmp_fn = DECODERS[dec]
    wire = bytes(wire)
    w = {'decoder': dec, 'class': klass, 'wire': wire if len(wire) <= 600 else wire[:300], 'len': len(wire)}
    impl_out = None
    impl_exc = None
    limit = STEP_A * len(wire) + STEP_B
    # the decoders take any bytes-like object: the same octets are handed over as bytes, bytearray or memoryview in turn
    given = (wire, bytearray(wire), memoryview(wire))[ctx.evaluations % 3]
    try:
        if steps:
            with monitors.Steps(limit=limit) as s:
                impl_out = impl_fn(given)
            ctx.extra['max_steps_per_byte_x100'] = max(ctx.extra.get('max_steps_per_byte_x100', 0),
                                                       int(100 * s.count / max(1, len(wire) + 80)))
            ctx.event('step-monitored')
        else:
            impl_out = impl_fn(given)
    except monitors.BudgetExceeded as e:
        ctx.report(f'step-budget:{dec}', f'decoding exceeded {limit} interpreter events for {len(wire)} bytes', w)
        return
    except DOCUMENTED as e:
        impl_exc = e
    except RecursionError as e:
        ctx.report(f'undocumented-exception:{dec}:RecursionError', 'decoder raised RecursionError', w)
        return
    except Exception as e:   # noqa
        ctx.report(f'undocumented-exception:{dec}:{type(e).__name__}@{raising_site(e)[0]}',
                   f'decoder raised an exception outside the documented decoding errors: {e!r}', w)
        return
    try:
        ref_out = ref_fn(wire)
        ref_rej = None
    except rc.Reject as e:
        ref_out = None
        ref_rej = e
    outcome = ('rej' if impl_exc is not None else 'acc', ref_rej.reason if ref_rej else 'acc')
    ctx.case((dec, klass.split('@')[0], outcome), nontrivial=True,
             sample=dict(w, outcome=outcome) if ctx.evaluations % 4999 == 17 else None)
    ctx.event(f'{dec}:{outcome[0]}/{"rej" if ref_rej else "acc"}')
    if impl_exc is not None:
        if wellformed and ref_rej is None:
            ctx.report(f'rejects-wellformed:{dec}:{type(impl_exc).__name__}',
                       f'decoder rejects a packet that is well-formed by construction: {impl_exc!r}', w)
        return
    if ref_rej is not None:
        if ref_rej.reason in rc.STATED_REASONS:
            top_name = False
            if dec != 'lp' and ref_rej.reason == 'overrun' and ref_rej.detail.startswith('type 7 at '):
                # the packet's own Name element (first child of the outer element) - not a Name nested further down, not a type-7
                # element at some other place (those the unchanged library slices like any other value: the open finding)
                try:
                    top_name = int(ref_rej.detail.split()[3]) == rc.outer(wire, rc.read_var(wire, 0, len(wire))[0])[1]
                except (rc.Reject, KeyError, ValueError, IndexError):
                    top_name = False
            if ref_rej.reason == 'overrun' and ref_rej.where == 'model' and not top_name:
                # a field of a TLV container (not a Name element, not a Name component) extends past its parent
                mech = 'inner-overrun-accepted'
                _m = re.match(r'type (\d+) at (\d+) length (\d+) ', ref_rej.detail)
                _t, _off, _ln = (int(_m.group(1)), int(_m.group(2)), int(_m.group(3))) if _m else (-1, 0, 0)
                OVR_TYPES[(dec, _t)] = OVR_TYPES.get((dec, _t), 0) + 1
                if klass == 'integer-cut-short-at-the-end-of-its-parent':
                    # a recognised integer, in its proper place, whose declared width exceeds what is left in its parent: the open
                    # finding (byte-string / sub-model values sliced without a bounds check) does not cover integers - the
                    # unchanged library cannot read such an integer and rejects
                    mech = f'accepts-illformed:{dec}:overrun@integer-field'
            else:
                mech = f'accepts-illformed:{dec}:{ref_rej.reason}@{ref_rej.where}'
            ctx.report(mech, f'decoder {dec} accepts a byte string the strict reading rejects ({ref_rej})', w)
        else:
            ctx.event(f'accepts-unstated:{ref_rej.reason}')
        return
    try:
        diffs = cmp_fn(impl_out, ref_out)
    except Exception as e:   # noqa
        # reading a field of what the decoder handed out failed: the packet was "accepted" into an object that cannot be read
        ctx.report(f'accepted-result-unreadable:{dec}:{type(e).__name__}', f'reading the fields of an accepted packet raised {e!r}', w)
        return
    if diffs is None:
        ctx.event('lp-order-skip')
        return
    for d in diffs:
        ctx.report(f'field-differs:{dec}:{d}', f'accepted packet: extracted {d} differs from the strict reading', w)
    if not diffs and (wellformed or ctx.evaluations % 7 == 0):
        # the result belongs to the caller: it is edited in place (names extended, lists emptied, buffers overwritten), then the same
        # octets are decoded again - a decoder is a function of its input, whatever became of what it handed out earlier
        scribble_result(impl_out)
        try:
            again = impl_fn(wire)
            d2 = cmp_fn(again, ref_out)
        except Exception as e:   # noqa
            d2 = [f'raises-{type(e).__name__}']
        ctx.event('decoded-again-after-editing-the-first-result')
        for d in d2 or []:
            ctx.report(f'decoder-result-depends-on-history:{dec}:{d}', f'the same octets decoded a second time, after the caller edited the first result in place, '
                       f'give another {d}', w)


def scribble_result(x, depth=0):
    if depth > 5 or x is None or isinstance(x, (bytes, str, int, float, memoryview)):
        return
    if isinstance(x, bytearray):
        x[:] = bytes(len(x))
        return
    if isinstance(x, dict):
        for v in list(x.values()):
            scribble_result(v, depth + 1)
        return
    if isinstance(x, (list, tuple)):
        for v in x:
            scribble_result(v, depth + 1)
        if isinstance(x, list):
            if x and depth > 0 and len(x) % 2:
                del x[0]
            x.append(b'\x08\x08scribble')
        return
    d = getattr(x, '__dict__', None)
    if isinstance(d, dict):
        for v in list(d.values()):
            scribble_result(v, depth + 1)


class CountingBytes(bytes):
    """Instrumented input buffer: counts the octets copied out of it by slicing (a slice of a bytes object is a copy; a
    decoder that slices the remaining input once per element copies a quadratic volume without executing more bytecode)."""
    copied = 0

    def __getitem__(self, k):
        r = bytes.__getitem__(self, k)
        if isinstance(k, slice):
            CountingBytes.copied += len(r)
            return CountingBytes(r)
        return r


class CountingBytearray(bytearray):
    copied = 0

    def __getitem__(self, k):
        r = bytearray.__getitem__(self, k)
        if isinstance(k, slice):
            CountingBytearray.copied += len(r)
            return CountingBytearray(r)
        return r


COPY_A, COPY_B = 4, 256
TL_DECODERS = {'interest': (parse_interest, 5), 'data': (parse_data, 6), 'lp': (parse_lp_packet_v2, 0x64)}


def judge_copy(ctx, dec, value, label):
    """Linear-time clause, second resource: octets copied from the input.  value = the packet without its outer T/L."""
    fn, outer_t = TL_DECODERS[dec]
    for cls in (CountingBytes, CountingBytearray):
        for with_tl in (False, True):
            buf = cls(rc.enc_tlv(outer_t, value) if with_tl else value)
            cls.copied = 0
            try:
                fn(buf, with_tl=with_tl)
            except DOCUMENTED:
                pass
            except Exception as e:   # noqa
                ctx.report(f'undocumented-exception:{dec}:{type(e).__name__}@{raising_site(e)[0]}', f'decoder raised {e!r} on a {cls.__name__} input', {'decoder': dec, 'class': label})
                continue
            limit = COPY_A * len(buf) + COPY_B
            ctx.event('copy-monitored')
            ctx.extra['max_copied_per_byte_x100'] = max(ctx.extra.get('max_copied_per_byte_x100', 0), int(100 * cls.copied / max(1, len(buf) + 64)))
            ctx.case(('copy', dec, label.split('@')[0], cls.__name__, with_tl), nontrivial=True)
            if cls.copied > limit:
                ctx.report(f'copy-budget:{dec}', f'decoding {len(buf)} octets ({cls.__bases__[0].__name__}, with_tl={with_tl}) copied {cls.copied} octets out of the input '
                           f'(more than {COPY_A}*len+{COPY_B}): not proportional to the input', {'decoder': dec, 'class': label, 'len': len(buf), 'copied': cls.copied})


ctx_wide = [0]


def corpus(ctx, rng):
    """Valid packets: [(decoder, wire)]"""
    out = []
    for _ in range(ctx.n(40, 960)):
        comps = gen.name(rng, 0, 5)
        kind = rng.choice(['none', 'digest', 'hmac', 'ecdsa256', 'ed25519', 'null', 'var'])
        signer, _ = pkts.make_signer(rng, kind)
        meta, _ = pkts.gen_meta_info(rng)
        out.append(('data', bytes(make_data(comps, meta, gen.rand_bytes(rng, rng.choice([0, 1, 30, 260])), signer))))
        comps = gen.name(rng, 0, 5, [t for t in gen.COMP_TYPES if t != 2])
        prm, _ = pkts.gen_interest_param(rng)
        kind = rng.choice(['none', 'none', 'digest-int', 'hmac', 'ecdsa256', 'var'])
        signer, _ = pkts.make_signer(rng, kind)
        app = None if rng.random() < 0.4 else gen.rand_bytes(rng, rng.choice([0, 3, 40, 255]))
        if (app is not None or signer is not None) and rng.random() < 0.4:
            comps = list(comps)
            comps.insert(rng.randint(0, len(comps)), rc.comp(2, bytes(32)))      # digest placeholder not in the last position
        out.append(('interest', bytes(make_interest(comps, prm, app, signer))))
    # reference-encoded (shapes the library encoder never emits)
    for _ in range(ctx.n(8, 480)):
        nm = gen.name(rng, 1, 4)
        out.append(('data', rc.make_data(nm, content=gen.rand_bytes(rng, 5), content_type=rng.choice([None, 0, 300]),
                                         freshness=rng.choice([None, 1, 70000]), final_block=rng.choice([None, b'\x32\x01\x05']),
                                         sig_type=rng.choice([None, 0, 3, 4]), key_name=rng.choice([None, gen.simple_name(rng)]),
                                         sig_value=gen.rand_bytes(rng, rng.choice([0, 32, 71])))))
        out.append(('interest', rc.make_interest(gen.simple_name(rng), can_be_prefix=rng.random() < .5, must_be_fresh=rng.random() < .5,
                                                 fwd_hint=[gen.simple_name(rng) for _ in range(rng.randint(0, 2))],
                                                 nonce=rng.choice([None, 5]), lifetime=rng.choice([None, 0, 4000, 2**40]),
                                                 hop_limit=rng.choice([None, 3]), app_param=rng.choice([None, b'', b'abc']),
                                                 sig_info_value=rng.choice([None, rc.make_siginfo_value(0, nonce=1, time=2, seq=3),
                                                                            rc.make_siginfo_value(4, key_name=gen.simple_name(rng))]),
                                                 sig_value=gen.rand_bytes(rng, 32))[0]))
    # the same shapes with NonNegativeIntegers in a wider legal width (2, 4 or 8 octets where 1 would do): still well-formed
    for i in range(ctx.n(9, 300)):
        with rc.widened(1 + i % 3):
            nm = gen.name(rng, 1, 4)
            out.append(('data', rc.make_data(nm, content=gen.rand_bytes(rng, 5), content_type=rng.choice([None, 0, 2]), freshness=rng.choice([None, 1, 300]),
                                             sig_type=rng.choice([0, 1, 3, 200]), key_name=rng.choice([None, gen.simple_name(rng)]), sig_value=gen.rand_bytes(rng, 32))))
            out.append(('interest', rc.make_interest(gen.simple_name(rng), nonce=rng.choice([None, 5]), lifetime=rng.choice([None, 0, 7, 4000]), app_param=rng.choice([None, b'abc']),
                                                     sig_info_value=rng.choice([None, rc.make_siginfo_value(0, nonce=1, time=2, seq=3)]), sig_value=gen.rand_bytes(rng, 32))[0]))
        ctx_wide[0] += 2
    base = [w for d, w in out]
    for _ in range(ctx.n(14, 800)):
        frag = rng.choice(base + [None, b''])
        hdrs = []
        for t, v in ((0x32c, rc.enc_nni(rng.randrange(1 << 16))), (0x330, b'\x01'), (0x334, rc.enc_tlv(0x335, b'\x01')),
                     (0x340, b'\x01'), (0x348, b'\x00' * 8), (0x34c, b''), (0x350, b'zz'), (0x3E8, b'u'), (0x3E9, b'c')):
            if rng.random() < 0.25:
                hdrs.append((t, v))
        out.append(('lp', rc.make_lp(fragment=frag, pit_token=rng.choice([None, b'', b'\x01\x02\x03\x04', gen.rand_bytes(rng, 32)]),
                                     nack_reason=rng.choice([None, None, 0, 50, 150, 2**40]), nack=rng.random() < 0.1, headers=hdrs,
                                     frag_index=rng.choice([None, None, None, None, 0, 1, 5]), frag_count=rng.choice([None, None, None, None, 0, 1, 2, 7]))))
    # every header field the format defines at once, in canonical order (increasing type number), and every adjacent pair of them
    ALL_H = [(0x32c, rc.enc_nni(300)), (0x330, b'\x07'), (0x334, rc.enc_tlv(0x335, b'\x01')), (0x340, b'\x02'), (0x344, b'\x00' * 7 + b'\x21'),
             (0x348, b'\x00' * 7 + b'\x22'), (0x34c, b''), (0x350, b'announce')]
    out.append(('lp', rc.make_lp(fragment=base[0], pit_token=b'\x01\x02', headers=ALL_H)))
    for i_ in range(len(ALL_H) - 1):
        out.append(('lp', rc.make_lp(fragment=base[i_ % len(base)], headers=ALL_H[i_:i_ + 2])))
    out.append(('lp', rc.make_lp(fragment=None, headers=ALL_H[4:6])))
    import datetime
    for _ in range(ctx.n(4, 192)):
        kind = rng.choice(['ecdsa256', 'ecdsa256', 'rsa', 'ed25519'])
        kn = gen.simple_name(rng, 1, 3) + [rc.comp(8, b'KEY'), rc.comp(8, gen.rand_bytes(rng, 4))]
        signer, info = pkts.make_signer(rng, kind, kn)
        if rng.random() < 0.5:
            out.append(('cert', bytes(self_sign(kn, info['pub'], signer)[1])))
        else:
            out.append(('cert', bytes(derive_cert(kn, 'iss', info['pub'], signer, datetime.datetime(2020, 2, 29, 23, 59, 59), 86400 * 400)[1])))
    # certificates that also carry an AdditionalDescription after the ValidityPeriod (what other tools issue)
    for dec, wire in [x for x in out if x[0] == 'cert'][:ctx.n(4, 64)]:
        b0, vs0, ve0 = rc.outer(wire, 6)
        parts = []
        for (t, ts, cvs, cve) in rc.children(b0, vs0, ve0):
            if t == 0x16:
                ents = b''.join(rc.enc_tlv(0x0200, rc.enc_tlv(0x0201, k_) + rc.enc_tlv(0x0202, v_)) for k_, v_ in ((b'owner', b'alice'), (b'', b''), (b'note', gen.rand_bytes(rng, 3)))[:rng.randint(1, 3)])
                parts.append(rc.enc_tlv(0x16, b0[cvs:cve] + rc.enc_tlv(0x0102, ents)))
            else:
                parts.append(b0[ts:cve])
        out.append(('cert', rc.enc_tlv(6, b''.join(parts))))
        ctx.event('certificate-with-additional-description')
    for _ in range(ctx.n(8, 320)):
        out.append(('name', rc.enc_name(gen.name(rng, 0, 8))))
    return out


def run(ctx):
    ctx.rule = RULE
    rng = ctx.rng
    monitors.selftest()
    corp = corpus(ctx, rng)
    decs = list(DECODERS)
    # valid packets through their own decoder and through every other decoder
    for dec, wire in corp:
        judge(ctx, dec, wire, 'valid', wellformed=True)
        for other in decs:
            if other != dec and not (other == 'data' and dec == 'cert') and not (other == 'cert' and dec == 'data'):
                judge(ctx, other, wire, 'valid-other-decoder', steps=False)
        if dec == 'data':
            judge(ctx, 'cert', wire, 'data-as-cert')
    # textual spellings of well-formed packets (what command line tools print: Base64, Base64 in 64-column lines, PEM-like armour,
    # hexadecimal text, the same behind a NUL / with stray octets): byte strings that are no TLV packets of the decoder's kind
    import base64 as _b64
    seen_dec = {}
    for dec, wire in corp:
        if seen_dec.get(dec, 0) >= ctx.n(3, 40):
            continue
        seen_dec[dec] = seen_dec.get(dec, 0) + 1
        t64 = _b64.b64encode(wire)
        lines = b'\n'.join(t64[i:i + 64] for i in range(0, len(t64), 64)) + b'\n'
        for lab, txt in (('base64', t64), ('base64-lines', lines), ('pem', b'-----BEGIN CERTIFICATE-----\n' + lines + b'-----END CERTIFICATE-----\n'),
                         ('nul-base64', b'\x00' + t64), ('base64-with-stray-octets', t64[:5] + b'\x80\xff' + t64[5:]),
                         ('urlsafe-base64', _b64.urlsafe_b64encode(wire)), ('hex', wire.hex().encode()), ('hex-upper', wire.hex().upper().encode()),
                         ('base32', _b64.b32encode(wire)), ('base85', _b64.b85encode(wire))):
            judge(ctx, dec, txt, 'text-spelling-' + lab, steps=False)
            ctx.event('text-spelling-judged')
    # well-formed by construction: unknown non-critical elements inserted
    for dec, wire in corp:
        if dec == 'name':
            continue
        k = 0
        for label, m in gen.structural_mutants(rng, wire, limit=None):
            if not label.startswith('ins-noncrit'):
                continue
            # inserting inside a Name / component-bearing container changes the name: skip those
            try:
                ok = DECODERS[dec][1](m)
            except rc.Reject:
                continue
            k += 1
            judge(ctx, dec, m, 'wellformed-noncrit-insert', wellformed=True, steps=False)
            if k >= (6 if ctx.quick else 40):
                break
    # single-edit mutants
    per = 700 if ctx.quick else 2500
    for dec, wire in corp:
        muts = []
        muts += list(gen.structural_mutants(rng, wire, limit=per // 2))
        bm = list(gen.byte_mutants(rng, wire, per_pos=1, max_positions=per // 3))
        muts += bm
        tr = list(gen.truncations(wire))
        muts += tr if len(tr) <= per // 6 else rng.sample(tr, per // 6)
        for i, (label, m) in enumerate(muts):
            judge(ctx, dec, m, label, steps=(i % 10 == 0))
    # random strings
    nrand = ctx.n(80000, 24000000)
    for i in range(nrand):
        L = rng.choice([0, 1, 2, 3, 5, 8, 13, 21, 40, 80, 200, 1000]) if rng.random() < 0.9 else rng.randint(1000, 6000)
        dec = decs[i % len(decs)]
        k = rng.random()
        if k < 0.3:
            wire = gen.rand_bytes(rng, L)
            klass = 'random'
        elif k < 0.65:
            # plausible outer TL + small-type soup
            body = b''.join(rc.enc_tlv(rng.choice([7, 8, 0x14, 0x15, 0x16, 0x17, 0x18, 0x1b, 0x1c, 0x0a, 0x0c, 0x24, 0x2c, 0x2e, 0x50, 0x62, 0x320, 0x321, 0xfd, 0xfe, 1, 2, 33, 34]),
                                       gen.rand_bytes(rng, rng.choice([0, 1, 2, 3, 4, 8, 9])))
                            for _ in range(rng.randint(0, 8)))
            t = {'interest': 5, 'data': 6, 'lp': 0x64, 'cert': 6, 'name': 7}[dec]
            wire = rc.enc_tlv(t, body)
            klass = 'tlv-soup'
        else:
            t = {'interest': 5, 'data': 6, 'lp': 0x64, 'cert': 6, 'name': 7}[dec]
            body = gen.rand_bytes(rng, L)
            wire = rc.enc_var(t) + rc.enc_var(len(body) + rng.choice([0, 0, 0, 1, -1, 300])  if len(body) else 0) + body
            klass = 'random-in-outer'
        judge(ctx, dec, wire, klass, steps=(i % 10 == 0))
        if i % 1500 == 1499:
            # acceptance is a property of the octets, not of what the process decoded (and refused) before
            dv, wv = corp[(i // 1500) % len(corp)]
            judge(ctx, dv, wv, 'valid-after-many-refusals', wellformed=True, steps=False)
            ctx.event('valid-packet-amid-refusals')
    # elements of types the format knows elsewhere (or knew in an earlier revision: 0x1f Delegation) at every gap inside a ForwardingHint
    for nh in (0, 1, 2):
        iw = rc.make_interest(gen.simple_name(rng), nonce=7, fwd_hint=[gen.simple_name(rng, 1, 2) for _ in range(nh)] if nh else [], app_param=None)[0] \
            if nh else None
        if iw is None:
            iw = rc.make_interest(gen.simple_name(rng), nonce=7, app_param=None)[0]
            b0, vs0, ve0 = rc.outer(iw, 5)
            kids = rc.children(b0, vs0, ve0)
            iw = rc.enc_tlv(5, b0[vs0:kids[0][3]] + rc.enc_tlv(0x1e, b'') + b0[kids[0][3]:ve0])      # an empty ForwardingHint after the Name
        b0, vs0, ve0 = rc.outer(iw, 5)
        kids = rc.children(b0, vs0, ve0)
        fh = [k for k in kids if k[0] == 0x1e]
        if not fh:
            continue
        _, fts, fvs, fve = fh[0]
        inner = rc.children(b0, fvs, fve)
        gaps = [fvs] + [k[3] for k in inner]
        for t2 in (0x1f, 0x1d, 0x15, 0x21, 0x23, 0x0321, 0x0f01):
            for body in (b'', rc.enc_tlv(0x1e, b'\x05'), rc.enc_name([rc.comp(8, b'old')]), rc.enc_tlv(0x1e, b'\x05') + rc.enc_name([rc.comp(8, b'old')])):
                for g in gaps:
                    val = b0[fvs:g] + rc.enc_tlv(t2, body) + b0[g:fve]
                    judge(ctx, 'interest', rc.enc_tlv(5, b0[vs0:fts] + rc.enc_tlv(0x1e, val) + b0[fve:ve0]), 'known-critical-inside-forwarding-hint', steps=False)
    # recognised integers, in their proper place and last in their parent, declared wider (legal widths) than the octets left there
    nm_ = rc.enc_name(gen.simple_name(rng, 1, 2))
    sig_ = rc.enc_tlv(0x16, rc.enc_tlv(0x1b, b'\x00')) + rc.enc_tlv(0x17, bytes(32))
    for L_ in (1, 2, 4, 8):
        for present in range(0, L_):
            cut = bytes([L_]) + b'\x01' * present
            for dec_, w_ in (('interest', rc.enc_tlv(5, nm_ + b'\x0c' + cut)),
                             ('interest', rc.enc_tlv(5, nm_ + rc.enc_tlv(0x0a, b'\x00\x00\x00\x07') + b'\x22' + cut)),
                             ('data', rc.enc_tlv(6, nm_ + rc.enc_tlv(0x14, b'\x19' + cut) + rc.enc_tlv(0x15, b'c') + sig_)),
                             ('data', rc.enc_tlv(6, nm_ + rc.enc_tlv(0x14, b'\x18' + cut) + rc.enc_tlv(0x15, b'c') + sig_)),
                             ('data', rc.enc_tlv(6, nm_ + rc.enc_tlv(0x15, b'c') + rc.enc_tlv(0x16, b'\x1b' + cut) + rc.enc_tlv(0x17, bytes(32)))),
                             ('lp', rc.enc_tlv(0x64, rc.enc_tlv(0x62, b'\x01\x02') + rc.enc_var(0x0340) + cut))):      # (an IDLE envelope: no fragment)
                judge(ctx, dec_, w_, 'integer-cut-short-at-the-end-of-its-parent', steps=False)
    # nine-octet Type / Length numbers whose top bit is set (2^63 and above), on unknown and on known elements, at the end and in the
    # middle of each kind of packet: refused or skipped - within the step budget
    nm9 = rc.enc_name([rc.comp(8, b'a')])
    for big in (2**64 - 10, 2**63, 2**63 + 5, 2**64 - 1, 2**62):
        nine = b'\xff' + big.to_bytes(8, 'big')
        for tnum in (b'\xf0', b'\x15', b'\xf1', b'\x0c'):
            for dec_, outer_t, rest in (('interest', 5, b''), ('interest', 5, rc.enc_tlv(0x0a, b'\x00\x00\x00\x01')), ('data', 6, b''),
                                        ('data', 6, rc.enc_tlv(0x15, b'xy')), ('cert', 6, b''), ('lp', 0x64, rc.enc_tlv(0x50, b'\x05\x00'))):
                judge(ctx, dec_, rc.enc_tlv(outer_t, (nm9 if dec_ != 'lp' else b'') + tnum + nine + rest), 'nine-octet-length-with-the-top-bit-set', steps=True)
                judge(ctx, dec_, rc.enc_tlv(outer_t, (nm9 if dec_ != 'lp' else b'') + nine + b'\x00' + rest), 'nine-octet-type-with-the-top-bit-set', steps=True)
        judge(ctx, 'name', rc.enc_tlv(7, b'\x08' + nine), 'nine-octet-length-with-the-top-bit-set', steps=True)
        ctx.event('nine-octet-numbers-with-the-top-bit-set')
    # every combination of fragmentation headers (this library reassembles nothing: an envelope that says it is a piece is refused)
    inner = rc.make_data(gen.simple_name(rng), content=b'piece', content_type=0, sig_type=0, sig_value=bytes(32))
    for fi in (None, 0, 1, 2, 5, 255, 256, 2**32):
        for fc in (None, 0, 1, 2, 7, 256, 2**32):
            for extra in ({}, {'pit_token': b'\x01\x02'}, {'nack_reason': 50}):
                judge(ctx, 'lp', rc.make_lp(fragment=inner, frag_index=fi, frag_count=fc, **extra), 'frag-header-sweep', steps=False)
    # large inputs for the linear-time clause
    for n in ((300, 3000) if ctx.quick else (300, 3000, 30000)):
        for dec, wire in (('data', rc.make_data([b'\x08\x00'] * n, content=b'', content_type=0, sig_type=0, sig_value=bytes(32))),
                          ('interest', rc.make_interest([b'\x08\x00'] * n, app_param=b'x' * n, nonce=1)[0]),
                          ('name', rc.enc_name([b'\x08\x00'] * n)),
                          ('lp', rc.make_lp(fragment=b'\x00' * n * 3, headers=[(0x3E8, b'')] * n)),
                          ('data', rc.enc_tlv(6, rc.enc_name([b'\x08\x01a']) + rc.enc_tlv(0xF0, b'') * n))):
            judge(ctx, dec, wire, f'large-{n}')
        for dec, value in (('data', rc.enc_name([b'\x08\x01a']) + rc.enc_tlv(0xF0, b'') * n), ('data', rc.enc_name([b'\x08\x00'] * n) + rc.enc_tlv(0x15, b'c' * n)),
                           ('interest', rc.enc_name([b'\x08\x01a'] * n) + rc.enc_tlv(0x24, b'x' * n) + rc.enc_tlv(0xF0, b'') * n),
                           ('lp', rc.enc_tlv(0x3E8, b'') * n + rc.enc_tlv(0x50, b'\x00' * n))):
            judge_copy(ctx, dec, value, f'large-{n}')
    for dec, wire in corp:
        if dec in TL_DECODERS:
            b0, vs0, ve0 = rc.outer(wire, TL_DECODERS[dec][1])
            judge_copy(ctx, dec, b0[vs0:ve0], 'valid')
    for dec, wire in corp:
        judge(ctx, dec, wire, 'valid-at-the-end-of-the-run', wellformed=True, steps=False)
        ctx.event('valid-packet-at-the-end-of-the-run')
    ctx.need_event('step-monitored')
    ctx.need_event('valid-packet-amid-refusals')
    ctx.need_event('nine-octet-numbers-with-the-top-bit-set')
    ctx.need_event('decoded-again-after-editing-the-first-result')
    ctx.need_event('certificate-with-additional-description')
    ctx.need_event('copy-monitored')
    for dec in decs:
        ctx.need_event(f'{dec}:acc/acc')
        ctx.need_event(f'{dec}:rej/rej')
    ctx.extra['overrun_accepted_by_decoder_and_type'] = {f'{d}:{t}': n for (d, t), n in sorted(OVR_TYPES.items())}
    ctx.assumptions = ['critical = odd type number, as the library documents (types <= 31 are not treated as critical)',
                       'legal integer width = 1, 2, 4 or 8 (fixed widths of Nonce/HopLimit not demanded)',
                       'non-minimal var-number encodings are not rejected (not demanded)',
                       f'linear-time clause = at most {STEP_A}*len+{STEP_B} interpreter events (calibrated ~6/byte on valid packets) and at most '
                       f'{COPY_A}*len+{COPY_B} octets copied out of an instrumented bytes/bytearray input (with and without the outer T/L)']
