"""Run by nvf.c15 under `python -O` (and once without): the interpreter's optimisation level is no input of the keychain.
Prints one JSON line: what is left in the store after a short history of creations and deletions."""
import json
import os
import shutil
import sys
import tempfile


def main():
    from ndn.security.keychain.keychain_sqlite3 import KeychainSqlite3
    from ndn.security.tpm.tpm_file import TpmFile
    root = tempfile.mkdtemp(prefix='nvf-kc-opt-')
    out = {}
    try:
        db, tpm = os.path.join(root, 'pib.db'), os.path.join(root, 'tpm')
        os.makedirs(tpm)
        KeychainSqlite3.initialize(db, 'tpm-file', tpm)
        kc = KeychainSqlite3(db, TpmFile(tpm))
        kc.touch_identity('/alice')
        k2 = kc.new_key('/alice', key_type='ec')
        kc.touch_identity('/bob')
        out['keys_before'] = kc.conn.execute('SELECT count(*) FROM keys').fetchone()[0]
        kc.del_key(k2.name)
        out['alice_keys_after_del_key'] = len(kc['/alice'])
        kc.del_identity('/alice')
        out['key_rows'] = kc.conn.execute('SELECT count(*) FROM keys').fetchone()[0]
        out['cert_rows'] = kc.conn.execute('SELECT count(*) FROM certificates').fetchone()[0]
        out['private_key_files'] = len(os.listdir(tpm))
        out['identities'] = kc.conn.execute('SELECT count(*) FROM identities').fetchone()[0]
        kc.touch_identity('/carol')
        out['carol_keys'] = len(kc['/carol'])
        out['optimize'] = sys.flags.optimize
        kc.shutdown()
    except Exception as e:   # noqa
        out['error'] = repr(e)
    finally:
        shutil.rmtree(root, ignore_errors=True)
    print(json.dumps(out))


if __name__ == '__main__':
    main()
