"""C17 - prefix registration speaks the forwarder management protocol correctly.

A scripted forwarder on the recording face decodes every command Interest with refcodec (format
of the front-end in use), records in-flight count and timestamps, and answers per script.
"""
import asyncio
import hashlib
import time as _time

from . import gen, vtime, refcodec as rc
from .boundary import RecFace
from .common import raising_site

from ndn import appv2, app as appv1, types
from ndn.app_support import nfd_mgmt
from ndn.security import KeychainDigest, DigestSha256Signer
from ndn.encoding import make_interest, InterestParam

RULE = ('prefixes from the name generator; forwarder replies {200 with/without body, 400/403/404/500/random with/without body, '
        'Nack, silence, garbage content, wrong content type, bad digest signature}; 1..12 concurrent register/unregister calls '
        'at the same clock reading, normal and jittering clock; route() before connecting over two connections; '
        'ControlResponse values through parse_response; distinct = (front-end, operation, reply kind, concurrency) resp. the '
        'response value shape; non-trivial = every exchange'
        '; route() sets: random nested / permuted prefixes incl. the root, over 2-3 connections of one app, also reconnecting within one clock millisecond (timestamps compared across connections)')

C = lambda s: rc.comp(8, s)   # noqa
REPLIES = ['200', '200-nobody', '400', '403-nobody', '404', '500-nobody', 'random-code', 'nack', 'silence', 'garbage',
           'empty-content', 'no-content', 'wrong-outer', 'bad-signature', '200-extra-fields', '200-unknown-fields-inside', 'empty-signature', 'absent-signature-value',
           'status-200-in-illegal-width', 'status-200-overrunning', '200-body-names-another-prefix', '200-body-without-name']


def control_response(status, text=b'OK', body=None, unknown=None):
    """unknown: optional callable() -> bytes of zero or more unrecognised non-critical elements, called at every gap"""
    u = unknown or (lambda: b'')
    v = u() + rc.enc_tlv(0x66, rc.enc_nni(status)) + u() + rc.enc_tlv(0x67, text) + u()
    if body is not None:
        v += rc.enc_tlv(0x68, body) + u()
    return rc.enc_tlv(0x65, v)


def cp_body(prefix, extra=b''):
    return rc.enc_name(prefix) + rc.enc_tlv(0x69, rc.enc_nni(300)) + rc.enc_tlv(0x6f, b'\x00') + rc.enc_tlv(0x6a, b'\x00') + \
        rc.enc_tlv(0x6c, b'\x01') + extra


class Forwarder:
    def __init__(self, face, fe, script, ctx, rng, S):
        self.face, self.fe, self.script, self.ctx, self.rng, self.S = face, fe, script, ctx, rng, S
        self.commands = []      # dicts
        self.inflight = 0
        self.max_inflight = 0
        self.problems = []
        self.idx = 0
        self.busy_wire = None
        face.on_send = self.on_send

    def decode_command(self, wire):
        p = rc.strict_interest(wire)
        name = p['name']
        if len(name) < 5 or name[:3] != [C(b'localhost'), C(b'nfd'), C(b'rib')]:
            return None
        verb = rc.comp_parts(name[3])[1].decode()
        info = {'verb': verb, 'wire': wire, 'name': name, 't': self.S.now_ms(), 'problems': []}
        t, cpv = rc.comp_parts(name[4])
        try:
            tt, ts, vs, ve = rc.read_tlv(cpv, 0, len(cpv))
            if tt != 0x68 or ve != len(cpv):
                raise rc.Reject('cp-type')
            kids = rc.children(cpv, vs, ve)
            nm = [k for k in kids if k[0] == 7]
            info['prefix'] = rc.read_name(cpv, nm[0][1], nm[0][2], nm[0][3]) if nm else None
            if not nm:
                info['problems'].append('control-parameters-without-name')
        except (rc.Reject, KeyError, IndexError) as e:
            info['problems'].append(f'control-parameters-undecodable')
            info['prefix'] = None
        if self.fe == 'v2':
            # NDN v0.3 signed Interest: params digest + DigestSha256 over the signed portion + SignatureTime
            if len(name) != 6 or rc.comp_parts(name[5])[0] != 2:
                info['problems'].append('not-a-signed-interest-name')
            if p['app_param'] is None or p['sig_info'] is None or p['sig_value'] is None:
                info['problems'].append('signature-elements-missing')
            else:
                if not rc.params_digest_ok(p):
                    info['problems'].append('params-digest-invalid')
                if p['sig_info']['type'] != 0 or hashlib.sha256(p['signed_portion']).digest() != p['sig_value']:
                    info['problems'].append('signature-invalid')
                info['timestamp'] = p['sig_info']['time']
                if p['sig_info']['time'] is None:
                    info['problems'].append('signature-time-missing')
        else:
            # legacy command Interest: .../<CP>/<timestamp>/<nonce>/<SignatureInfo>/<SignatureValue>
            if len(name) != 9:
                info['problems'].append('not-a-legacy-command-name')
            else:
                tsb = rc.comp_parts(name[5])[1]
                info['timestamp'] = int.from_bytes(tsb, 'big') if len(tsb) == 8 else None
                si = rc.comp_parts(name[7])[1]
                sv = rc.comp_parts(name[8])[1]
                try:
                    t1, _, vs1, ve1 = rc.read_tlv(si, 0, len(si))
                    t2, _, vs2, ve2 = rc.read_tlv(sv, 0, len(sv))
                    if t1 != 0x16 or t2 != 0x17 or ve1 != len(si) or ve2 != len(sv):
                        raise rc.Reject('sig-comps')
                    if hashlib.sha256(b''.join(name[:8])).digest() != sv[vs2:ve2]:
                        info['problems'].append('signature-invalid')
                except (rc.Reject, KeyError):
                    info['problems'].append('signature-components-undecodable')
                if info['timestamp'] is None:
                    info['problems'].append('timestamp-missing')
        return info

    def on_send(self, wire):
        try:
            info = self.decode_command(wire)
        except rc.Reject as e:
            self.problems.append(('undecodable-interest', str(e)))
            return
        if info is None:
            return
        self.commands.append(info)
        self.inflight += 1
        self.max_inflight = max(self.max_inflight, self.inflight)
        kind = self.script[self.idx % len(self.script)]
        self.idx += 1
        info['reply'] = kind
        loop = asyncio.get_running_loop()
        delay = self.rng.choice([0, 0, 0.0005, 0.003, 0.02])
        if kind == 'silence':
            delay = 0.999       # never answered: the command is in flight until the application gives it up (command lifetime 1000 ms)
        loop.call_later(delay, self.answer, info, kind)

    def answer(self, info, kind):
        self.inflight -= 1
        name = info['name']
        prefix = info.get('prefix') or []
        sign = lambda b: hashlib.sha256(b).digest()   # noqa
        content = None
        ctype = 0
        if kind == 'silence':
            self.inflight += 0
            return
        if kind == 'nack':
            self.face.deliver_task(rc.make_lp(fragment=info['wire'], nack_reason=self.rng.choice([50, 100, 150])))
            return
        if kind == '200':
            content = control_response(200, b'OK', cp_body(prefix))
        elif kind == '200-nobody':
            content = control_response(200, b'OK')
        elif kind == '200-body-names-another-prefix':
            # status 200 is success whatever the echoed parameters say (a forwarder may normalise / shorten the prefix it registered)
            content = control_response(200, b'OK', cp_body(list(prefix[:-1]) if prefix and self.rng.random() < 0.5 else list(prefix) + [C(b'else')]))
        elif kind == '200-body-without-name':
            content = control_response(200, b'OK', rc.enc_tlv(0x69, rc.enc_nni(300)) + rc.enc_tlv(0x6f, b'\x00'))
        elif kind == '200-unknown-fields-inside':
            # fields of a newer forwarder between the known ones, in the response and in its ControlParameters
            U = lambda t: rc.enc_tlv(t, b'new')   # noqa
            body = U(0xF0) + rc.enc_name(prefix) + U(0x3E8) + rc.enc_tlv(0x69, rc.enc_nni(300)) + U(0xF0) + rc.enc_tlv(0x6f, b'\x00') + \
                rc.enc_tlv(0x6a, b'\x00') + U(0xFFFE) + rc.enc_tlv(0x6c, b'\x01')
            content = rc.enc_tlv(0x65, U(0xF0) + rc.enc_tlv(0x66, rc.enc_nni(200)) + U(0x3E8) + rc.enc_tlv(0x67, b'OK') + U(0xF0) + rc.enc_tlv(0x68, body))
        elif kind == '200-extra-fields':
            content = control_response(200, 'Ωk'.encode(), cp_body(prefix, rc.enc_tlv(0x6d, rc.enc_nni(2**40))) + rc.enc_tlv(0xF0, b'zz'))
        elif kind == 'status-200-in-illegal-width':
            # the StatusCode element is 3 / 5 / 6 / 7 / 0 octets long (no NonNegativeInteger has that width) and reads 200 big-endian
            wd = self.rng.choice([3, 5, 6, 7, 0])
            content = rc.enc_tlv(0x65, rc.enc_tlv(0x66, (200).to_bytes(wd, 'big') if wd else b'') + rc.enc_tlv(0x67, b'OK') + rc.enc_tlv(0x68, cp_body(prefix)))
        elif kind == 'status-200-overrunning':
            # the StatusCode element declares more octets than its parent holds (the last octet present is 200)
            content = rc.enc_tlv(0x65, b'\x66' + bytes([self.rng.choice([2, 4, 8])]) + b'\xc8')
        elif kind == '400':
            content = control_response(400, b'Malformed', cp_body(prefix))
        elif kind == '403-nobody':
            content = control_response(403, b'Unauthorized')
        elif kind == '404':
            content = control_response(404, b'Not found', cp_body(prefix))
        elif kind == '500-nobody':
            content = control_response(500, b'')
        elif kind == 'random-code':
            code = self.rng.choice([0, 1, 199, 201, 299, 65535, 2**32])
            content = control_response(code, b'x', cp_body(prefix) if self.rng.random() < 0.5 else None)
        elif kind == 'garbage':
            content = gen.rand_bytes(self.rng, self.rng.choice([1, 2, 7, 40]))
        elif kind == 'empty-content':
            content = b''
        elif kind == 'no-content':
            content = None
        elif kind == 'wrong-outer':
            content = rc.enc_tlv(0x66, b'\xc8')
        elif kind == 'bad-signature':
            content = control_response(200, b'OK', cp_body(prefix))
            sign = lambda b: bytes(32)   # noqa
        elif kind in ('empty-signature', 'absent-signature-value'):
            # status 200, SignatureInfo says DigestSha256, but the SignatureValue is empty / not there at all: nothing to validate against
            content = control_response(200, b'OK', cp_body(prefix))
            sign = lambda b: b''   # noqa
        d = rc.make_data(name, content=content, content_type=ctype, freshness=1000, sig_type=0, sign=sign)
        if kind == 'absent-signature-value':
            b0, vs0, ve0 = rc.outer(d, 6)
            kids = rc.children(b0, vs0, ve0)
            d = rc.enc_tlv(6, b0[vs0:kids[-1][1]])
        if self.busy_wire is not None:
            # a sequential reader (what DummyFace.input_packet does): the packets are handed over one after the other; in front of the
            # answer comes a signed Interest for a route of the application whose validator takes its time
            async def seq():
                await self.face.deliver(self.busy_wire)
                await self.face.deliver(d)
            asyncio.ensure_future(seq())
            return
        self.face.deliver_task(d)


def expected_result(fe, kind, strict_app_validator=False):
    if fe == 'v1' and strict_app_validator:
        return False        # the legacy front-end validates command responses with the application's data validator: it refuses
    if kind in ('200', '200-nobody', '200-extra-fields', '200-unknown-fields-inside', '200-body-names-another-prefix', '200-body-without-name'):
        return True
    if kind in ('bad-signature', 'empty-signature', 'absent-signature-value'):
        return fe == 'v2'       # v2 commands use pass_all; the legacy front-end validates the digest signature
    return False


def run_exchange(ctx, rng, fe, ops, script, jitter=False):
    """ops: list of (verb, prefix) issued concurrently at the same instant."""
    res = {'viol': [], 'rets': None, 'fw': None}
    reuse_lists = len(ops) > 1 and rng.random() < 0.4
    res['strict'] = fe == 'v1' and rng.random() < 0.15
    res['busy'] = rng.random() < 0.15
    res['neighbour'] = rng.random() < 0.3
    res['bystander'] = rng.choice([[C(b'localhost')], [C(b'localhost'), C(b'nfd')], [C(b'localhost'), C(b'nfd'), C(b'rib')], []]) if rng.random() < 0.2 else None

    async def main(S):
        face = RecFace()
        if fe == 'v2':
            the_app = appv2.NDNApp(face=face)
        else:
            the_app = appv1.NDNApp(face=face, keychain=KeychainDigest())
        fw = Forwarder(face, fe, script, ctx, rng, S)
        res['fw'] = fw
        neighbour = None
        if res['neighbour']:
            # another application object of the same process, created later, connected to ITS OWN forwarder: it registers nothing
            face2 = RecFace()
            neighbour = appv2.NDNApp(face=face2) if fe == 'v2' else appv1.NDNApp(face=face2, keychain=KeychainDigest())
            res['fw2'] = Forwarder(face2, fe, ['200'] * 40, ctx, rng, S)
            n_main = asyncio.ensure_future(neighbour.main_loop())
            await asyncio.sleep(0)
            ctx.event('exchange-beside-another-application-of-the-process')
        if res['strict']:
            # the application trusts nothing that its own validator does not accept - command responses included
            async def refuse(name, sig):
                res['validator_calls'] = res.get('validator_calls', 0) + 1
                return False
            the_app.data_validator = refuse
            ctx.event('exchange-with-strict-application-validator')
        main_task = asyncio.ensure_future(the_app.main_loop())
        await asyncio.sleep(0)
        await asyncio.sleep(0.005)
        if fe == 'v1':
            for verb, prefix in ops:
                # (half of the prefixes to withdraw have a handler attached; the others were announced without one: register(name, None))
                if verb == 'unregister' and rng.random() < 0.5:
                    try:
                        the_app.set_interest_filter(prefix, lambda *a: None)
                    except ValueError:
                        pass

        if res['busy']:
            # another route of the application is busy validating (its validator needs 3 s per signed Interest)
            async def slow_v1(name, sig):
                await asyncio.sleep(3)
                return True

            async def slow_v2(name, sig, context):
                await asyncio.sleep(3)
                return appv2.ValidResult.PASS
            busy = [C(b'busy'), C(b'route')]
            if fe == 'v2':
                the_app.attach_handler(busy, lambda *a, **k: None, slow_v2)
            else:
                the_app.set_interest_filter(busy, lambda *a, **k: None, slow_v1)
            fw.busy_wire = bytes(make_interest(busy + [C(b'q')], InterestParam(nonce=77, lifetime=6000), b'ask', DigestSha256Signer()))
            ctx.event('exchange-while-another-route-validates-slowly')
        bystander = None
        if res['bystander'] is not None:
            # the application has other business with the same name space: a pending CanBePrefix Interest for an ancestor of the
            # command names (a status / notification consumer). The forwarder's answers satisfy it as well - and the commands still
            async def watch():
                try:
                    if fe == 'v2':
                        await the_app.express(res['bystander'], appv2.pass_all, can_be_prefix=True, lifetime=8000, nonce=9)
                    else:
                        async def yes(n, sig):
                            return True
                        await the_app.express_interest(res['bystander'], validator=yes, can_be_prefix=True, lifetime=8000, nonce=9)
                    res['bystander_got'] = True
                except Exception:   # noqa
                    pass
            bystander = asyncio.ensure_future(watch())
            await asyncio.sleep(0)
            ctx.event('exchange-beside-a-pending-prefix-interest-for-an-ancestor')

        args_given = []

        async def one(verb, prefix):
            # the caller's own list object (a NonStrictName): it is edited again as soon as the calls have been started
            arg = [bytes(c) for c in prefix] if reuse_lists else prefix
            if not reuse_lists and rng.random() < 0.25:
                # a NonStrictName may be "a list or iterator of Components": given as a one-shot iterator / generator
                arg = iter(list(prefix)) if rng.random() < 0.5 else (c for c in list(prefix))
                ctx.event('prefix-given-as-a-one-shot-iterator')
            args_given.append(arg)
            try:
                if verb == 'register':
                    fn_ = None
                    if fe == 'v1' and sum(1 for v_, p_ in ops if p_ == prefix) == 1 and rng.random() < 0.5:
                        fn_ = lambda *a_, **k_: None        # noqa  (legacy register() attaches the handler it is given, then announces the prefix)
                        ctx.event('legacy-register-with-a-handler')
                    r = await (the_app.register(arg) if fe == 'v2' else the_app.register(arg, fn_))
                else:
                    r = await the_app.unregister(arg)
                return ('ret', r)
            except BaseException as e:   # noqa
                if isinstance(e, asyncio.CancelledError):
                    raise
                return ('exc', e)
        tasks = [asyncio.ensure_future(one(v, p)) for v, p in ops]
        if reuse_lists:
            await asyncio.sleep(0)          # every call has started (all but one wait for their turn)
            for a_ in args_given:
                if isinstance(a_, list) and a_:
                    a_[-1] = C(b'EDITED-BY-CALLER')
                    a_.append(C(b'x'))
            ctx.event('caller-edits-name-list-after-call')
        rets = await asyncio.gather(*tasks)
        res['rets'] = rets
        if bystander is not None and not bystander.done():
            bystander.cancel()
        the_app.shutdown()
        await asyncio.wait_for(main_task, 5)
        if neighbour is not None:
            neighbour.shutdown()
            await asyncio.wait_for(n_main, 5)

    if jitter:
        # hostile but legal clock: non-decreasing, advances 0..0.6 ms per reading on top of virtual time
        acc = [0.0]
        sc = vtime.Scenario()

        def coro_wrapper(Sx):
            loop = Sx.loop

            def jclock():
                acc[0] += rng.choice([0.0, 0.0, 0.0002, 0.0006])
                return vtime.BASE + loop._vt + vtime.EPS + acc[0]

            def coarse():
                # a wall clock that advances in steps of 1/64 s (the default timer resolution of a common desktop system)
                return vtime.BASE + int(loop._vt * 64) / 64.0 + vtime.EPS
            _time.time = coarse if jitter == 'coarse' else jclock
            return main(Sx)
        S = sc.run(coro_wrapper)
    else:
        S = vtime.run(main)
    fw = res['fw']
    w = {'frontend': fe, 'ops': [(v, [c.hex() for c in p]) for v, p in ops], 'script': script, 'jitter': jitter}
    if res['busy']:
        w['busy_route'] = 'a signed Interest for a route with a 3 s validator is delivered in front of every answer, one packet after the other'
    if res['bystander'] is not None:
        w['pending_prefix_interest'] = [c.hex() for c in res['bystander']]
    if S.result != 'ok':
        ctx.report(f'scenario-{S.result}:{fe}', f'{S.error!r}', w)
        return
    for le in S.sentinel.all():
        ex = le.get('exception')
        ctx.report(f'background-error:{fe}:{type(ex).__name__ if ex else "?"}', f'{le.get("repr")}', w)
    if res.get('fw2') is not None and res['fw2'].commands:
        ctx.report(f'command-sent-on-another-application-connection:{fe}', f'{len(res["fw2"].commands)} command Interests went out on the connection of ANOTHER application '
                   'object of the process (which registered nothing)', w)
    cmds = fw.commands
    if len(cmds) != len(ops):
        ctx.report(f'command-count:{fe}', f'{len(ops)} calls produced {len(cmds)} command Interests', w)
    for pr in fw.problems:
        ctx.report(f'forwarder-cannot-decode:{fe}:{pr[0]}', f'{pr[1]}', w)
    # match calls to commands by (verb, prefix) multiset
    want = sorted((v, tuple(p)) for v, p in ops)
    got = sorted((c['verb'], tuple(c['prefix'] or ())) for c in cmds)
    if want != got and len(cmds) == len(ops):
        ctx.report(f'command-names-wrong-prefix:{fe}', 'control parameters do not name the requested prefixes', dict(w, got=[(g[0], [x.hex() for x in g[1]]) for g in got]))
    for c in cmds:
        for pr in c['problems']:
            ctx.report(f'command-malformed:{fe}:{pr}', f'command Interest for {c["verb"]}: {pr}', dict(w, wire=c['wire']))
    if fw.max_inflight > 1:
        ctx.report(f'commands-not-one-at-a-time:{fe}', f'{fw.max_inflight} commands in flight at once', w)
    ts = [c.get('timestamp') for c in cmds if c.get('timestamp') is not None]
    if any(b <= a for a, b in zip(ts, ts[1:])):
        ctx.report(f'command-timestamps-not-increasing:{fe}' + (':coarse-clock' if jitter == 'coarse' else ':jitter-clock' if jitter else ''),
                   f'timestamps of consecutive commands are not strictly increasing: {ts}', w)
    # return values: the k-th issued command got script[k]; calls complete in command order per (verb,prefix)
    by_key = {}
    for c in cmds:
        by_key.setdefault((c['verb'], tuple(c['prefix'] or ())), []).append(c)
    for (verb, prefix), (rk, rv) in zip(ops, res['rets'] or []):
        lst = by_key.get((verb, tuple(prefix)), [])
        if not lst:
            continue
        # identical (verb,prefix) calls are interchangeable: compare multisets per key below
    for key, lst in by_key.items():
        calls = [(rk, rv) for (verb, prefix), (rk, rv) in zip(ops, res['rets'] or []) if (verb, tuple(prefix)) == key]
        exp = sorted(expected_result(fe, c['reply'], res.get('strict')) for c in lst)
        excs = [rv for rk, rv in calls if rk == 'exc']
        for e in excs:
            kind = ','.join(sorted({c['reply'] for c in lst}))
            ctx.report(f'{key[0]}-raises:{fe}:{type(e).__name__}', f'{key[0]} raised {e!r} (forwarder replies: {kind})', w)
        vals = sorted(bool(rv) for rk, rv in calls if rk == 'ret')
        if not excs and vals != exp and len(calls) == len(lst):
            kinds = sorted(c['reply'] for c in lst)
            ctx.report(f'{key[0]}-result-wrong:{fe}:{"/".join(sorted(set(kinds)))[:60]}', f'{key[0]} returned {vals}, expected {exp} for replies {kinds}', w)
        for c in lst:
            ctx.event(f'reply-{c["reply"]}')
    ctx.case((fe, tuple(v for v, p in ops), tuple(script[:len(ops)]), jitter), nontrivial=True,
             sample=w if ctx.evaluations % 80 == 0 else None)
    ctx.event('exchange')
    if len(ops) > 1:
        ctx.event('concurrent-exchange')


ROUTE_POOL = [[C(b'r'), C(b'one')], [C(b'r'), C(b'two')], [C(b's')], [C(b's'), C(b'cmd')], [C(b's'), C(b'cmd'), C(b'run')], [C(b'sx')],
              [C(b'r')], [C(b't'), C(b'a'), C(b'b')], [C(b't'), C(b'a')],
              # typed-number components whose number is written wider than necessary (a fixed-width version / segment): the URI
              # rendering of such a name is another name, the prefix declared is the octets given
              [C(b'w'), rc.comp(0x36, b'\x00\x00\x00\x05')], [C(b'w'), rc.comp(0x32, b'\x00\x07'), C(b'x')]]


def check_routes(ctx, rng, fe, variant=0):
    """route() before connecting: registered once per connection (whatever the declaration order and however the
    prefixes nest); timestamps keep increasing across reconnections of the same app."""
    res = {}
    fast = variant % 2 == 1
    if variant == 0:
        prefixes = [list(p) for p in ROUTE_POOL[:3]]
    else:
        prefixes = [list(p) for p in rng.sample(ROUTE_POOL, rng.randint(2, 7))]
        if variant % 5 == 4:
            prefixes.insert(rng.randrange(len(prefixes) + 1), [])       # the root prefix

    async def main(S):
        face = RecFace()
        the_app = appv2.NDNApp(face=face) if fe == 'v2' else appv1.NDNApp(face=face, keychain=KeychainDigest())
        for p in prefixes:
            if fe == 'v2':
                the_app.route(p)(lambda n, a, reply, c: None)
            else:
                the_app.route(p)(lambda n, pr, a: None)
        if fe == 'v2' and variant % 4 == 1 and prefixes:
            # before connecting, the application changes its mind about a route (detaches the handler, declares the route again with
            # another one) and declares one route a second time by mistake (refused): still ONE registration per route and connection
            the_app.detach_handler(prefixes[0])
            the_app.route(prefixes[0])(lambda n, a, reply, c: None)
            try:
                the_app.route(prefixes[-1])(lambda n, a, reply, c: None)
            except ValueError:
                pass
            ctx.event('route-declared-again-before-connecting')
        # a handler merely attached (no route(), no register()) is no request for a route: nothing is sent for its prefix
        if fe == 'v2':
            the_app.attach_handler([C(b'only'), C(b'attached')], lambda n, a, reply, c: None)
        else:
            the_app.set_interest_filter([C(b'only'), C(b'attached')], lambda n, pr, a: None)
        ctx.event('handler-attached-without-route-before-connecting')
        counts = []
        stamps = []
        for conn in range(3 if fast else 2):
            fw = Forwarder(face, fe, ['200'], ctx, rng, S)
            if fast:
                fw.rng = type('R0', (), {'choice': staticmethod(lambda seq: seq[0]), 'random': staticmethod(lambda: 0.0)})()   # replies without delay

            late = [C(b'late'), C(b'c%d' % conn)]
            n_declared = [len(prefixes)]

            mid = [C(b'mid'), C(b'c%d' % conn)]

            async def declare_mid():
                # another task of the application declares a route while the start-up registrations are still under way (the
                # first command is out, not all are answered): registered once all the same
                for _ in range(4000):
                    if len(fw.commands) >= 1:
                        break
                    await asyncio.sleep(0.00002 if fast else 0.0005)
                if len(fw.commands) < len(prefixes):
                    ctx.event('route-declared-during-start-up-registration')
                if fe == 'v2':
                    the_app.route(mid)(lambda n, a, reply, c: None)
                else:
                    the_app.route(mid)(lambda n, pr, a: None)
                prefixes.append(mid)
                n_declared[0] += 1
            side = asyncio.ensure_future(declare_mid()) if (variant % 3 == 2 and len(prefixes) >= 2) else None

            async def after():
                if side is not None:
                    await side
                if fast:
                    # everything within one millisecond: the next connection starts in the same clock reading
                    for _ in range(20000):
                        await asyncio.sleep(0.00002)      # the library itself waits for the next clock tick between commands
                        if fw.inflight == 0 and len(fw.commands) >= n_declared[0]:
                            break
                else:
                    await asyncio.sleep(0.2)
                # a route declared while connected is registered right away, once
                if fe == 'v2':
                    the_app.route(late)(lambda n, a, reply, c: None)
                else:
                    the_app.route(late)(lambda n, pr, a: None)
                if fast:
                    # wait (without letting the clock advance) until the forwarder has answered the late registration
                    for _ in range(20000):
                        await asyncio.sleep(0.00002)
                        if fw.inflight == 0 and any(c['prefix'] == late for c in fw.commands):
                            break
                    for _ in range(20):
                        await asyncio.sleep(0)            # the caller of the late registration consumes the answer; the clock stands still
                else:
                    await asyncio.sleep(0.3)
                the_app.shutdown()
            await the_app.main_loop(after())
            prefixes.append(late)
            counts.append(sorted(tuple(c['prefix'] or ()) for c in fw.commands if c['verb'] == 'register'))
            stamps.extend(c.get('timestamp') for c in fw.commands)
            res.setdefault('expected_per_conn', []).append(sorted(tuple(p) for p in prefixes))
            res.setdefault('problems', []).extend(p for c in fw.commands for p in c['problems'])
        res['counts'] = counts
        res['stamps'] = stamps

    S = vtime.run(main)
    w = {'frontend': fe, 'routes': [rc.name_to_uri(p, canonical=True) for p in prefixes], 'same_millisecond': fast}
    if S.result != 'ok':
        ctx.report(f'route-scenario-{S.result}:{fe}', f'{S.error!r}', w)
        return
    for i, cnt in enumerate(res['counts']):
        ctx.event('route-connection')
        ctx.case(('routes', fe, i, tuple(w['routes']), fast))
        exp = res['expected_per_conn'][i]
        if cnt != exp:
            ctx.report(f'routes-not-registered-once-per-connection:{fe}', f'connection {i}: registered {len(cnt)} prefixes, expected each of {len(exp)} once',
                       dict(w, got=[rc.name_to_uri(list(n), canonical=True) for n in cnt]))
    for pr in res.get('problems', []):
        ctx.report(f'command-malformed:{fe}:{pr}', f'route registration command: {pr}', w)
    ts = [t for t in res['stamps'] if t is not None]
    if any(b_ <= a_ for a_, b_ in zip(ts, ts[1:])):
        ctx.report(f'command-timestamps-not-increasing:{fe}:across-connections', f'timestamps over {len(res["counts"])} connections of one app: {ts}', w)
    elif fast:
        ctx.event('reconnect-within-one-millisecond')
    for le in S.sentinel.all():
        ex = le.get('exception')
        ctx.report(f'route-background-error:{fe}:{type(ex).__name__ if ex else "?"}', f'{le.get("repr")}', w)


def check_cancelled_call(ctx, rng):
    """The application gives one register / unregister call up (its task is cancelled, or asyncio.wait_for around it expires) while the
    call waits for its turn or for the forwarder's answer: the calls behind it and every later call still send exactly one
    command each and report the forwarder's answer."""
    for fe in ('v2', 'v1'):
        for rep in range(ctx.n(12, 600)):
            res = {}
            when = rng.choice(['waiting-for-the-answer', 'waiting-for-its-turn', 'wait_for-expires'])
            verb = rng.choice(['register', 'unregister'])

            async def main(S):
                face = RecFace()
                the_app = appv2.NDNApp(face=face) if fe == 'v2' else appv1.NDNApp(face=face, keychain=KeychainDigest())
                fw = Forwarder(face, fe, ['silence'] + ['200'] * 10, ctx, rng, S)
                res['fw'] = fw
                main_task = asyncio.ensure_future(the_app.main_loop())
                await asyncio.sleep(0.005)

                def call(v, pre):
                    if v == 'register':
                        return the_app.register(pre) if fe == 'v2' else the_app.register(pre, None)
                    return the_app.unregister(pre)
                first = asyncio.ensure_future(call(verb, [C(b'first')]))          # never answered
                await asyncio.sleep(0.002)
                if when == 'waiting-for-its-turn':
                    victim = asyncio.ensure_future(call(verb, [C(b'victim')]))    # queued behind the first
                    await asyncio.sleep(0.002)
                    victim.cancel()
                elif when == 'waiting-for-the-answer':
                    victim = first
                    victim.cancel()
                else:
                    victim = asyncio.ensure_future(asyncio.wait_for(call(verb, [C(b'victim')]), 0.01))
                later = asyncio.ensure_future(call('register', [C(b'later')]))
                await asyncio.gather(victim, return_exceptions=True)
                try:
                    res['later'] = await asyncio.wait_for(later, 30)
                except BaseException as e:   # noqa
                    res['later'] = e
                try:
                    res['last'] = await asyncio.wait_for(call('unregister', [C(b'later')]), 30)
                except BaseException as e:   # noqa
                    res['last'] = e
                if not first.done():
                    first.cancel()
                the_app.shutdown()
                await asyncio.wait_for(main_task, 5)
            S = vtime.run(main)
            w = {'frontend': fe, 'given_up_while': when, 'verb': verb}
            ctx.case(('cancelled-call', fe, when, verb), nontrivial=True)
            ctx.event('call-given-up-' + when)
            if S.result != 'ok':
                ctx.report(f'cancelled-call-scenario-{S.result}:{fe}', f'{S.error!r}', w)
                continue
            for k in ('later', 'last'):
                if res.get(k) is not True:
                    ctx.report(f'call-after-a-given-up-call:{fe}:{type(res.get(k)).__name__}', f'after one call was given up while {when}, a later call (answered 200) ended with {res.get(k)!r}', w)
            names = [tuple(c['prefix'] or ()) for c in res['fw'].commands]
            if names.count((C(b'later'),)) != 2:
                ctx.report(f'command-count:{fe}:after-a-given-up-call', f'the two later calls produced {names.count((C(b"later"),))} commands', w)
            if res['fw'].max_inflight > 1 and when != 'waiting-for-the-answer':
                # the given-up call was still queued behind the first (unanswered) command: giving it up frees nothing, the later calls
                # wait until the first one is over
                ctx.report(f'commands-not-one-at-a-time:{fe}:after-a-given-up-call', f'{res["fw"].max_inflight} commands in flight at once after a call was given up while {when}', w)


def check_second_event_loop(ctx, rng):
    """One application object is connected, used and disconnected under one event loop, then again under ANOTHER (a program that
    calls asyncio.run() once per session): concurrent register calls of the second session send their commands and report the
    forwarder's answers like those of the first."""
    for fe in ('v2', 'v1'):
        for rep in range(ctx.n(2, 30)):
            face = RecFace()
            the_app = appv2.NDNApp(face=face) if fe == 'v2' else appv1.NDNApp(face=face, keychain=KeychainDigest())
            for session in (1, 2):
                res = {}

                async def main(S):
                    fw = Forwarder(face, fe, ['200'] * 20, ctx, rng, S)
                    main_task = asyncio.ensure_future(the_app.main_loop())
                    await asyncio.sleep(0.005)
                    calls = [the_app.register([C(b's%d' % session), C(b'p%d' % j)]) if fe == 'v2' else the_app.register([C(b's%d' % session), C(b'p%d' % j)], None) for j in range(3)]
                    res['rets'] = await asyncio.gather(*calls, return_exceptions=True)
                    res['cmds'] = len(fw.commands)
                    res['inflight'] = fw.max_inflight
                    the_app.shutdown()
                    await asyncio.wait_for(main_task, 5)
                S = vtime.run(main)
                w = {'frontend': fe, 'session': session, 'results': [repr(r)[:80] for r in res.get('rets', [])]}
                ctx.case(('second-loop', fe, session, rep % 2), nontrivial=True)
                ctx.event(f'session-{session}-under-its-own-event-loop')
                if S.result != 'ok':
                    ctx.report(f'second-loop-scenario-{S.result}:{fe}', f'{S.error!r}', w)
                    break
                for r in res.get('rets', []):
                    if isinstance(r, BaseException):
                        ctx.report(f'register-raises:{fe}:{type(r).__name__}:second-event-loop', f'register raised {r!r} in session {session} of one application object (each session under its own event loop)', w)
                    elif r is not True:
                        ctx.report(f'register-result-wrong:{fe}:second-event-loop', f'register returned {r!r} for a 200 answer in session {session}', w)
                if res.get('cmds') != 3:
                    ctx.report(f'command-count:{fe}:second-event-loop', f'3 calls produced {res.get("cmds")} commands in session {session}', w)
                if res.get('inflight', 0) > 1:
                    ctx.report(f'commands-not-one-at-a-time:{fe}:second-event-loop', f'{res.get("inflight")} commands in flight at once in session {session}', w)


def check_parse_response(ctx, rng):
    for i in range(ctx.n(400, 400000)):
        status = rng.choice([0, 200, 400, 403, 404, 500, 65535, 2**32, rng.getrandbits(16)])
        text = rng.choice(['', 'OK', 'Not found', 'Ωmega', 'x' * 300])
        fields = {}
        body = None
        # a newer forwarder may add fields: unrecognised non-critical elements (even type numbers >= 32) at any gap
        with_unknown = i % 3 == 1
        n_unknown = [0]

        def unk():
            if with_unknown and rng.random() < 0.35:
                n_unknown[0] += 1
                return rc.enc_tlv(rng.choice([0xF0, 0x3E8, 0xFFFE, 0x8e]), rng.choice([b'', b'\x01', b'future-field']))
            return b''
        if rng.random() < 0.7:
            nm = gen.simple_name(rng, 0, 4)
            body = unk()
            if rng.random() < 0.8:
                body += rc.enc_name(nm) + unk()
                fields['name'] = nm
            for fname, t in (('face_id', 0x69), ('uri', 0x72), ('local_uri', 0x81), ('origin', 0x6f), ('cost', 0x6a), ('capacity', 0x83),
                             ('count', 0x84), ('base_congestion_mark_interval', 0x87), ('default_congestion_threshold', 0x88),
                             ('mtu', 0x89), ('flags', 0x6c), ('mask', 0x70), ('expiration_period', 0x6d)):
                if rng.random() < 0.3:
                    if fname in ('uri', 'local_uri'):
                        v = rng.choice(['udp4://1.2.3.4:6363', '', 'ünï://x'])
                        body += rc.enc_tlv(t, v.encode()) + unk()
                    else:
                        v = rng.choice([0, 1, 255, 256, 65536, 2**32, 2**64 - 1])
                        body += rc.enc_tlv(t, rc.enc_nni(v)) + unk()
                    fields[fname] = v
        wire = control_response(status, text.encode(), body, unknown=unk)
        if n_unknown[0]:
            ctx.event('parse-response-with-unknown-elements')
        w = {'status': status, 'text': text, 'fields': {k: (v if not isinstance(v, list) else [c.hex() for c in v]) for k, v in fields.items()}, 'wire': wire[:300]}
        try:
            r = nfd_mgmt.parse_response(wire)
        except Exception as e:   # noqa
            mech = f'parse-response-raises:{type(e).__name__}' + (':no-body' if body is None else '')
            ctx.report(mech, f'parse_response raised {e!r}', w)
            continue
        ctx.event('parse-response')
        ctx.case(('resp', status.bit_length(), len(text), tuple(sorted(fields))), nontrivial=True)
        if r.get('status_code') != status or r.get('status_text') != text:
            ctx.report('parse-response-status', f'status/text differ: {r.get("status_code")!r} {r.get("status_text")!r}', w)
        for k, v in fields.items():
            got = r.get(k)
            if k == 'name':
                got = None if got is None else [bytes(c) for c in got]
            if got != v:
                ctx.report(f'parse-response-field:{k}', f'field {k}: {got!r} != {v!r}', w)
        if body is not None:
            for k in ('face_id', 'origin', 'cost', 'flags'):
                if k not in fields and r.get(k) is not None:
                    ctx.report(f'parse-response-phantom-field:{k}', f'absent field {k} reported as {r.get(k)!r}', w)


def check_command_scope(ctx, rng):
    """The command name starts with /localhost/nfd when the face leads to a forwarder on this machine (a unix socket, any
    loopback address) and with /localhop/nfd otherwise: a forwarder never sees - hence never answers 200 to - a command sent
    under the wrong scope.  Faces are built, not opened; hosts are numeric (no resolver needed)."""
    from ndn.transport.udp_face import UdpFace
    from ndn.transport.stream_face import UnixFace, TcpFace
    from ndn.app_support.nfd_mgmt import make_command, make_command_v2
    local = ['127.0.0.1', '127.0.1.1', '127.8.9.10', '127.255.255.254', '::1']
    remote = ['10.1.2.3', '192.0.2.7', '8.8.8.8', '128.0.0.1', '2001:db8::1', '::2', '12.7.0.1']
    faces = [('unix', UnixFace('/run/nfd/nfd.sock'), True)]
    for h in local + remote:
        for cls in (UdpFace, TcpFace):
            faces.append((f'{cls.__name__}({h})', cls(h, rng.choice([6363, 7000])), h in local))
    for label, face, is_local in faces:
        prefix = gen.simple_name(rng, 1, 3)
        for fn in (make_command_v2, make_command):
            w = {'face': label, 'builder': fn.__name__}
            try:
                name = fn('rib', rng.choice(['register', 'unregister']), face, name=prefix)
            except Exception as e:   # noqa
                ctx.report(f'command-builder-raises:{type(e).__name__}@{raising_site(e)[0]}', f'{e!r}', w)
                continue
            comps = [bytes(c) for c in name]
            ctx.case(('scope', label, fn.__name__), nontrivial=True)
            ctx.event('command-scope-local' if is_local else 'command-scope-remote')
            want = [C(b'localhost' if is_local else b'localhop'), C(b'nfd'), C(b'rib')]
            if comps[:3] != want:
                ctx.report('command-scope-wrong', f'command for a {"local" if is_local else "remote"} face starts with {rc.name_to_uri(comps[:2], canonical=True)}', w)


def run(ctx):
    ctx.rule = RULE
    rng = ctx.rng
    check_command_scope(ctx, rng)
    n = ctx.n(800, 300000)
    for i in range(n):
        fe = 'v2' if i % 2 == 0 else 'v1'
        k = 1 if rng.random() < 0.55 else rng.randint(2, 12)
        prefixes = [gen.simple_name(rng, 1, 4) for _ in range(rng.randint(1, k))]
        if rng.random() < 0.15:
            prefixes[0] = []          # the root prefix "/" is a prefix too
        ops = []
        for j in range(k):
            ops.append((rng.choice(['register', 'register', 'unregister']), rng.choice(prefixes)))
        if fe == 'v1':
            # the legacy unregister() also removes the local handler: keep at most one unregister per prefix
            seen = set()
            ops2 = []
            for v, p in ops:
                if v == 'unregister':
                    if tuple(p) in seen:
                        v = 'register'
                    seen.add(tuple(p))
                ops2.append((v, p))
            ops = ops2
        if i < 2 * len(REPLIES):
            script = [REPLIES[(i // 2) % len(REPLIES)]]
        else:
            script = [rng.choice(REPLIES) for _ in range(k)]
        run_exchange(ctx, rng, fe, ops, script, jitter=('coarse' if i % 10 == 9 else (i % 5 == 4)))
        if i % 10 == 9:
            ctx.event('exchange-under-a-coarse-clock')
    for fe in ('v2', 'v1'):
        for variant in range(ctx.n(12, 400)):
            check_routes(ctx, rng, fe, variant)
    check_parse_response(ctx, rng)
    check_cancelled_call(ctx, rng)
    check_second_event_loop(ctx, rng)
    for k in ['call-given-up-waiting-for-its-turn', 'call-given-up-waiting-for-the-answer', 'call-given-up-wait_for-expires', 'exchange-with-strict-application-validator', 'parse-response-with-unknown-elements', 'caller-edits-name-list-after-call', 'exchange', 'concurrent-exchange', 'route-connection', 'reconnect-within-one-millisecond', 'parse-response'] + [f'reply-{r}' for r in REPLIES]:
        ctx.need_event(k)
    ctx.need_event('exchange-beside-another-application-of-the-process')
    ctx.need_event('exchange-under-a-coarse-clock')
    ctx.need_event('prefix-given-as-a-one-shot-iterator')
    ctx.need_event('session-2-under-its-own-event-loop')
    ctx.need_event('route-declared-again-before-connecting')
    ctx.assumptions = ['a 200 reply whose signature is bad counts as success in the current front-end (its commands use pass_all) and as failure in the legacy one',
                       'jitter clock: non-decreasing, 0..0.6 ms per reading (a legal wall clock); coarse clock: advances in steps of 1/64 s']
