"""Light VerSec: schema generator (AST -> text) and reference interpreter working on the
generator's AST (no second parser is trusted).

AST
---
schema = {'rules': [rule, ...]}
rule   = {'name': '#r' | '#_t', 'comps': [comp...], 'cons': [[(pat, [option...]), ...], ...], 'signers': ['#k', ...]}
comp   = ('lit', text) | ('pat', ident) | ('ref', '#rule')
option = ('lit', text) | ('pat', ident) | ('fn', '$name', [('lit', text) | ('pat', ident), ...])

Semantics implemented (docs/src/lvs/lvs.rst):
* a rule reference is expanded in place; its component constraints are inherited; a rule may be
  defined several times and have several constraint sets - all are alternatives;
* a named pattern binds one component for the whole match (and is carried from the packet match
  into the key match); every occurrence of a temporary pattern is independent, and a constraint
  on a temporary pattern applies to each of its occurrences in the rule that states it;
* constraints of a pattern are evaluated left to right, at the first component where the pattern
  is matched, against the bindings made so far (a pattern option that is not bound yet fails).
"""
import itertools
import re

from . import refcodec as rc

LIT_TEXTS = ['a', 'b', 'c', 'KEY']


def lit(text):
    # a literal is written as a URI component: "v=1", "seg=0", "32=kw" are typed components, everything else generic text
    if '=' in text:
        return rc.comp_from_uri(text)
    return rc.comp(8, text.encode())


# ------------------------------------------------------------------ printing
def comp_text(c):
    if c[0] == 'lit':
        return '"%s"' % c[1]
    return c[1]


def opt_text(o):
    if o[0] == 'lit':
        return '"%s"' % o[1]
    if o[0] == 'pat':
        return o[1]
    return '%s(%s)' % (o[1], ', '.join(comp_text(a) for a in o[2]))


def rule_text(r):
    s = f"{r['name']}: " + '/'.join(comp_text(c) for c in r['comps'])
    if r['cons']:
        s += ' & ' + ' | '.join('{' + ', '.join(f'{p}: ' + '|'.join(opt_text(o) for o in opts) for p, opts in cs) + '}'
                                for cs in r['cons'])
    if r['signers']:
        s += ' <= ' + ' | '.join(r['signers'])
    return s


def schema_text(schema):
    return '\n'.join(rule_text(r) for r in schema['rules']) + '\n'


# ------------------------------------------------------------------ reference interpreter
class Ref:
    def __init__(self, schema, user_fns):
        self.schema = schema
        self.user_fns = user_fns
        self.defs = {}
        for r in schema['rules']:
            self.defs.setdefault(r['name'], []).append(r)
        self._fresh = itertools.count(1)
        self._alts = {}

    def alternatives(self, rule_name):
        """-> list of (items, constraints) with items = [('lit', comp) | ('pat', key)], key = ('n', ident) for a
        named pattern or ('t', unique) for one occurrence of a temporary pattern; constraints = [(key, options)]."""
        if rule_name not in self._alts:
            out = []
            for d in self.defs[rule_name]:
                out.extend(self._expand_def(d))
            self._alts[rule_name] = out
        return self._alts[rule_name]

    def _expand_def(self, d):
        cons_sets = d['cons'] if d['cons'] else [[]]
        results = []
        for cs in cons_sets:
            # partial alternatives: (items, constraints, own temporaries {ident: [keys]})
            partial = [([], [], {})]
            for c in d['comps']:
                nxt = []
                if c[0] == 'lit':
                    for items, cons, temps in partial:
                        nxt.append((items + [('lit', lit(c[1]))], cons, temps))
                elif c[0] == 'pat':
                    for items, cons, temps in partial:
                        if c[1].startswith('_'):
                            key = ('t', next(self._fresh))
                            t2 = {k: list(v) for k, v in temps.items()}
                            t2.setdefault(c[1], []).append(key)
                            nxt.append((items + [('pat', key)], cons, t2))
                        else:
                            nxt.append((items + [('pat', ('n', c[1]))], cons, temps))
                else:
                    for items, cons, temps in partial:
                        for (ritems, rcons) in self._fresh_alternatives(c[1]):
                            nxt.append((items + ritems, cons + rcons, temps))
                partial = nxt
            for items, cons, temps in partial:
                own = []
                for (p, opts) in cs:
                    if p.startswith('_'):
                        for key in temps.get(p, []):
                            own.append((key, opts))
                    else:
                        own.append((('n', p), opts))
                results.append((items, cons + own))
        return results

    def _fresh_alternatives(self, rule_name):
        """Alternatives of a referenced rule with fresh identities for its temporary patterns."""
        out = []
        for (items, cons) in self.alternatives(rule_name):
            ren = {}

            def f(key):
                if key[0] == 't':
                    if key not in ren:
                        ren[key] = ('t', next(self._fresh))
                    return ren[key]
                return key
            out.append(([(k, f(v)) if k == 'pat' else (k, v) for k, v in items], [(f(k), o) for k, o in cons]))
        return out

    def _opt_ok(self, opt, value, ctx):
        if opt[0] == 'lit':
            return value == lit(opt[1])
        if opt[0] == 'pat':
            return ctx.get(opt[1]) is not None and ctx.get(opt[1]) == value
        args = [lit(a[1]) if a[0] == 'lit' else ctx.get(a[1]) for a in opt[2]]
        return bool(self.user_fns[opt[1]](value, args))

    def match_alt(self, alt, name, ctx0):
        """-> bindings dict (named ident -> component) or None.  ctx0: named bindings carried in."""
        items, cons = alt
        if len(items) != len(name):
            return None
        ctx = dict(ctx0)
        seen_t = set()
        for it, comp in zip(items, name):
            if it[0] == 'lit':
                if it[1] != comp:
                    return None
                continue
            key = it[1]
            if key[0] == 'n':
                ident = key[1]
                if ident in ctx and ctx[ident] != comp:
                    return None
                if ident not in seen_t:
                    # first occurrence in this name: its constraints are evaluated here
                    for (k, opts) in cons:
                        if k == key and not any(self._opt_ok(o, comp, ctx) for o in opts):
                            return None
                    seen_t.add(ident)
                ctx[ident] = comp
            else:
                for (k, opts) in cons:
                    if k == key and not any(self._opt_ok(o, comp, ctx) for o in opts):
                        return None
        return ctx

    def directed_names(self, rng, alphabet, per_alt=4):
        """Names built from the alternatives themselves (so that deep rules are reached): literals as written, patterns
        drawn from the alphabet or - when constrained by literal options - from the options; plus near misses in which
        one component is replaced by another alphabet value or by an option of some constraint in the schema."""
        out = []
        all_opts = [lit(o[1]) for d in self.schema['rules'] for cs in d['cons'] for _, os_ in cs for o in os_ if o[0] == 'lit']
        for rn in self.defs:
            for (items, cons) in self.alternatives(rn):
                for _ in range(per_alt):
                    bound = {}
                    name = []
                    for it in items:
                        if it[0] == 'lit':
                            name.append(it[1])
                            continue
                        key = it[1]
                        if key in bound:
                            name.append(bound[key])
                            continue
                        opts = [lit(o[1]) for k, os_ in cons if k == key for o in os_ if o[0] == 'lit']
                        refs = [bound.get(('n', o[1])) for k, os_ in cons if k == key for o in os_ if o[0] == 'pat']
                        cand = opts + [r for r in refs if r is not None]
                        v = rng.choice(cand) if cand and rng.random() < 0.8 else rng.choice(alphabet)
                        if key[0] == 'n':
                            bound[key] = v
                        name.append(v)
                    out.append(name)
                    # near misses: every position in turn gets another value (a constrained pattern violated at its first, its
                    # middle or its last occurrence alike)
                    for pos in range(len(name)):
                        m = list(name)
                        alts = [v for v in alphabet + all_opts if v != name[pos]]
                        if alts:
                            m[pos] = rng.choice(alts)
                            out.append(m)
        return out

    def match(self, name):
        """-> set of (rule name without temporary suffix, frozenset(named bindings))"""
        out = set()
        for rn in self.defs:
            for alt in self.alternatives(rn):
                b = self.match_alt(alt, name, {})
                if b is not None:
                    out.add((rn, frozenset(b.items())))
        return out

    def check(self, pkt, key):
        for rn, dl in self.defs.items():
            for d in dl:
                if not d['signers']:
                    continue
                for alt in self._expand_def(d):
                    b = self.match_alt(alt, pkt, {})
                    if b is None:
                        continue
                    for s in d['signers']:
                        for kalt in self.alternatives(s):
                            if self.match_alt(kalt, key, b) is not None:
                                return True
        return False

    def literals(self):
        out = set()

        def walk_opts(opts):
            for o in opts:
                if o[0] == 'lit':
                    out.add(o[1])
                elif o[0] == 'fn':
                    for a in o[2]:
                        if a[0] == 'lit':
                            out.add(a[1])
        for r in self.schema['rules']:
            for c in r['comps']:
                if c[0] == 'lit':
                    out.add(c[1])
            for cs in r['cons']:
                for p, opts in cs:
                    walk_opts(opts)
        return sorted(out)

    def max_len(self):
        return max((len(a[0]) for rn in self.defs for a in self.alternatives(rn)), default=0)


# ------------------------------------------------------------------ generator
# the application's own functions.  '$eq' and '$eq_type' deliberately differ from the library's built-ins of the same names (which are
# only defaults an application may pass): whatever the application hands to Checker() is what the schema's calls mean
USER_FNS = {
    '$eq': lambda c, args: len(args) > 0 and any(x is not None and bytes(x) == bytes(c) for x in args),
    '$eq_type': lambda c, args: all(x is not None and len(bytes(x)) == len(bytes(c)) for x in args),
    '$is_a_or_b': lambda c, args: bytes(c) in (lit('a'), lit('b')),
    '$not': lambda c, args: all(x is None or bytes(x) != bytes(c) for x in args),
    # order-sensitive: a user function receives its arguments in the order they are written in the schema
    '$first': lambda c, args: len(args) > 0 and args[0] is not None and bytes(args[0]) == bytes(c),
}
# independent transcription of the library's built-in functions (what a Checker uses when the application hands it the
# library's DEFAULT_USER_FNS): $eq - the component equals every argument; $eq_type - it has the TLV type of every argument
DEFAULT_REF_FNS = {
    '$eq': lambda c, args: all(x is not None and bytes(x) == bytes(c) for x in args),
    '$eq_type': lambda c, args: all(x is not None and rc_type(x) == rc_type(c) for x in args),
}


def rival_fns(fns):
    """The same function NAMES bound to other pure functions: what another application (tenant, trust zone) of the same process
    hands to ITS checker."""
    return {k: (lambda c, args, f=f: not f(c, args)) for k, f in fns.items()}


REENTER = {'checker': None, 'names': [], 'busy': False, 'calls': 0}


def reentrant_fns(fns):
    """User functions that consult the checker they belong to from inside the call (is this component also a name some rule
    describes?) before they answer."""
    def wrap(f):
        def g(c, args):
            ck = REENTER['checker']
            if ck is not None and not REENTER['busy']:
                REENTER['busy'] = True
                try:
                    for nm in REENTER['names']:
                        for _ in ck.match(nm):
                            pass
                    REENTER['calls'] += 1
                finally:
                    REENTER['busy'] = False
            return f(c, args)           # (the arguments are looked at after the checker was consulted)
        return g
    return {k: wrap(f) for k, f in fns.items()}


def rc_type(comp):
    from . import refcodec as rc
    return rc.comp_parts(bytes(comp))[0]


def fns_for(schema):
    """-> (functions handed to the library's Checker, functions of the reference interpreter)"""
    if schema.get('default_fns'):
        from ndn.app_support.light_versec.checker import DEFAULT_USER_FNS
        return DEFAULT_USER_FNS, DEFAULT_REF_FNS
    return USER_FNS, USER_FNS


PAT_NAMES = ['x', 'y', 'z']
TEMP_NAMES = ['_', '_t']


def patterns_of(schema_rules, rule, acc=None, seen=None):
    """Named patterns occurring in the rule's own name or (transitively) in rules it references, in order."""
    acc = acc if acc is not None else []
    seen = seen if seen is not None else set()
    for c in rule['comps']:
        if c[0] == 'pat' and not c[1].startswith('_') and c[1] not in acc:
            acc.append(c[1])
        elif c[0] == 'ref' and c[1] not in seen:
            seen.add(c[1])
            for d in schema_rules:
                if d['name'] == c[1]:
                    patterns_of(schema_rules, d, acc, seen)
    return acc


def gen_schema(rng, with_signers=False, n_rules=None, allow_fn=True, defect24_class=False):
    """A statically clean schema.  Rule i may only reference rules j < i (acyclic); with signers, a rule
    may only be signed by rules of a strictly higher 'level', and every rule name starts with a literal
    that is unique to its level, so that no name pattern can be its own signer."""
    n = n_rules or rng.randint(2, 7)
    rules = []
    names = []
    levels = {}
    first_idx = {}
    for i in range(n):
        is_temp = rng.random() < 0.12
        redefine = (not is_temp) and names and rng.random() < 0.18
        if redefine:
            rname = rng.choice([x for x in names if not x.startswith('#_')] or ['#r%d' % i])
        else:
            rname = ('#_t%d' % i) if is_temp else ('#r%d' % i)
        level = levels.get(rname, rng.randint(0, 2) if with_signers else 0)
        comps = []
        if with_signers:
            comps.append(('lit', 'L%d' % level))
        k = rng.randint(1, 4)
        first_idx.setdefault(rname, i)
        refs_ok = sorted(x for x in set(names[:first_idx[rname]]) if not x.startswith('#_') and x != rname)
        for _ in range(k):
            r = rng.random()
            if r < 0.33:
                comps.append(('lit', rng.choice(LIT_TEXTS)))
            elif r < 0.62:
                comps.append(('pat', rng.choice(PAT_NAMES)))
            elif r < 0.78:
                comps.append(('pat', rng.choice(TEMP_NAMES)))
            elif refs_ok:
                comps.append(('ref', rng.choice(refs_ok)))
                if rng.random() < 0.3:
                    comps.append(('ref', comps[-1][1]))      # the same rule referenced twice
            else:
                comps.append(('lit', rng.choice(LIT_TEXTS)))
        rule = {'name': rname, 'comps': comps, 'cons': [], 'signers': []}
        named = patterns_of(rules + [rule], rule)
        own_temps = sorted({c[1] for c in comps if c[0] == 'pat' and c[1].startswith('_')})
        if (named or own_temps) and rng.random() < 0.6:
            for _ in range(rng.choice([1, 1, 2])):
                cs = []
                used = set()
                for _ in range(rng.choice([1, 1, 2])):
                    p = rng.choice(named + own_temps)
                    if p in used and rng.random() < 0.6:
                        continue            # otherwise: the same pattern constrained twice in one set (both must hold)
                    used.add(p)
                    opts = []
                    for _ in range(rng.choice([1, 1, 2, 3])):
                        r = rng.random()
                        if r < 0.5:
                            opts.append(('lit', rng.choice(LIT_TEXTS)))
                        elif r < 0.75 and named:
                            # mostly patterns that are bound before p (a later one can never be satisfied)
                            earlier = named[:named.index(p)] if p in named else list(named)
                            cand = earlier if (earlier and rng.random() < 0.8) else [q for q in named if q != p]
                            if cand:
                                opts.append(('pat', rng.choice(cand)))
                            else:
                                opts.append(('lit', rng.choice(LIT_TEXTS)))
                        elif allow_fn:
                            fn = rng.choice(list(USER_FNS))
                            args = []
                            for _ in range(rng.choice([0, 1, 2])):
                                if named and rng.random() < 0.5:
                                    earlier = named[:named.index(p)] if p in named else list(named)
                                    args.append(('pat', rng.choice(earlier if (earlier and rng.random() < 0.8) else named)))
                                else:
                                    args.append(('lit', rng.choice(LIT_TEXTS)))
                            opts.append(('fn', fn, args))
                        else:
                            opts.append(('lit', rng.choice(LIT_TEXTS)))
                    cs.append((p, opts))
                if cs:
                    rule['cons'].append(cs)
        if len(named) >= 3 and rng.random() < 0.2:
            # alternative sets that constrain the same pattern by the same function / option kind with different earlier patterns
            pi = rng.randrange(2, len(named))
            e1, e2 = rng.sample(named[:pi], 2)
            kind = rng.choice(['fn', 'fn', 'pat'])
            fn = rng.choice(['$eq', '$not'])
            if kind == 'fn':
                rule['cons'] = [[(named[pi], [('fn', fn, [('pat', e1)])])], [(named[pi], [('fn', fn, [('pat', e2)])])]]
            else:
                rule['cons'] = [[(named[pi], [('pat', e1)])], [(named[pi], [('pat', e2)])]]
        elif rule['cons'] and rng.random() < 0.35:
            # a second constraint set that differs from an existing one in a single literal / pattern / function argument
            import copy as _copy
            cs = _copy.deepcopy(rng.choice(rule['cons']))
            p_i = rng.randrange(len(cs))
            pname, opts = cs[p_i]
            o_i = rng.randrange(len(opts))
            o = opts[o_i]
            others = [q for q in named if q != pname]
            if o[0] == 'lit':
                opts[o_i] = ('lit', rng.choice([t for t in LIT_TEXTS if t != o[1]]))
            elif o[0] == 'pat' and len(others) > 1:
                opts[o_i] = ('pat', rng.choice([q for q in others if q != o[1]] or others))
            elif o[0] == 'fn' and o[2]:
                a_i = rng.randrange(len(o[2]))
                a = o[2][a_i]
                args = list(o[2])
                if a[0] == 'pat' and named:
                    args[a_i] = ('pat', rng.choice([q for q in named if q != a[1]] or named))
                else:
                    args[a_i] = ('lit', rng.choice([t for t in LIT_TEXTS if a[0] != 'lit' or t != a[1]]))
                opts[o_i] = ('fn', o[1], args)
            rule['cons'].append(cs)
        rules.append(rule)
        names.append(rname)
        levels[rname] = level
        pat_pos = [j for j, c in enumerate(comps) if c[0] == 'pat']
        if with_signers and not is_temp and len(pat_pos) >= 2 and rng.random() < 0.3:
            # a second rule of the same shape whose named patterns sit at other positions: one packet name then matches
            # two signed rules with different bindings for the same pattern name
            import copy as _copy
            twin = _copy.deepcopy(rule)
            twin['name'] = '#v%d' % i
            vals = [twin['comps'][j] for j in pat_pos]
            vals = vals[1:] + vals[:1]
            for j, v_ in zip(pat_pos, vals):
                twin['comps'][j] = v_
            twin['cons'] = []
            first_idx.setdefault(twin['name'], i)
            rules.append(twin)
            names.append(twin['name'])
            levels[twin['name']] = level
        if not is_temp and rng.random() < 0.2 and i + 1 < n:
            # the same name pattern and constraints once more (same or another rule id): with signers the two definitions
            # end in one tree node and may list different signers
            import copy as _copy
            twin = _copy.deepcopy(rule)
            if rng.random() < 0.5:
                twin['name'] = '#w%d' % i
                first_idx.setdefault(twin['name'], i)
            twin['cons'] = twin['cons'] if rng.random() < 0.7 else []
            rules.append(twin)
            names.append(twin['name'])
            levels[twin['name']] = level
    if with_signers:
        real = sorted({x for x in names if not x.startswith('#_')})
        for r in rules:
            higher = [x for x in real if levels[x] > levels[r['name']]]
            if higher and rng.random() < 0.8:
                r['signers'] = sorted(set(rng.sample(higher, rng.randint(1, min(2, len(higher))))))
    return {'rules': rules}


def alt_counts(schema):
    """Number of alternatives and maximal name length per rule, computed without materialising the expansions
    (nested doubled references grow exponentially).  -> (total alternatives, max length)"""
    defs = {}
    for r in schema['rules']:
        defs.setdefault(r['name'], []).append(r)
    memo = {}

    def cnt(rn, depth=0):
        if rn in memo:
            return memo[rn]
        if depth > 50 or rn not in defs:
            return (1, 0)
        total, mlen = 0, 0
        for d in defs[rn]:
            c, ln = max(1, len(d['cons'])), 0
            for comp in d['comps']:
                if comp[0] == 'ref':
                    rc_, rl = cnt(comp[1], depth + 1)
                    c *= rc_
                    ln += rl
                else:
                    ln += 1
                if c > 10**9:
                    c = 10**9
            total += c
            mlen = max(mlen, ln)
        memo[rn] = (total, mlen)
        return memo[rn]
    tot, ml = 0, 0
    for rn in defs:
        c, l_ = cnt(rn)
        tot += c
        ml = max(ml, l_)
    return tot, ml


def name_arg(rng, name):
    """The name as an application may hand it to Checker.match / check: list of encoded components, URI string, encoded Name, tuple,
    or a list that mixes encoded and textual components (NonStrictName)."""
    if not name:
        return '/'
    k = rng.randrange(6)
    if k == 0:
        return [bytes(c) for c in name]
    if k == 1:
        return rc.name_to_uri(list(name), canonical=True)
    if k == 2:
        return rc.enc_name(list(name))
    if k == 3:
        return tuple(bytes(c) for c in name)
    if k == 4:
        # encoded first, textual later (e.g. Name.from_str(prefix) + ['file', 'a.txt']); the last one encoded
        return [bytes(c) if (i == 0 or i == len(name) - 1) else rc.comp_to_canonical_uri(c) for i, c in enumerate(name)]
    return [rc.comp_to_canonical_uri(c) if i % 2 == 0 else bytearray(c) for i, c in enumerate(name)]


def all_names(alphabet, max_len, limit, rng):
    """All names of length 1..max_len over the alphabet (sampled when more than limit)."""
    total = sum(len(alphabet) ** k for k in range(1, max_len + 1))
    if total <= limit:
        for k in range(1, max_len + 1):
            for t in itertools.product(alphabet, repeat=k):
                yield list(t)
    else:
        for _ in range(limit):
            k = rng.randint(1, max_len)
            yield [rng.choice(alphabet) for _ in range(k)]


STRIP_TMP = re.compile(r'#\d+$')
INTERIOR = re.compile(r'^#_\d+$')


# ------------------------------------------------------------------ template schemas
def template_schemas(rng, with_signers):
    """Small schemas built around structures where the compiler / checker bookkeeping is delicate; literal and
    pattern names are drawn at random so that the numbering and sorting differ from run to run."""
    lits = rng.sample(LIT_TEXTS, 3)
    a, b, c = lits
    p1, p2, p3 = rng.sample(PAT_NAMES, 3)
    R = lambda name, comps, cons=None, signers=None: {'name': name, 'comps': comps, 'cons': cons or [], 'signers': signers or []}   # noqa
    L = lambda t: ('lit', t)   # noqa
    P = lambda t: ('pat', t)   # noqa
    out = []
    # a certificate hierarchy: one key-name rule with several temporaries (one of them constrained) referenced by many
    # rules that have temporaries of their own, so that the compiler hands out dozens of temporary numbers
    nlev = rng.randint(9, 13)
    hier = [R('#K', [L('KEY'), P('_i'), P('_k'), P('_v')], [[(rng.choice(['_i', '_k', '_v']), [L(a), L(b)])]]),
            R('#net', [L(c)]), R('#site', [('ref', '#net'), P('_s')])]
    for i in range(nlev):
        mid = []
        for j in range(rng.randint(0, 3)):
            mid.append(rng.choice([L('L%d' % (j % 3)), P('_m'), P('_m%d' % j), P('_')]))
        hier.append(R('#c%d' % i, [('ref', rng.choice(['#net', '#site']))] + mid + [('ref', '#K')], None,
                      (['#c%d' % (i - 1)] if (with_signers and i > 0) else [])))
    if with_signers:
        hier.append(R('#pkt', [('ref', '#site'), L('L0'), P('_d')], None, ['#c%d' % (nlev - 1)]))
    out.append({'rules': hier})
    if not with_signers:
        # shared prefix binding p1; one branch repeats p1 and fails, the sibling relies on p1 still being bound
        out.append({'rules': [R('#r1', [P(p1), P(p1), L(a)]), R('#r2', [P(p1), P(p2), P(p1)]), R('#r3', [P(p1), P(p2), P(p2), L(b)])]})
        out.append({'rules': [R('#r1', [L(a), P(p1), P(p2), P(p1)]), R('#r2', [L(a), P(p1), P(p1)]), R('#r3', [L(a), P(p1), L(b), P(p1)])]})
        # the same rule referenced twice / three times, with constrained temporaries and a redefinition using the same spelling
        out.append({'rules': [R('#k', [L(a), P('_v')], [[('_v', [L(b), L(c)])]]), R('#pair', [('ref', '#k'), ('ref', '#k')]),
                              R('#tri', [('ref', '#k'), P(p1), ('ref', '#k'), ('ref', '#k')])]})
        out.append({'rules': [R('#r', [L(a), P('_x')], [[('_x', [L(b)])]]), R('#r', [L(b), P('_x'), P('_x')], [[('_x', [L(a), L(c)])]]),
                              R('#u', [('ref', '#r'), P(p1)])]})
        # alternative sets that differ in one function argument / option only
        out.append({'rules': [R('#alt', [L(a), P(p1), P(p2), P(p3)], [[(p3, [('fn', '$eq', [P(p1)])])], [(p3, [('fn', '$eq', [P(p2)])])]]),
                              R('#alt2', [L(b), P(p1), P(p2), P(p3)], [[(p3, [P(p1)])], [(p3, [P(p2)])]])]})
        out.append({'rules': [R('#s1', [L(a), P(p1), P(p2)], [[(p2, [('fn', '$not', [P(p1)])])]]), R('#s2', [L(a), P(p1), P(p2)], [[(p2, [('fn', '$not', [L(b)])])]]),
                              R('#s3', [L(a), P(p1), P(p2)], [[(p2, [L(b), P(p1)])]])]})
        # same options in the same order, once as alternatives of one constraint and once as separate constraints
        out.append({'rules': [R('#m1', [L(a), P(p1), L(b)], [[(p1, [L(a), L(b)])]]), R('#m2', [L(a), P(p1), L(c)], [[(p1, [L(a)]), (p1, [L(b)])]])]})
        out.append({'rules': [R('#m1', [L(a), P(p1), L(b)], [[(p1, [L(a), L(b)]), (p1, [L(b), L(c)])]]), R('#m2', [L(a), P(p1), L(c)], [[(p1, [L(a), L(b), L(b), L(c)])]]),
                              R('#m0', [L(a), P(p1), L(a)], [[(p1, [L(a)]), (p1, [L(b), L(b), L(c)])]])]})
        out.append({'rules': [R('#m1', [P(p1), P('_t'), L(b)], [[('_t', [L(a), P(p1)])]]), R('#m2', [P(p1), P('_t'), L(c)], [[('_t', [L(a)]), ('_t', [P(p1)])]])]})
        # inherited + added constraints on the same pattern
        out.append({'rules': [R('#base', [P(p1), L(a)], [[(p1, [L(b), L(c)])]]), R('#ext', [('ref', '#base'), P(p2)], [[(p1, [L(c), L(a)]), (p2, [P(p1)])]])]})
        # an inherited constraint that offers a literal OR a pattern, an added one whose literals share nothing with that literal, and
        # a second alternative set: the name that satisfies the inherited constraint through its pattern option matches
        out.append({'rules': [R('#r1', [P(p1), P(p2)], [[(p2, [L(a), P(p1)])]]), R('#r2', [('ref', '#r1'), L(c)], [[(p2, [L(b)])], [(p2, [L(a)])]])]})
        out.append({'rules': [R('#r1', [P(p1), P(p2)], [[(p2, [L(a), ('fn', '$eq', [P(p1)])])]]), R('#r1', [P(p1), P(p2)], [[(p2, [L(c)])]]),
                              R('#r2', [('ref', '#r1'), P(p3)], [[(p2, [L(b), L(c)]), (p3, [P(p2)])]])]})
    else:
        k1, k2 = '#k1', '#k2'
        # one packet name matches two signed rules that bind the shared pattern differently
        out.append({'rules': [R('#own', [L('L0'), P(p1), P('_'), P('_')], None, [k1]), R('#shr', [L('L0'), P('_'), P(p1), P('_')], None, [k2]),
                              R(k1, [L('L1'), P(p1)]), R(k2, [L('L2'), P(p1), L(a)])]})
        out.append({'rules': [R('#own', [L('L0'), P(p1), P(p2)], None, [k1]), R('#shr', [L('L0'), P(p2), P(p1)], None, [k1, k2]),
                              R(k1, [L('L1'), P(p1), P(p2)]), R(k2, [L('L2'), P(p2)])]})
        # two definitions ending in one node with different signers; a signer-less definition of the same shape
        out.append({'rules': [R('#cfg', [L('L0'), P(p1), P(p2)], None, [k1]), R('#aud', [L('L0'), P(p1), P(p2)], None, [k2]),
                              R('#zzz', [L('L0'), P(p1), P(p2)]), R(k1, [L('L1'), P(p1)]), R(k2, [L('L2'), L(a)])]})
        # key rule constraining a pattern carried over from the packet; constraint referring to a packet-bound pattern
        out.append({'rules': [R('#pkt', [L('L0'), P(p1)], None, [k1]), R(k1, [L('L1'), P(p1)], [[(p1, [L(a), L(b)])]])]})
        out.append({'rules': [R('#pkt', [L('L0'), P(p1), P(p2)], None, [k1]), R(k1, [L('L1'), P(p3)], [[(p3, [P(p2)])]], ['#root']),
                              R('#root', [L('L2')])]})
        # key rules with a common prefix whose next pattern carries the same options grouped differently (a|b vs a, b)
        out.append({'rules': [R('#pkt', [L('L0'), P(p2)], None, [k1, k2]), R(k1, [L('L1'), P(p1), L(a)], [[(p1, [L(a), L(b)])]]),
                              R(k2, [L('L1'), P(p1), L(b)], [[(p1, [L(a)]), (p1, [L(b)])]])]})
        out.append({'rules': [R('#pkt', [L('L0'), P(p2)], None, [k1, k2]), R(k2, [L('L1'), P(p1), L(a)], [[(p1, [L(a), L(b)]), (p1, [L(b), L(c)])]]),
                              R(k1, [L('L1'), P(p1), L(b)], [[(p1, [L(a), L(b), L(b), L(c)])]])]})
        # a signer-less definition that embeds a signed rule does not inherit that rule's signers (and vice versa)
        out.append({'rules': [R('#prof', [L('L0'), P(p1)], None, [k1]), R('#note', [('ref', '#prof'), L(a), P('_')]), R(k1, [L('L1'), P(p1)]),
                              R('#memo', [('ref', '#prof'), L(b)], None, [k2]), R(k2, [L('L2'), P(p1)])]})
        # a rule with a constrained temporary referenced twice (three times) inside one key rule / one packet rule
        out.append({'rules': [R('#seg', [L(a), P('_v')], [[('_v', [L(b), L(c)])]]), R(k1, [L('L1'), ('ref', '#seg'), ('ref', '#seg')]),
                              R('#pkt', [L('L0'), P(p1)], None, [k1])],
                    # each reference has its own temporary: the two may take different allowed values; each is constrained
                    'probes': [(['L0', 'zz'], ['L1', a, b, a, c]), (['L0', 'zz'], ['L1', a, c, a, b]), (['L0', 'zz'], ['L1', a, b, a, b]),
                               (['L0', 'zz'], ['L1', a, b, a, 'zz']), (['L0', 'zz'], ['L1', a, 'zz', a, c]), (['L0', 'zz'], ['L1', a, 'zz', a, 'zz'])]})
        # one temporary name used twice in a rule, with a constraint: every occurrence is constrained (and they are independent)
        out.append({'rules': [R(k1, [L('L1'), P('_r'), P(p1), P('_r')], [[('_r', [L(a), L(b)])]]), R('#pkt', [L('L0'), P(p1)], None, [k1])],
                    'probes': [(['L0', 'zz'], ['L1', a, 'zz', b]), (['L0', 'zz'], ['L1', b, 'zz', b]), (['L0', 'zz'], ['L1', c, 'zz', a]),
                               (['L0', 'zz'], ['L1', 'zz', 'zz', b]), (['L0', 'zz'], ['L1', a, 'zz', c]), (['L0', 'zz'], ['L1', a, 'zz', 'zz']),
                               (['L0', 'zz'], ['L1', a, b, a])]})
        out.append({'rules': [R('#seg', [P('_v'), L(a)], [[('_v', [L(b), P(p1)])]]), R(k1, [L('L1'), P(p1), ('ref', '#seg'), ('ref', '#seg'), ('ref', '#seg')]),
                              R('#pkt', [L('L0'), ('ref', '#seg'), P(p1), ('ref', '#seg')], None, [k1])]})
        # a signer rule defined twice, one definition sorting before the signed rule and one after it (by their literals)
        out.append({'rules': [R('#ed', [L(a), L('L1'), P(p1)]), R('#ed', [L(a), L('L3'), P(p1)]), R('#ed', [L(a), L('L5'), P(p1), L(b)]),
                              R('#art', [L(a), L('L2'), P(p1), P('_')], None, ['#ed']), R('#art2', [L(a), L('L4'), P(p1)], None, ['#ed'])],
                    'probes': [([a, 'L2', 'zz', c], [a, 'L1', 'zz']), ([a, 'L2', 'zz', c], [a, 'L3', 'zz']), ([a, 'L2', 'zz', c], [a, 'L5', 'zz', b]),
                               ([a, 'L4', 'zz'], [a, 'L1', 'zz']), ([a, 'L4', 'zz'], [a, 'L3', 'zz']), ([a, 'L4', 'zz'], [a, 'L5', 'zz', b]),
                               ([a, 'L2', 'zz', c], [a, 'L3', c]), ([a, 'L4', 'zz'], [a, 'L2', 'zz', c])]})
        # the key-name match backs out of a dead-end branch in which it had re-used a pattern bound by the packet name; the sibling
        # branch uses that pattern again further down
        out.append({'rules': [R('#pkt', [L('L0'), P(p1)], None, [k1, k2]), R(k1, [L('L1'), P(p1), L(a), L(b)]),
                              R(k2, [L('L1'), P(p2), L(a), L(c), P(p1)])]})
        out.append({'rules': [R('#pkt', [L('L0'), P(p1), P(p3)], None, [k1, k2]), R(k1, [L('L1'), P(p1), P(p3), L(b)]),
                              R(k2, [L('L1'), P(p2), P('_'), L(c), P(p3), P(p1)])]})
        # a rule that is defined a second time further down, AFTER rules that embed it (everything else is defined before it is used):
        # the embedding rules mean both definitions
        out.append({'rules': [R('#root', [L('L2'), P('_')]), R('#zone', [L(a), P(p1)]), R('#zk', [('ref', '#zone'), L('KEY'), P('_')], None, ['#root']),
                              R('#rec', [('ref', '#zone'), L(b), P('_')], None, ['#zk']), R('#zone', [L(a), P(p1), P(p2)])],
                    'probes': [([a, 'zz', c, b, 'zz'], [a, 'zz', c, 'KEY', 'zz']), ([a, 'zz', b, 'zz'], [a, 'zz', 'KEY', c]), ([a, 'zz', c, 'KEY', 'zz'], ['L2', 'zz']),
                               ([a, 'zz', 'KEY', 'zz'], ['L2', c]), ([a, 'zz', c, b, 'zz'], [a, 'zz', 'KEY', 'zz']), ([a, 'zz', c, b, 'zz'], [a, 'zz', b, 'KEY', 'zz'])]})
        # the shared pattern is the highest-numbered named pattern; temporaries next to it
        out.append({'rules': [R('#pkt', [L('L0'), P(p1), P(p2), P('_')], None, [k1]), R(k1, [L('L1'), P(p1), P(p2)], None, [k2]),
                              R(k2, [L('L2'), P('_'), P(p2)])]})
    if with_signers:
        # the application's OWN '$eq' (true if ANY argument equals) and '$eq_type' (true if every argument has the component's LENGTH)
        # differ from the library's built-ins of the same names: what the application handed to the checker is what the calls mean
        out.append({'rules': [R('#pkt', [L('L0'), P(p1)], None, ['#k1', '#k2']),
                              R('#k1', [L('L1'), P(p2)], [[(p2, [('fn', '$eq', [L(a), L(b)])])]]),
                              R('#k2', [L('L2'), P(p2)], [[(p2, [('fn', '$eq_type', [L('zz')])])]])],
                    'probes': [(['L0', 'zz'], ['L1', a]), (['L0', 'zz'], ['L1', b]), (['L0', 'zz'], ['L1', c]), (['L0', 'zz'], ['L2', a]), (['L0', 'zz'], ['L2', 'zz']),
                               (['L0', 'zz'], ['L2', 'KEY'])]})
        # a constraint whose only option names a pattern that is matched LATER in the same name is not satisfiable where it is checked
        # (documented); the mirror-image constraint (the later pattern constrained by the earlier one) is
        out.append({'rules': [R('#pkt', [L('L0'), P(p3)], None, ['#k1', '#k2']),
                              R('#k1', [L('L1'), P(p1), P(p2)], [[(p1, [P(p2)])]]),
                              R('#k2', [L('L2'), P(p1), P(p2)], [[(p2, [P(p1)])]])],
                    'probes': [(['L0', 'zz'], ['L1', a, a]), (['L0', 'zz'], ['L1', a, b]), (['L0', 'zz'], ['L2', a, a]), (['L0', 'zz'], ['L2', a, b]),
                               (['L0', 'zz'], ['L1', 'zz', 'zz']), (['L0', 'zz'], ['L2', 'zz', 'zz'])]})
    # schemas that use the library's built-in functions only, checked with the library's DEFAULT_USER_FNS: one and two arguments,
    # patterns and literals, typed literals for $eq_type
    if not with_signers:
        out.append({'default_fns': True, 'rules': [
            R('#d1', [L(a), P(p1), P(p2), P(p3)], [[(p3, [('fn', '$eq', [P(p1), P(p2)])])]]),
            R('#d2', [L(b), P(p1), P(p2)], [[(p2, [('fn', '$eq', [P(p1)]), ('fn', '$eq', [L(c), L(c)])])]]),
            R('#d3', [L(c), P(p1), P(p2)], [[(p2, [('fn', '$eq_type', [P(p1)])]), (p1, [('fn', '$eq', [L(a), L(b)]), L(c)])]])]})
    else:
        out.append({'default_fns': True, 'rules': [
            R('#pkt', [L('L0'), P(p1), P(p2), P('_')], None, ['#k1']),
            R('#k1', [L('L1'), P(p3), L('KEY'), P('_')], [[(p3, [('fn', '$eq', [P(p1), P(p2)])])]], ['#k2']),
            R('#k2', [L('L2'), P(p3)], [[(p3, [('fn', '$eq', [P(p1)]), ('fn', '$eq_type', [L(a), P(p2)])])]])]})
    # literals written in typed URI form (version, segment, keyword, explicit type number) in names, options and function arguments
    if not with_signers:
        out.append({'rules': [R('#rel', [L(a), L('v=1'), P(p1)]), R('#sg', [L(b), P(p1), P(p2)], [[(p1, [L('seg=0'), L('32=kw'), L(c)]), (p2, [('fn', '$eq', [L('v=2')])])]]),
                              R('#gen', [L(a), L('8=v%3D1'), P(p1)])]})
    else:
        out.append({'rules': [R('#pkt', [L('L0'), L('v=1'), P(p1)], None, ['#k1']), R('#k1', [L('L1'), P(p1), P(p2)], [[(p2, [L('seg=0'), L('32=kw')])]])]})
    if not with_signers:
        # an option names a pattern that the rule itself never binds - the rules that embed it bind it in front of the reference
        out.append({'rules': [R('#inner', [P(p1), L(a)], [[(p1, [P(p2), L(b)])]]), R('#outer', [P(p2), ('ref', '#inner')]),
                              R('#deep', [L(c), ('ref', '#outer')]), R('#fn', [P(p3), L(b)], [[(p3, [('fn', '$eq', [P(p2)]), L(c)])]]),
                              R('#ofn', [P(p2), ('ref', '#fn')])]})
    if not with_signers:
        # the same call with its arguments written in either order (pattern first / literal first)
        out.append({'rules': [R('#o1', [L(a), P(p1), P(p2)], [[(p2, [('fn', '$first', [P(p1), L(b)])])]]),
                              R('#o2', [L(a), P(p1), P(p2), L(c)], [[(p2, [('fn', '$first', [L(b), P(p1)])])]]),
                              R('#o3', [L(b), P(p1), P(p2), P(p3)], [[(p3, [('fn', '$first', [P(p2), L(a), P(p1)])])]])]})
    if not with_signers:
        # alternatives of ONE rule that bind the same pattern names to different components of one name
        out.append({'rules': [R('#pair', [P(p1), P('_')]), R('#pair', [P('_'), P(p1)]), R('#trio', [L(a), P(p1), P(p2), P('_')]),
                              R('#trio', [L(a), P(p2), P('_'), P(p1)]), R('#trio', [L(a), P('_'), P(p1), P(p2)])]})
    # more than ten distinct named patterns in one schema (pattern numbers with two digits), spread over short rules; every group
    # of patterns carries a relation of its own, so whichever group the compiler numbers last is exercised
    many = ['q%02d' % i for i in rng.sample(range(40), 15)]
    g1, g2, g3 = many[:5], many[5:10], many[10:]
    if not with_signers:
        out.append({'rules': [R('#w%d' % j, [L(t)] + [P(x) for x in g[:4]], [[(g[3], [P(g[2])]), (g[0], [P(g[1]), L(b)])]]) for j, (t, g) in enumerate(((a, g1), (b, g2), (c, g3)))] +
                             [R('#t%d' % j, [L(t), P(g[4]), P(g[0]), P(g[4]), L(a)]) for j, (t, g) in enumerate(((a, g1), (b, g2), (c, g3)))]})
    else:
        out.append({'rules': [R('#p%d' % j, [L('L0'), L(t)] + [P(x) for x in g[:4]], None, ['#k%d' % j]) for j, (t, g) in enumerate(((a, g1), (b, g2), (c, g3)))] +
                             [R('#k%d' % j, [L('L1'), L(t), P(g[3]), P(g[0])], None, ['#root']) for j, (t, g) in enumerate(((a, g1), (b, g2), (c, g3)))] +
                             [R('#root', [L('L2')])]})
        out.append({'rules': [R('#p%d' % j, [L('L0'), L(t), P(g[0]), P(g[1]), P(g[2])], None, ['#k%d' % j]) for j, (t, g) in enumerate(((a, g1), (b, g2), (c, g3)))] +
                             [R('#k%d' % j, [L('L1'), L(t), P(g[3]), P(g[4])], [[(g[3], [P(g[1]), L(a)]), (g[4], [P(g[2])])]]) for j, (t, g) in enumerate(((a, g1), (b, g2), (c, g3)))]})
    return out
