"""Seeded generators and TLV-structural mutators (own code; every function takes the rng)."""
from . import refcodec as rc

COMP_TYPES = [8, 8, 8, 8, 1, 2, 32, 50, 52, 54, 56, 58, 3, 9, 252, 253, 254, 255, 256, 1000, 65535]
BORING_TYPES = [8, 8, 8, 32, 50, 54, 9, 253, 65535]
RESERVED = b"/?#[]@!$&'()*+,;=:% \x00\xff\x7f.~-_"


def rand_bytes(rng, n):
    return bytes(rng.getrandbits(8) for _ in range(n)) if n < 64 else rng.randbytes(n)


def comp_value(rng, typ=8):
    k = rng.random()
    if typ in (1, 2) and k < 0.9:
        return rand_bytes(rng, 32)
    if typ in (50, 52, 54, 56, 58) and k < 0.8:
        n = rng.choice([0, 1, 255, 256, 65535, 65536, 2**32 - 1, 2**32, 2**64 - 1, rng.getrandbits(rng.randint(1, 64))])
        return rc.enc_nni(n)
    if k < 0.12:
        return b''
    if k < 0.30:
        return bytes([rng.randrange(256)])
    if k < 0.45:
        return bytes(rng.choice(RESERVED) for _ in range(rng.randint(1, 5)))
    if k < 0.55:
        return rng.choice([b'.', b'..', b'...', b'....', b'a.b', b'%', b'%41', b'=', b'8=a', b'seg=1', b'v=2'])
    if k < 0.85:
        return bytes(rng.choice(b'abcdefghijklmnopqrstuvwxyzABCXYZ0123456789-_.~') for _ in range(rng.randint(1, 12)))
    if k < 0.97:
        return rand_bytes(rng, rng.randint(1, 20))
    return rand_bytes(rng, rng.choice([252, 253, 254, 300]))


def component(rng, types=COMP_TYPES):
    t = rng.choice(types)
    return rc.comp(t, comp_value(rng, t))


def name(rng, lo=0, hi=8, types=COMP_TYPES):
    return [component(rng, types) for _ in range(rng.randint(lo, hi))]


def simple_name(rng, lo=1, hi=5):
    """Names without digest components (usable anywhere)."""
    return [component(rng, BORING_TYPES) for _ in range(rng.randint(lo, hi))]


def boundary_lengths():
    """Lengths around every TLV length-of-length transition."""
    out = set()
    for c in (0, 1, 2, 252, 253, 254, 255, 256, 65535, 65536):
        for d in range(-3, 4):
            if c + d >= 0:
                out.add(c + d)
    return sorted(out)


# ---------------------------------------------------------------- structural mutation
def tlv_tree(buf, start=0, end=None, depth=0, max_depth=6):
    """Parse buf[start:end] generically into a list of nodes
    (type, tlv_start, value_start, value_end, children|None).  Children are attempted when the
    value itself parses as a clean TLV sequence."""
    if end is None:
        end = len(buf)
    try:
        kids = rc.children(buf, start, end)
    except (rc.Reject, KeyError):
        return None
    out = []
    for (t, ts, vs, ve) in kids:
        sub = None
        if depth < max_depth and ve > vs:
            sub = tlv_tree(buf, vs, ve, depth + 1, max_depth)
        out.append((t, ts, vs, ve, sub))
    return out


def flat_nodes(tree, path=()):
    """[(path, node)] depth first."""
    out = []
    if not tree:
        return out
    for i, n in enumerate(tree):
        out.append((path + (i,), n))
        if n[4]:
            out.extend(flat_nodes(n[4], path + (i,)))
    return out


def rebuild(buf, tree):
    """Re-encode a (possibly edited) tree, recomputing all enclosing lengths."""
    out = b''
    for n in tree:
        if isinstance(n, bytes):
            out += n
            continue
        t, ts, vs, ve, sub = n
        if sub is not None:
            out += rc.enc_tlv(t, rebuild(buf, sub))
        else:
            out += rc.enc_tlv(t, buf[vs:ve])
    return out


def _edit(tree, path, fn):
    """Return a copy of tree where the sibling list containing path[-1] is replaced by fn(list, idx)."""
    if len(path) == 1:
        lst = list(tree)
        return fn(lst, path[0])
    lst = list(tree)
    t, ts, vs, ve, sub = lst[path[0]]
    lst[path[0]] = (t, ts, vs, ve, _edit(sub, path[1:], fn))
    return lst


def structural_mutants(rng, wire, limit=None, unknown_types=(0x0F01, 0x0F00)):
    """Yield (label, bytes).  Consistent-length edits (enclosing lengths recomputed): delete,
    duplicate, swap with next sibling, insert unknown critical / non-critical element at a gap.
    Inconsistent edits: each length field +-1 and big, truncation."""
    wire = bytes(wire)
    tree = tlv_tree(wire)
    if not tree:
        return
    nodes = flat_nodes(tree)
    muts = []
    crit, noncrit = unknown_types
    for path, n in nodes:
        if len(path) == 1:
            continue   # keep the outer element
        muts.append(('delete', path))
        muts.append(('dup', path))
        muts.append(('swap', path))
        muts.append(('ins-crit-before', path))
        muts.append(('ins-known-crit-before', path))
        muts.append(('ins-noncrit-before', path))
        muts.append(('ins-noncrit-after', path))
        muts.append(('len+1', path))
        muts.append(('len-1', path))
        muts.append(('len-big', path))
        muts.append(('empty', path))
        muts.append(('cut-varnum', path))
    rng.shuffle(muts)
    if limit is not None:
        muts = muts[:limit]
    for kind, path in muts:
        node = dict(nodes)[path]
        t, ts, vs, ve, sub = node
        if kind == 'delete':
            new = _edit(tree, path, lambda l, i: l[:i] + l[i + 1:])
        elif kind == 'dup':
            new = _edit(tree, path, lambda l, i: l[:i + 1] + [l[i]] + l[i + 1:])
        elif kind == 'swap':
            def sw(l, i):
                if i + 1 < len(l):
                    l[i], l[i + 1] = l[i + 1], l[i]
                return l
            new = _edit(tree, path, sw)
        elif kind == 'ins-crit-before':
            new = _edit(tree, path, lambda l, i: l[:i] + [rc.enc_tlv(crit, b'\x01')] + l[i:])
        elif kind == 'ins-known-crit-before':
            # a critical type that the packet format (or an earlier revision of it) knows - but not at this place
            t2 = rng.choice([0x1f, 0x1f, 0x07, 0x15, 0x17, 0x19, 0x1b, 0x1d, 0x21, 0x23, 0x25, 0x27, 0x29, 0x2b, 0x2d, 0x0321, 0x0335, 0x33, 0x35])
            body = rng.choice([b'', b'\x01', rc.enc_name([rc.comp(8, b'd')]), rc.enc_tlv(0x1e, b'\x01') + rc.enc_name([rc.comp(8, b'd')])])
            new = _edit(tree, path, lambda l, i: l[:i] + [rc.enc_tlv(t2, body)] + l[i:])
        elif kind == 'ins-noncrit-before':
            new = _edit(tree, path, lambda l, i: l[:i] + [rc.enc_tlv(noncrit, b'\x01\x02')] + l[i:])
        elif kind == 'ins-noncrit-after':
            new = _edit(tree, path, lambda l, i: l[:i + 1] + [rc.enc_tlv(noncrit, b'')] + l[i + 1:])
        elif kind == 'empty':
            new = _edit(tree, path, lambda l, i: l[:i] + [rc.enc_tlv(t, b'')] + l[i + 1:])
        elif kind == 'cut-varnum':
            # the parent ends in the middle of a multi-octet Type or Length number (3-, 5- or 9-octet form cut short);
            # enclosing lengths are recomputed, so only the cut number itself is ill-formed
            marker, full = rng.choice([(0xFD, 2), (0xFE, 4), (0xFE, 4), (0xFF, 8), (0xFF, 8)])
            tail = bytes([marker]) + bytes(rng.choice([0, 0, 1, 0x61, 0xFF]) for _ in range(rng.randrange(full)))
            if rng.random() < 0.7:
                tt = t if rng.random() < 0.5 else rng.choice([0x15, 0x24, 0x21, 0x12, 0x0F00, 0x50, 0x08, 0x16])
                tail = rc.enc_var(tt) + tail          # the Length number is cut; otherwise the Type number is
            keep = rng.random() < 0.5
            new = _edit(tree, path, lambda l, i: l[:i + 1 if keep else i] + [tail])
        else:
            # inconsistent length edit directly on the bytes (only when the length is one byte)
            tl = rc.var_size(t)
            lpos = ts + tl
            if wire[lpos] >= 253:
                continue
            cur = wire[lpos]
            if kind == 'len+1':
                nv = cur + 1
            elif kind == 'len-1':
                nv = cur - 1
            else:
                nv = 252
            if nv < 0 or nv > 252 or nv == cur:
                continue
            yield (f'{kind}@{"/".join(map(str, path))}', wire[:lpos] + bytes([nv]) + wire[lpos + 1:])
            continue
        yield (f'{kind}@{"/".join(map(str, path))}', rebuild(wire, new))


def fix_outer(wire):
    """Make the outer T/L consistent with the byte count (what a stream face guarantees)."""
    wire = bytes(wire)
    try:
        t, p = rc.read_var(wire, 0, len(wire))
        ln, q = rc.read_var(wire, p, len(wire))
    except (rc.Reject, KeyError):
        return None
    return rc.enc_var(t) + rc.enc_var(len(wire) - q) + wire[q:]


def byte_mutants(rng, wire, per_pos=1, max_positions=None):
    wire = bytes(wire)
    pos = list(range(len(wire)))
    if max_positions is not None and len(pos) > max_positions:
        pos = sorted(rng.sample(pos, max_positions))
    for i in pos:
        seen = set()
        for _ in range(per_pos):
            v = rng.randrange(256)
            if v == wire[i] or v in seen:
                v = wire[i] ^ (1 << rng.randrange(8))
            seen.add(v)
            yield (f'byte@{i}', wire[:i] + bytes([v]) + wire[i + 1:])


def truncations(wire):
    wire = bytes(wire)
    for i in range(len(wire)):
        yield (f'trunc@{i}', wire[:i])
