"""C19 - segmented fetch yields every segment once, in order, tolerating bounded loss.

A scripted producer on the recording face answers (or drops) each Interest according to a
generated script; the yielded sequence, the final outcome and the number of attempts per segment
are compared with a small model.
"""
import asyncio
import itertools

from . import vtime, refcodec as rc
from .boundary import RecFace

from ndn import app as appv1, types
from ndn.app_support.segment_fetcher import segment_fetcher
from ndn.encoding import make_data, MetaInfo
from ndn.security import KeychainDigest, DigestSha256Signer

LEVEL = 'fault_enumeration'

RULE = ('object sizes 1..8 segments (incl. empty contents) and unsegmented objects, with/without a version component, every '
        'discovery answer (segment k / unsegmented), loss patterns 0..retry+1 per request relative to retry_times in {1,2,3}, '
        'final-block marker on every segment or on the last only, Nack / validation failure injected at each position; '
        'the name given in every accepted form (list, tuple, URI, encoded, one-shot generator / iterator); 2-3 fetchers of one '
        'object on one application started at different instants against a producer with a response delay, judged by a '
        'discrete-event model (per-fetcher loss scripts); distinct = the full script; non-trivial = more than one segment or some loss/fault')

C = lambda s: rc.comp(8, s)   # noqa
SEG = lambda n: rc.comp(0x32, rc.enc_nni(n))   # noqa


def model(sc):
    """-> (yielded contents, outcome, attempts {key: n})   key: 'disc' or segment number"""
    R = max(1, sc['retry'])        # (retry_times=0, 'do not retry', is one attempt)
    att = {}
    out = []

    def fetch(key):
        loss = sc['loss'].get(str(key), 0)
        att[key] = att.get(key, 0) + min(loss + 1, R)
        if loss >= R:
            return 'timeout'
        if sc.get('fault') and sc['fault'][0] == key:
            return sc['fault'][1]
        return 'ok'
    r = fetch('disc')
    if r != 'ok':
        return out, r, att
    if sc['n'] == 0:
        return [b'U'], 'done', att
    last = sc['n'] - 1
    k = sc['disc_answer']
    if k == 0:
        out.append(content(0))
        if last == 0:
            return out, 'done', att
        n = 1
    else:
        n = 0
    while True:
        r = fetch(n)
        if r != 'ok':
            return out, r, att
        out.append(content(n))
        if n == last:
            return out, 'done', att
        n += 1


def final_marker(mode, n, last):
    """FinalBlockId carried by segment n.  'every': the true last segment in every Data; 'last': only in the last one; 'estimate': a
    producer that does not know the end yet announces a moving estimate (a later segment, never itself) until the real last segment,
    which names itself - the segment "designated final" is the one that names itself."""
    if mode == 'early-only':
        # the producer announces the final segment in the first segments only (segment 0 and 1) and never again: the consumer
        # remembers what it was told
        return SEG(last) if n <= 1 else None
    if mode == 'every' or n == last:
        return SEG(last)
    if mode == 'estimate':
        return SEG(min(last, n + 2)) if n + 2 <= last else SEG(last)
    if mode == 'other-type':
        # a FinalBlockId that is no segment component (a sequence-number / generic component whose number happens to be this
        # segment's): it names no segment of the object, the fetch goes on until the segment that names itself
        return rc.comp(0x3a, rc.enc_nni(n)) if n % 2 == 0 else rc.comp(8, bytes([n]))
    return None


def content(n):
    return b'' if n == 3 else b'seg-%d' % n


def execute(sc):
    R = {'yielded': [], 'outcome': None, 'requests': {}}
    prefix = [C(b'obj')]
    ver = [rc.comp(0x36, b'\x07')] if sc['version'] else []
    last = sc['n'] - 1

    async def main(S):
        face = RecFace()
        the_app = appv1.NDNApp(face=face, keychain=KeychainDigest())
        main_task = asyncio.ensure_future(the_app.main_loop())
        await asyncio.sleep(0)
        seen = {}
        nonces = set()

        def seg_data(n):
            fb = final_marker(sc['marker'], n, last)
            # producers of other libraries omit the optional ContentType element for BLOB content
            mi = MetaInfo(final_block_id=fb, freshness_period=sc.get('fresh', 10)) if sc.get('ctype', 'encoded') == 'encoded' else \
                MetaInfo(content_type=None, final_block_id=fb, freshness_period=sc.get('fresh', 10))
            return bytes(make_data(prefix + ver + [SEG(n)], mi, content(n), DigestSha256Signer()))

        def on_send(wire):
            try:
                p = rc.strict_interest(wire)
            except rc.Reject:
                return
            name = p['name']
            if name == prefix:
                key = 'disc'
            elif name[:-1] == prefix + ver and rc.comp_parts(name[-1])[0] == 0x32:
                key = int.from_bytes(rc.comp_parts(name[-1])[1], 'big')
                if name[-1] != SEG(key):
                    # the network matches names octet by octet: a segment number in another width names no published packet
                    key = ('other', tuple(name))
            else:
                key = ('other', tuple(name))
            R['requests'][key] = R['requests'].get(key, 0) + 1
            seen[key] = seen.get(key, 0) + 1
            # the peer is a forwarder: an Interest repeating the (name, nonce) of one it has seen is a duplicate, not a re-request
            dup_key = (tuple(name), p['nonce'])
            if p['nonce'] is not None and dup_key in nonces:
                R['duplicate_nonce'] = R.get('duplicate_nonce', 0) + 1
                asyncio.get_running_loop().call_soon(face.deliver_task, rc.make_lp(fragment=wire, nack_reason=100))
                return
            nonces.add(dup_key)
            if seen[key] <= sc['loss'].get(str(key), 0):
                return                                   # lost
            fault = sc.get('fault')
            if fault and fault[0] == key and fault[1] == 'nack':
                asyncio.get_running_loop().call_soon(face.deliver_task, rc.make_lp(fragment=wire, nack_reason=sc.get('nack_reason', 150)))
                return
            if key == 'disc':
                if sc['n'] == 0:
                    # an unsegmented object: ONE Data under the prefix; its last component is the publisher's business (a sequence
                    # number, a flag octet plus a counter, ...) - a generic component is no segment number whatever its octets are
                    tail_ = [rc.comp(8, bytes.fromhex(sc['unseg_tail']))] if sc.get('unseg_tail') else []
                    d = bytes(make_data(prefix + ver + tail_, MetaInfo(freshness_period=10), b'U', DigestSha256Signer()))
                else:
                    d = seg_data(sc['disc_answer'])
            elif isinstance(key, int) and 0 <= key <= last:
                d = seg_data(key)
            else:
                return
            if sc.get('resp_delay'):
                asyncio.get_running_loop().call_later(sc['resp_delay'] / 1000.0, face.deliver_task, d)      # (a producer some milliseconds away)
            else:
                asyncio.get_running_loop().call_soon(face.deliver_task, d)
        face.on_send = on_send

        vcount = [0]

        async def validator(name, sig):
            # the verdict depends on the *Data name* the validator is given (as a real trust policy does)
            vcount[0] += 1
            first = vcount[0] == 1          # the first validated Data is always the discovery answer
            fault = sc.get('fault')
            nm = [bytes(c) for c in name]
            R.setdefault('validated_names', []).append(nm)
            if fault and fault[1] == 'valfail':
                if fault[0] == 'disc':
                    disc_name = prefix + ver + ([SEG(sc['disc_answer'])] if sc['n'] else ([rc.comp(8, bytes.fromhex(sc['unseg_tail']))] if sc.get('unseg_tail') else []))
                    return not (first and nm == disc_name)
                if not first and nm == prefix + ver + [SEG(fault[0])]:
                    return False
            return True

        form = sc.get('name_form', 'list')
        name_arg = {'list': lambda: list(prefix), 'tuple': lambda: tuple(prefix), 'uri': lambda: rc.name_to_uri(prefix, canonical=True),
                    'encoded': lambda: rc.enc_name(prefix), 'generator': lambda: (c for c in prefix), 'iterator': lambda: iter(list(prefix)),
                    'list-str': lambda: [rc.comp_to_canonical_uri(c) for c in prefix]}[form]()
        # a validator is anything that, called with (name, signature pointers), returns an awaitable: a coroutine function, a
        # lambda / partial that forwards to one, an object with an async __call__
        vform = sc.get('validator_form', 'function')
        if vform == 'lambda':
            inner_v = validator
            validator = lambda n_, s_: inner_v(n_, s_)   # noqa
        elif vform == 'partial':
            import functools

            async def v3(tag, n_, s_, inner_v=validator):
                return await inner_v(n_, s_)
            validator = functools.partial(v3, 'tag')
        elif vform == 'object':
            class V:
                def __init__(self, f):
                    self.f = f

                async def __call__(self, n_, s_):
                    return await self.f(n_, s_)
            validator = V(validator)
        kw = {'validator': validator}
        if sc.get('validator_via') == 'app-default':
            # no validator argument: the application-wide data validator is the one in force (documented default)
            the_app.data_validator = validator
            kw = {}
        if sc.get('clock_step'):
            # the wall clock is set forwards / backwards while the fetch is under way (NTP step, resume from suspend): lifetimes are
            # durations, they do not end because the date changed
            for t_, secs_ in sc['clock_step']:
                asyncio.get_running_loop().call_later(t_ / 1000.0, S.step_wall, secs_)
        if sc.get('abandon_first') is not None:
            # an earlier consumer of the same object on this application stopped after a few segments (left its loop and closed the
            # generator, or its task was cancelled in the middle): the fetch that follows is a fetch like any other
            async def earlier():
                got_ = 0
                g_ = segment_fetcher(the_app, list(prefix), timeout=100, retry_times=sc['retry'], validator=validator)
                try:
                    async for _c in g_:
                        got_ += 1
                        if got_ >= sc['abandon_first'][1] and sc['abandon_first'][0] == 'break':
                            break
                    else:
                        R['earlier_ended_normally_after'] = got_
                finally:
                    try:
                        await g_.aclose()
                    except BaseException:   # noqa
                        pass
            et = asyncio.ensure_future(earlier())
            if sc['abandon_first'][0] == 'cancel':
                await asyncio.sleep(0.002 + 0.004 * sc['abandon_first'][1])
                et.cancel()
            await asyncio.gather(et, return_exceptions=True)
            if sc['abandon_first'][0] == 'cancel' and R.get('earlier_ended_normally_after') is not None and R['earlier_ended_normally_after'] < sc['n']:
                R['truncated_as_complete'] = R['earlier_ended_normally_after']
            await asyncio.sleep(0.3)         # (every Interest of the abandoned fetch has run out)
            R['requests'].clear()
            seen.clear()
            vcount[0] = 0
            R.pop('validated_names', None)
        try:
            async for c in segment_fetcher(the_app, name_arg, timeout=100, retry_times=sc['retry'], **kw):
                R['yielded'].append(None if c is None else bytes(c))
                if len(R['yielded']) > max(50, sc['n'] + 20):
                    R['outcome'] = 'runaway'
                    break
            if R['outcome'] is None:
                R['outcome'] = 'done'
        except types.InterestTimeout:
            R['outcome'] = 'timeout'
        except types.InterestNack:
            R['outcome'] = 'nack'
        except types.ValidationFailure:
            R['outcome'] = 'valfail'
        except Exception as e:   # noqa
            R['outcome'] = f'error:{type(e).__name__}'
        the_app.shutdown()
        await asyncio.wait_for(main_task, 5)

    S = vtime.run(main)
    return R, S


def gen_script(rng):
    n = rng.choice([0, 1, 1, 2, 3, 4, 5, 8])
    retry = rng.choice([1, 2, 3, 0])          # (0: "do not retry" - one attempt, like 1)
    sc = {'n': n, 'retry': retry, 'version': rng.random() < 0.5, 'marker': rng.choice(['every', 'last', 'estimate', 'other-type', 'early-only']), 'fresh': rng.choice([10, 10, 0, None]),
          'disc_answer': rng.randrange(n) if n else 0, 'loss': {}, 'fault': None,
          'name_form': rng.choice(['list', 'list', 'tuple', 'uri', 'encoded', 'generator', 'iterator', 'list-str']),
          'validator_via': rng.choice(['argument', 'argument', 'app-default']), 'ctype': rng.choice(['encoded', 'encoded', 'omitted']),
          'validator_form': rng.choice(['function', 'function', 'lambda', 'partial', 'object'])}
    if n == 0 and rng.random() < 0.7:
        sc['unseg_tail'] = rng.choice(['0005', '000001', '0000000007', '000000000000000009', '00', 'fd00', '3200', '7365673d31'])
    keys = ['disc'] + list(range(n))
    for k in keys:
        if rng.random() < 0.35:
            sc['loss'][str(k)] = rng.randint(1, retry + 1) if rng.random() < 0.3 else rng.randint(1, max(1, retry - 1))
    if rng.random() < 0.25:
        sc['fault'] = (rng.choice(keys), rng.choice(['nack', 'valfail']))
        sc['nack_reason'] = rng.choice([0, 0, 50, 100, 150, 300])
    return sc


def judge(ctx, sc, R, S):
    w = {'script': sc, 'observed': {'yielded': R['yielded'], 'outcome': R['outcome'], 'requests': {str(k): v for k, v in R['requests'].items()}}}
    if S.result != 'ok':
        ctx.report(f'scenario-{S.result}', f'{S.error!r}', w)
        return
    for le in S.sentinel.all():
        ex = le.get('exception')
        ctx.report(f'background-error:{type(ex).__name__ if ex else "?"}', f'{le.get("repr")}', w)
    if R.get('truncated_as_complete') is not None:
        ctx.report('cancelled-fetch-ends-like-a-complete-object', f'a consumer task cancelled in the middle of a fetch saw its loop over the object END NORMALLY after '
                   f'{R["truncated_as_complete"]} of {sc["n"]} segments (a truncated object taken for complete; the cancellation swallowed)', w)
    exp_out, exp_res, exp_att = model(sc)
    for nm in R.get('validated_names', []):
        if sc['n'] and (len(nm) < 2 or rc.comp_parts(nm[-1])[0] != 0x32):
            ctx.report('validator-not-given-the-data-name', 'the validator was called with a name that is not the name of the received Data',
                       dict(w, given=[c.hex() for c in nm]))
            break
    fault = sc.get('fault')
    # validation failure on the discovery answer when it is segment k != 0: the model treats 'disc' as the faulted request
    if R['yielded'] != exp_out:
        mech = 'segments-not-in-order-once'
        if len(R['yielded']) < len(exp_out):
            mech = 'segments-missing'
        elif len(R['yielded']) > len(exp_out):
            mech = 'segments-extra-or-duplicated'
        ctx.report(mech, f'yielded {R["yielded"]}, expected {exp_out}', w)
    if R['outcome'] != exp_res:
        ctx.report(f'fetch-outcome:expected={exp_res},got={R["outcome"]}', f'fetch ended with {R["outcome"]}, expected {exp_res}', w)
    got_att = {k: v for k, v in R['requests'].items()}
    if got_att != exp_att:
        ctx.report('attempts-per-segment', f'Interests per request {got_att}, expected {exp_att}', w)
    ctx.event('outcome-' + str(R['outcome']))
    ctx.event('marker-' + sc['marker'])
    ctx.event('freshness-' + str(sc.get('fresh', 10)))
    ctx.event('name-form-' + sc.get('name_form', 'list'))
    ctx.event('validator-via-' + sc.get('validator_via', 'argument'))
    ctx.event('content-type-' + sc.get('ctype', 'encoded'))
    ctx.event('validator-form-' + sc.get('validator_form', 'function'))
    if sc.get('name_form') in ('generator', 'iterator') and sc['loss'].get('disc'):
        ctx.event('one-shot-name-with-lost-discovery')
    ctx.case(repr(sorted(sc.items(), key=str)), nontrivial=sc['n'] > 1 or bool(sc['loss']) or bool(fault),
             sample=w if ctx.evaluations % 300 == 1 else None)


# ---------------------------------------------------------------- several fetchers on one application
TIMEOUT = 100


def model_concurrent(sc):
    """Discrete-event model of k fetchers of one object on one application (integer milliseconds).
    -> (per fetcher {'yielded', 'outcome'}, requests {(f, key): n}, tie)   tie: an expiry and a matching arrival coincide"""
    import heapq
    n, last, R, d = sc['n'], sc['n'] - 1, sc['retry'], sc['delay']
    F = [{'phase': None, 'want': None, 'trial': 0, 'expire': None, 'yielded': [], 'outcome': None, 'token': 0} for _ in sc['starts']]
    req = {}
    ev = []
    order = [0]
    tie = [False]
    data_times = set()

    def push(t, kind, payload):
        order[0] += 1
        heapq.heappush(ev, (t, order[0], kind, payload))

    def express(f, t):
        st = F[f]
        key = st['want']
        req[(f, key)] = req.get((f, key), 0) + 1
        st['token'] += 1
        st['expire'] = t + TIMEOUT
        push(t + TIMEOUT, 'expire', (f, st['token']))
        if req[(f, key)] <= sc['loss'].get(f'{f}:{key}', 0):
            return
        if key == 'disc':
            dk = 'U' if n == 0 else sc['disc_answer']
        else:
            dk = key
        push(t + d, 'data', dk)

    def receive(f, dk, t):
        st = F[f]
        st['expire'] = None
        st['token'] += 1
        if st['want'] == 'disc':
            if dk == 'U':
                st['yielded'].append(b'U')
                st['outcome'], st['want'] = 'done', None
                return
            if dk == 0:
                st['yielded'].append(content(0))
                if last == 0:
                    st['outcome'], st['want'] = 'done', None
                    return
                nxt = 1
            else:
                nxt = 0
        else:
            st['yielded'].append(content(dk))
            if dk == last:
                st['outcome'], st['want'] = 'done', None
                return
            nxt = dk + 1
        st['want'], st['trial'] = nxt, 0
        express(f, t)

    for f, t0 in enumerate(sc['starts']):
        push(t0, 'start', f)
    while ev:
        t, _, kind, payload = heapq.heappop(ev)
        if kind == 'start':
            # a fetcher starting in the very instant a Data packet is due: whether its discovery Interest is already pending when
            # that packet arrives depends on the loop's timer order - not judged
            if any(e[0] == t and e[2] == 'data' for e in ev) or t in data_times:
                tie[0] = True
            F[payload]['want'], F[payload]['trial'] = 'disc', 0
            express(payload, t)
        elif kind == 'data':
            data_times.add(t)
            if any(e[0] == t and e[2] == 'start' for e in ev):
                tie[0] = True
            # two different Data packets due at the same instant: which one a discovery Interest sees first depends on the
            # loop's timer order, which nothing specifies - such scripts are not judged
            if any(e[0] == t and e[2] == 'data' and e[3] != payload for e in ev) and any(st['want'] == 'disc' for st in F):
                tie[0] = True
            for f, st in enumerate(F):
                if st['want'] is None:
                    continue
                if st['want'] == 'disc' or st['want'] == payload:
                    if st['expire'] == t or st.get('expired_at') == t:
                        tie[0] = True       # the Interest expires in the very instant its Data arrives (either order of processing)
                    receive(f, payload, t)
        else:
            f, token = payload
            st = F[f]
            if st['token'] != token or st['want'] is None:
                continue
            st['expired_at'] = t
            st['trial'] += 1
            if st['trial'] >= R:
                st['outcome'], st['want'] = 'timeout', None
            else:
                express(f, t)
    return F, req, tie[0]


def execute_concurrent(sc):
    obs = {'f': [{'yielded': [], 'outcome': None} for _ in sc['starts']], 'requests': {}}
    prefix = [C(b'obj')]
    ver = [rc.comp(0x36, b'\x07')] if sc['version'] else []
    last = sc['n'] - 1

    async def main(S):
        face = RecFace()
        the_app = appv1.NDNApp(face=face, keychain=KeychainDigest())
        main_task = asyncio.ensure_future(the_app.main_loop())
        await asyncio.sleep(0)
        who = {}
        loop = asyncio.get_running_loop()

        def seg_data(k):
            fb = final_marker(sc['marker'], k, last)
            return bytes(make_data(prefix + ver + [SEG(k)], MetaInfo(final_block_id=fb, freshness_period=10), content(k), DigestSha256Signer()))

        def on_send(wire):
            try:
                p = rc.strict_interest(wire)
            except rc.Reject:
                return
            f = who.get(asyncio.current_task(), '?')          # the fetcher whose task is sending (Interests carry no other identity)
            name = p['name']
            if name == prefix:
                key = 'disc'
            elif name[:-1] == prefix + ver and rc.comp_parts(name[-1])[0] == 0x32:
                key = int.from_bytes(rc.comp_parts(name[-1])[1], 'big')
            else:
                key = 'other:' + rc.name_to_uri(name, canonical=True)
            obs['requests'][(f, key)] = obs['requests'].get((f, key), 0) + 1
            if obs['requests'][(f, key)] <= sc['loss'].get(f'{f}:{key}', 0):
                return
            if key == 'disc':
                dwire = bytes(make_data(prefix + ver, MetaInfo(freshness_period=10), b'U', DigestSha256Signer())) if sc['n'] == 0 else seg_data(sc['disc_answer'])
            elif isinstance(key, int) and 0 <= key <= last:
                dwire = seg_data(key)
            else:
                return
            if sc['delay']:
                loop.call_later(sc['delay'] / 1000, face.deliver_task, dwire)
            else:
                loop.call_soon(face.deliver_task, dwire)
        face.on_send = on_send

        async def validator(name, sig):
            return True

        async def fetch(i, t0):
            who[asyncio.current_task()] = i
            await S.sleep_until_ms(t0)
            o = obs['f'][i]
            try:
                async for c in segment_fetcher(the_app, list(prefix), timeout=TIMEOUT, retry_times=sc['retry'], validator=validator):
                    o['yielded'].append(None if c is None else bytes(c))
                    if len(o['yielded']) > 50:
                        o['outcome'] = 'runaway'
                        break
                if o['outcome'] is None:
                    o['outcome'] = 'done'
            except types.InterestTimeout:
                o['outcome'] = 'timeout'
            except Exception as e:   # noqa
                o['outcome'] = f'error:{type(e).__name__}'
        tasks = [asyncio.ensure_future(fetch(i, t0)) for i, t0 in enumerate(sc['starts'])]
        await asyncio.wait(tasks, timeout=60)
        for t in tasks:
            if not t.done():
                t.cancel()
        the_app.shutdown()
        await asyncio.wait_for(main_task, 5)

    S = vtime.run(main)
    return obs, S


def gen_concurrent(rng):
    n = rng.choice([0, 1, 2, 3, 3, 4, 5])
    k = rng.choice([2, 2, 2, 3])
    retry = rng.choice([1, 2, 3])
    sc = {'n': n, 'retry': retry, 'version': rng.random() < 0.5, 'marker': rng.choice(['every', 'last']), 'disc_answer': rng.randrange(n) if n else 0,
          'delay': rng.choice([0, 7, 31, 62, 88]), 'starts': sorted(rng.sample([0, 13, 41, 79, 96, 127, 160, 233], k)), 'loss': {}}
    for f in range(k):
        for key in ['disc'] + list(range(n)):
            if rng.random() < 0.3:
                sc['loss'][f'{f}:{key}'] = rng.randint(1, retry)
    return sc


def judge_concurrent(ctx, sc, obs, S):
    w = {'script': sc, 'observed': {'fetchers': obs['f'], 'requests': {f'{f}:{k}': v for (f, k), v in obs['requests'].items()}}}
    if S.result != 'ok':
        ctx.report(f'concurrent-scenario-{S.result}', f'{S.error!r}', w)
        return
    F, req, tie = model_concurrent(sc)
    if tie:
        ctx.event('concurrent-tie-not-judged')
        return
    for le in S.sentinel.all():
        ex = le.get('exception')
        ctx.report(f'background-error:{type(ex).__name__ if ex else "?"}', f'{le.get("repr")}', w)
    ctx.event('concurrent-fetch')
    shared = False
    for f, st in enumerate(F):
        o = obs['f'][f]
        if o['yielded'] != st['yielded']:
            ctx.report('concurrent:segments-differ', f'fetcher {f} yielded {o["yielded"]}, expected {st["yielded"]}', w)
        if o['outcome'] != st['outcome']:
            ctx.report(f'concurrent:fetch-outcome:expected={st["outcome"]},got={o["outcome"]}',
                       f'fetcher {f} ended with {o["outcome"]}, expected {st["outcome"]} (several fetchers of one object on one application)', w)
        ctx.event('concurrent-outcome-' + str(st['outcome']))
    if obs['requests'] != req:
        ctx.report('concurrent:attempts-per-segment', f'Interests per (fetcher, request) {sorted(obs["requests"].items(), key=str)}, expected {sorted(req.items(), key=str)}', w)
    total = sum(req.values())
    alone = sum(len(st['yielded']) for st in F)
    if total < alone + len(F) - (1 if sc['n'] == 0 else 0):
        shared = True
    if shared:
        ctx.event('concurrent-data-shared-between-fetchers')
    ctx.case(('conc', repr(sorted(sc.items(), key=str))), nontrivial=True, sample=w if ctx.evaluations % 200 == 1 else None)


def check_named_segment(ctx):
    """The object is asked for by the full name of ONE of its segments (a name ending in a segment component): whichever
    segment that is, every segment of the object is yielded once and in order."""
    C_ = lambda b: rc.comp(8, b)   # noqa
    for n in (1, 3, 6):
        for k in range(n):
            for form in ('list', 'uri'):
                res = {'yielded': [], 'reqs': []}
                base = [C_(b'named'), C_(b'obj%d' % n), rc.comp(0x36, rc.enc_nni(7))]

                async def main(S):
                    face = RecFace()
                    the_app = appv1.NDNApp(face=face, keychain=KeychainDigest())
                    main_task = asyncio.ensure_future(the_app.main_loop())
                    await asyncio.sleep(0)

                    def on_send(wire):
                        try:
                            p_ = rc.strict_interest(wire)
                        except rc.Reject:
                            return
                        nm = p_['name']
                        if nm[:-1] == base and rc.comp_parts(nm[-1])[0] == 0x32:
                            j = int.from_bytes(rc.comp_parts(nm[-1])[1], 'big')
                            res['reqs'].append(j)
                            if 0 <= j < n:
                                d = bytes(make_data(base + [SEG(j)], MetaInfo(final_block_id=SEG(n - 1)), b'part-%d' % j, DigestSha256Signer()))
                                asyncio.get_running_loop().call_soon(face.deliver_task, d)
                    face.on_send = on_send
                    nm_arg = base + [SEG(k)]
                    try:
                        async for c in segment_fetcher(the_app, list(nm_arg) if form == 'list' else rc.name_to_uri(nm_arg, canonical=True), timeout=100, retry_times=2):
                            res['yielded'].append(bytes(c))
                            if len(res['yielded']) > 20:
                                break
                        res['outcome'] = 'done'
                    except Exception as e:   # noqa
                        res['outcome'] = type(e).__name__
                    the_app.shutdown()
                    await asyncio.wait_for(main_task, 5)
                S = vtime.run(main)
                w = {'segments': n, 'asked_for_segment': k, 'form': form, 'requests': res['reqs'], 'outcome': res.get('outcome')}
                ctx.case(('named-segment', n, k, form), nontrivial=True)
                ctx.event('object-asked-for-by-a-segment-name')
                if S.result != 'ok':
                    ctx.report(f'named-segment-scenario-{S.result}', f'{S.error!r}', w)
                    continue
                exp = [b'part-%d' % j for j in range(n)]
                if res['yielded'] != exp or res.get('outcome') != 'done':
                    ctx.report('segments-missing' if len(res['yielded']) < n else 'segments-extra-or-duplicated',
                               f'asked for by the name of segment {k}: yielded {res["yielded"]}, expected {exp} ({res.get("outcome")})', w)


def run(ctx):
    ctx.rule = RULE
    rng = ctx.rng
    if ctx.shard == 0:
        check_named_segment(ctx)
    scripts = []
    if not ctx.quick:
        # exhaustive: sizes <= 4 x discovery answer x one lossy request with loss 0..retry+... x retry
        for n in range(0, 5):
            for retry in (1, 2, 3):
                for k in (range(n) if n else [0]):
                    keys = ['disc'] + list(range(n))
                    for lk in keys:
                        for loss in range(0, retry + 1):
                            for marker in ('every', 'last'):
                                scripts.append({'n': n, 'retry': retry, 'version': (n + retry) % 2 == 0, 'marker': marker, 'disc_answer': k,
                                                'loss': {str(lk): loss} if loss else {}, 'fault': None})
        ctx.extra['exhaustive_subspace'] = f'{len(scripts)} scripts: sizes 0..4 x discovery answer x single lossy request (loss 0..retry) x retry 1..3 x marker'
        scripts = [s for i, s in enumerate(scripts) if i % ctx.nshards == ctx.shard]
    for _ in range(ctx.n(900, 200000)):
        scripts.append(gen_script(rng))
    # long objects: segment numbers cross the one-octet (and, thorough tier, the two-octet) boundary of their encoding
    for n_long in ((130, 300) if ctx.quick else ((130, 300, 66000) if ctx.shard == 0 else ())):
        sc = gen_script(rng)
        sc.update(n=n_long, disc_answer=rng.choice([0, 0, 129]), loss={'128': 1, '255': 1} if n_long < 1000 else {}, fault=None, marker=rng.choice(['every', 'last', 'estimate']))
        scripts.append(sc)
        ctx.event('object-longer-than-128-segments')
        # the discovery Interest answered by a segment whose number ends in a zero octet / sits at a width boundary of its encoding
        for k_disc in (128, 255, 256, 257, 512, 65535, 65536):
            if k_disc < n_long and (n_long < 1000 or k_disc in (256, 65536)):
                sc = gen_script(rng)
                sc.update(n=n_long, disc_answer=k_disc, loss={}, fault=None, marker=rng.choice(['every', 'last']))
                scripts.append(sc)
                ctx.event('discovery-answered-by-a-segment-beyond-255' if k_disc > 255 else 'discovery-answered-by-segment-128-to-255')
    for steps in ([(3, 3600)], [(3, -3600)], [(1, 86400), (120, -86400)], [(55, 7200)], [(205, 10)]):
        for retry_ in (1, 3):
            sc = gen_script(rng)
            sc.update(n=rng.choice([3, 5]), disc_answer=0, retry=retry_, loss=({'1': 1} if retry_ == 3 else {}), fault=None, clock_step=steps, resp_delay=20)
            scripts.append(sc)
            ctx.event('fetch-while-the-wall-clock-is-stepped')
    for how in ('break', 'cancel'):
        for k_ in (0, 1, 2, 4):
            sc = gen_script(rng)
            sc.update(n=rng.choice([3, 5, 8]), disc_answer=0, loss={}, fault=None, abandon_first=(how, k_), validator_via='argument', validator_form='function', resp_delay=4)
            scripts.append(sc)
            ctx.event('fetch-after-an-abandoned-fetch-of-the-same-object')
    for sc in scripts:
        R, S = execute(sc)
        judge(ctx, sc, R, S)
    # several fetchers of the same object on one application, started at different instants, producer with a response delay
    templates = [
        # an earlier fetcher whose discovery Interest is lost expires while a later fetcher's Interest of the same name is pending
        {'n': 3, 'retry': 1, 'version': False, 'marker': 'every', 'disc_answer': 0, 'delay': 62, 'starts': [0, 79], 'loss': {'0:disc': 1}},
        {'n': 3, 'retry': 2, 'version': True, 'marker': 'last', 'disc_answer': 1, 'delay': 31, 'starts': [0, 96], 'loss': {'0:disc': 1, '1:1': 1}},
        {'n': 4, 'retry': 3, 'version': False, 'marker': 'every', 'disc_answer': 0, 'delay': 88, 'starts': [0, 41, 79], 'loss': {'0:disc': 1, '0:1': 2, '2:2': 1}},
        {'n': 2, 'retry': 2, 'version': False, 'marker': 'every', 'disc_answer': 0, 'delay': 0, 'starts': [0, 0], 'loss': {}},
    ]
    for sc in templates + [gen_concurrent(rng) for _ in range(ctx.n(250, 80000))]:
        obs, S = execute_concurrent(sc)
        judge_concurrent(ctx, sc, obs, S)
    for k in ('fetch-while-the-wall-clock-is-stepped', 'fetch-after-an-abandoned-fetch-of-the-same-object', 'object-longer-than-128-segments', 'marker-estimate', 'marker-other-type', 'marker-early-only', 'freshness-None', 'freshness-0', 'outcome-done', 'outcome-timeout', 'outcome-nack', 'outcome-valfail', 'concurrent-fetch', 'concurrent-outcome-done', 'concurrent-outcome-timeout',
              'concurrent-data-shared-between-fetchers', 'one-shot-name-with-lost-discovery', 'discovery-answered-by-a-segment-beyond-255', 'validator-via-app-default', 'content-type-omitted', 'validator-form-lambda', 'validator-form-object', 'validator-form-partial'):
        ctx.need_event(k)
    ctx.assumptions = ['an object without any final-block marker is outside the statement', 'the legacy front-end is the one segment_fetcher uses']
