"""nvf - runtime-monitoring checks for python-ndn (see /verif/DESIGN.md)."""
