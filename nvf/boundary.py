"""Client-boundary recorders: a Face that records every send() with virtual time and lets the
scenario deliver packets exactly as the real faces do."""
import asyncio

from ndn.transport.face import Face

from . import refcodec as rc


class RecFace(Face):
    def __init__(self, local=True):
        super().__init__()
        self.local = local      # what isLocalFace() answers (a forwarder on this machine / on another one)
        self.sent = []          # (t_ms, bytes)
        self._closed = None
        self.on_send = None     # optional callable(bytes) (scripted peers)
        self.opened = 0
        self.fail_next = None   # an exception the next send() raises instead of transmitting (a transient transport fault)

    def _now(self):
        try:
            return int(round(asyncio.get_running_loop().time() * 1000))
        except RuntimeError:
            return -1

    async def open(self):
        self.running = True
        self.opened += 1
        self._closed = asyncio.get_running_loop().create_future()

    def shutdown(self):
        self.running = False
        if self._closed is not None and not self._closed.done():
            self._closed.set_result(True)

    def send(self, data):
        if self.fail_next is not None:
            e, self.fail_next = self.fail_next, None
            raise e
        b = bytes(data)
        self.sent.append((self._now(), b))
        if self.on_send is not None:
            self.on_send(b)

    async def run(self):
        await self._closed

    def isLocalFace(self):
        return self.local

    # ---- delivery
    @staticmethod
    def outer_type(wire):
        return rc.read_var(bytes(wire), 0, len(wire))[0]

    _forms = 0

    def buffer_form(self, wire):
        """A transport hands the packet over in whatever buffer it received it in: immutable bytes (the stream faces), or a
        bytearray / a writable view of one (datagram and custom transports that receive into their own buffer).  The octets are
        the same; the buffer is not touched afterwards."""
        RecFace._forms += 1
        k = RecFace._forms % 4
        if isinstance(wire, (bytearray, memoryview)) or k in (0, 1):
            return wire
        return bytearray(wire) if k == 2 else memoryview(bytearray(wire))

    def deliver_task(self, wire, typ=None):
        """What StreamFace/UdpFace do: spawn the callback as a task per packet."""
        if typ is None:
            typ = self.outer_type(wire)
        return asyncio.ensure_future(self.callback(typ, self.buffer_form(wire)))

    async def deliver(self, wire, typ=None):
        """Awaited delivery: an exception escaping packet reception is seen by the caller."""
        if typ is None:
            typ = self.outer_type(wire)
        await self.callback(typ, self.buffer_form(wire))
