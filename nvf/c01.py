"""C01 - Interest and Data packets survive an encode/decode round trip.

Oracle: refcodec strictly parses the produced wire (one element, exact nested lengths) and
extracts the fields independently; the library's own parser must agree with both the inputs and
refcodec.  Monitors: invariant hooks on TlvModel.encode and shrink_length (record, never raise).
"""
import hashlib

from . import gen, pkts, refcodec as rc
from .common import raising_site

import ndn.encoding.ndn_format_0_3 as fmt
import ndn.encoding.tlv_model as tlv_model
from ndn.encoding import make_interest, make_data, parse_interest, parse_data, MetaInfo, InterestParam

RULE = ('Data/Interest built by the real make_* from generated names (all input forms), parameter/MetaInfo '
        'subsets, payload lengths solved to land every enclosing length on 252..254 / 65535..65537 and up to '
        '70000, every shipped signer plus a synthetic variable-length signer; distinct = (kind, signer, '
        'outer-length class, payload class, field-subset mask); non-trivial = has payload or signer or params'
        '; payload/wire passed as bytes, bytearray or memoryview, parsers also called with with_tl=False')

STATE = {'ctx': None}


def install_hooks(ctx):
    STATE['ctx'] = ctx
    if getattr(fmt, '_nvf_hooked', False):
        return
    fmt._nvf_hooked = True
    orig_shrink = fmt.shrink_length

    def shrink_hook(wire, val):
        c = STATE['ctx']
        before = bytes(wire)
        t, p = rc.read_var(before, 0, len(before))
        ln, q = rc.read_var(before, p, len(before))
        out = orig_shrink(wire, val)
        try:
            t2, vs, ve = rc.single_tlv_exact(bytes(out))
            narrower = rc.var_size(ve - vs) < (q - p)
            c.reach['shrink_length.narrower' if narrower else 'shrink_length.same-width'] += 1
            if t2 != t or (ve - vs) != ln - val or bytes(out)[vs:] != before[q:len(before) - val]:
                c.report('shrink-length-postcondition', 'shrink_length result is not the original value minus the tail',
                         {'before': before[:64], 'val': val, 'after': bytes(out)[:64]})
        except rc.Reject as e:
            c.report('shrink-length-malformed', f'shrink_length result is not one exact TLV: {e}',
                     {'before': before[:64], 'val': val, 'after': bytes(out)[:64]})
        return out
    fmt.shrink_length = shrink_hook

    orig_encode = tlv_model.TlvModel.encode

    def encode_hook(self, wire=None, offset=0, markers=None):
        top = wire is None
        if markers is None:
            markers = {}
        out = orig_encode(self, wire, offset, markers)
        if top:
            c = STATE['ctx']
            c.reach['TlvModel.encode.top'] += 1
            if '##encoded_length' in markers and len(out) != markers['##encoded_length']:
                c.report('encode-length-announced', 'len(encode()) != encoded_length()', {'cls': type(self).__name__})
        return out
    tlv_model.TlvModel.encode = encode_hook

    orig_calc = tlv_model.SignatureValueField.calculate_signature

    def calc_hook(self, markers):
        r = orig_calc(self, markers)
        c = STATE['ctx']
        sl = self.shrink_len.get_arg(markers)
        if self.signer.get_arg(markers) is not None:
            c.reach['calculate_signature.shrunk' if sl else 'calculate_signature.exact'] += 1
        return r
    tlv_model.SignatureValueField.calculate_signature = calc_hook


def len_class(n):
    if n < 200:
        return 'small'
    if n <= 252:
        return '<=252'
    if n <= 260:
        return '253..260'
    if n < 65500:
        return 'mid'
    if n <= 65535:
        return '<=65535'
    if n <= 65545:
        return '65536..'
    return 'big'


def bl(x):
    return None if x is None else bytes(x)


def wire_form(rng, wire):
    """The documented input forms of the parsers: bytes, bytearray, memoryview - or None for 'value only, with_tl=False'."""
    r = rng.random()
    if r < 0.55:
        return wire
    if r < 0.7:
        return bytearray(wire)
    if r < 0.85:
        return memoryview(wire)
    return None


def strip_tl(wire):
    t, ts, vs, ve = rc.read_tlv(wire, 0, len(wire))
    return wire[vs:ve]


DETERMINISTIC = ('none', 'digest', 'hmac', 'null', 'ed25519')     # digest-int adds a signature time and nonce by design


def snap(x):
    """Comparable snapshot of an argument object (names, byte strings, InterestParam / MetaInfo models)."""
    if x is None or isinstance(x, (bool, int, str)):
        return x
    if isinstance(x, (bytes, bytearray, memoryview)):
        return bytes(x)
    if isinstance(x, (list, tuple)):
        return [snap(v) for v in x]
    if hasattr(type(x), '_encoded_fields'):
        return {f.name: snap(getattr(x, f.name, None)) for f in type(x)._encoded_fields if hasattr(f, 'name')}
    if isinstance(x, dict):
        return {k: snap(v) for k, v in x.items()}
    if hasattr(x, '__dict__'):
        return {k: snap(v) for k, v in vars(x).items() if not k.startswith('_')}
    return repr(x)


def again(ctx, label, w, fn, wire, before, args_after, kind):
    """Encoding is a function of its arguments: the arguments are left as they were, and (for signers without randomness)
    a second call with the same argument objects yields the same bytes."""
    if before != args_after():
        ctx.report(f'{label}-modifies-its-arguments', 'an argument object (name / parameters / MetaInfo / payload) was modified by the encoder', w)
    if kind in DETERMINISTIC:
        try:
            second = bytes(fn())
        except Exception as e:   # noqa
            ctx.report(f'{label}-second-call-raises:{type(e).__name__}@{raising_site(e)[0]}', f'second call with the same arguments raised {e!r}', w)
            return
        ctx.event('encoded-twice')
        if second != wire:
            ctx.report(f'{label}-not-repeatable:{kind}', 'a second call with the same argument objects produced other bytes', dict(w, second=second[:200]))


def do_data(ctx, rng, comps, meta, mexp, content, kind, sinfo_tuple=None, target=None):
    signer, sinfo = sinfo_tuple or pkts.make_signer(rng, kind)
    form, fl = pkts.name_form(rng, comps)
    w = {'pkt': 'data', 'name': [c.hex() for c in comps], 'form': fl, 'meta': mexp, 'content_len': None if content is None else len(content),
         'signer': {k: v for k, v in sinfo.items() if k in ('kind', 'reserve', 'write')}}
    try:
        cform = content if content is None or rng.random() < 0.6 else rng.choice([bytearray, memoryview])(content)
        one_shot = fl in pkts.ONE_SHOT_FORMS
        if one_shot:
            ctx.event('name-given-as-one-shot-iterable')
        before = None if one_shot else snap([form, meta, cform])
        if rng.random() < 0.3:
            wire = bytes(make_data(name=form, meta_info=meta, content=cform, signer=signer))
        else:
            wire = bytes(make_data(form, meta, cform, signer))
    except Exception as e:   # noqa
        ctx.report(f'make-data-raises:{type(e).__name__}@{raising_site(e)[0]}', f'make_data raised {e!r}', w)
        return None
    w['wire'] = wire if len(wire) < 600 else wire[:200]
    if len(wire) < 3000 and sinfo.get('kind') != 'var' and not one_shot:
        again(ctx, 'make-data', w, lambda: make_data(form, meta, cform, signer), wire, before, lambda: snap([form, meta, cform]), kind)
    try:
        p = rc.strict_data(wire)
    except rc.Reject as e:
        ctx.report(f'data-wire-malformed:{e.reason}', f'produced Data is not one exact TLV tree: {e}', w)
        return None
    ctx.klass('data-outer-' + len_class(len(wire)))
    problems = []
    if p['name'] != comps:
        problems.append('name')
    if bl(p['content']) != bl(content):
        problems.append('content')
    if mexp['has_meta']:
        if (p['content_type'], p['freshness'], bl(p['final_block'])) != (mexp['content_type'], mexp['freshness'], bl(mexp['final_block'])):
            problems.append('metainfo')
    elif p['has_meta']:
        problems.append('metainfo-unexpected')
    if kind == 'none':
        if p['sig_info'] is not None or p['sig_value'] is not None:
            problems.append('unexpected-signature')
    else:
        if p['sig_info'] is None or p['sig_value'] is None or p['sig_info']['type'] != pkts.SIG_TYPE[kind]:
            problems.append('siginfo')
        elif (p['sig_info']['key_name'] or None) != (sinfo['key_name'] or None):
            problems.append('keylocator')
    for pr in problems:
        ctx.report(f'data-ref-field:{pr}', f'reference reading of produced Data disagrees with input: {pr}', w)
    # library parse
    try:
        pin = wire_form(rng, wire)
        if pin is None:
            name, mi, cont, sig = parse_data(strip_tl(wire), with_tl=False)
            ctx.event('parsed-without-tl')
        else:
            name, mi, cont, sig = parse_data(pin)
    except Exception as e:   # noqa
        ctx.report(f'parse-data-raises:{type(e).__name__}@{raising_site(e)[0]}', f'parse_data of produced wire raised {e!r}', w)
        return wire
    lp = []
    if [bytes(c) for c in name] != comps:
        lp.append('name')
    if bl(cont) != bl(content):
        lp.append('content')
    if mexp['has_meta']:
        if (mi.content_type, mi.freshness_period, bl(mi.final_block_id)) != (mexp['content_type'], mexp['freshness'], bl(mexp['final_block'])):
            lp.append('metainfo')
    if kind != 'none':
        if sig.signature_info is None or sig.signature_info.signature_type != pkts.SIG_TYPE[kind]:
            lp.append('siginfo')
        elif bl(sig.signature_value_buf) != p['sig_value']:
            lp.append('sigvalue')
    elif sig.signature_info is not None:
        lp.append('unexpected-signature')
    for pr in lp:
        ctx.report(f'data-parse-field:{pr}', f'parse_data of produced wire disagrees with input: {pr}', w)
    if not lp and mexp['has_meta'] and ctx.evaluations % 3 == 0:
        # make -> parse -> make again with what parsing returned (a repository, a proxy, a re-signer): the MetaInfo OBJECT that
        # parse_data handed out is a MetaInfo like any other - absent fields stay absent
        try:
            remade = rc.strict_data(bytes(make_data([bytes(c) for c in name], mi, None if cont is None else bytes(cont))))
            ctx.event('data-made-again-from-the-parsed-metainfo')
            if (remade["content_type"], remade["freshness"], bl(remade["final_block"])) != (mexp['content_type'], mexp['freshness'], bl(mexp['final_block'])):
                ctx.report('data-ref-field:metainfo:remade-from-parsed', 'a Data made again with the MetaInfo object that parse_data returned carries another MetaInfo', w)
        except (rc.Reject, KeyError) as e:
            ctx.report(f'data-wire-malformed:remade-from-parsed', f'{e!r}', w)
        except Exception as e:   # noqa
            ctx.report(f'make-data-raises:{type(e).__name__}@{raising_site(e)[0]}:remade-from-parsed', f'{e!r}', w)
    mask = (mexp['has_meta'], mexp['content_type'] is not None, mexp['freshness'] is not None, mexp['final_block'] is not None)
    ctx.case(('D', kind, len_class(len(wire)), len_class(len(content or b'')), mask, sinfo.get('reserve'), sinfo.get('write'), target),
             sample=w if ctx.evaluations % 997 == 5 else None,
             nontrivial=bool(content) or kind != 'none')
    ctx.event('data-roundtrip')
    return wire


def do_interest(ctx, rng, comps, param, pexp, app_param, kind, placeholder_at=None, target=None, sinfo_tuple=None):
    signer, sinfo = sinfo_tuple or pkts.make_signer(rng, kind)
    need_digest = app_param is not None or signer is not None
    in_comps = list(comps)
    if need_digest and placeholder_at is not None:
        in_comps.insert(min(placeholder_at, len(in_comps)), rc.comp(2, gen.rand_bytes(rng, 32)))
    form, fl = pkts.name_form(rng, in_comps)
    w = {'pkt': 'interest', 'name': [c.hex() for c in in_comps], 'form': fl, 'param': pexp,
         'app_param_len': None if app_param is None else len(app_param),
         'signer': {k: v for k, v in sinfo.items() if k in ('kind', 'reserve', 'write')}, 'placeholder_at': placeholder_at}
    try:
        aform = app_param if app_param is None or rng.random() < 0.6 else rng.choice([bytearray, memoryview])(app_param)
        one_shot = fl in pkts.ONE_SHOT_FORMS
        if one_shot:
            ctx.event('name-given-as-one-shot-iterable')
        before = None if one_shot else snap([form, param, aform])
        wire, final_name = make_interest(form, param, aform, signer, need_final_name=True)
        wire = bytes(wire)
    except Exception as e:   # noqa
        ctx.report(f'make-interest-raises:{type(e).__name__}@{raising_site(e)[0]}', f'make_interest raised {e!r}', w)
        return None
    w['wire'] = wire if len(wire) < 600 else wire[:200]
    if len(wire) < 3000 and sinfo.get('kind') != 'var' and not one_shot and not (kind in ('digest-int', 'hmac', 'ed25519') and signer is not None and sinfo.get('for_interest_time')):
        again(ctx, 'make-interest', w, lambda: make_interest(form, param, aform, signer), wire, before, lambda: snap([form, param, aform]), kind)
    try:
        p = rc.strict_interest(wire)
    except rc.Reject as e:
        ctx.report(f'interest-wire-malformed:{e.reason}', f'produced Interest is not one exact TLV tree: {e}', w)
        return None
    ctx.klass('interest-outer-' + len_class(len(wire)))
    problems = []
    # expected final name
    if need_digest:
        dig = rc.comp(2, hashlib.sha256(p['digest_portion'] or b'').digest())
        if placeholder_at is not None:
            exp_name = list(in_comps)
            exp_name[min(placeholder_at, len(comps))] = dig
        else:
            exp_name = list(comps) + [dig]
    else:
        exp_name = list(comps)
    if p['name'] != exp_name:
        problems.append('name-or-digest')
    if [bytes(c) for c in final_name] != p['name']:
        # the returned final name is not part of C01's statement (it matters to C03, where the
        # pending-Interest table is keyed by it); observation only
        ctx.event('observation:final-name-return-differs-from-wire')
    exp_app = app_param if app_param is not None else (b'' if signer is not None else None)
    if bl(p['app_param']) != bl(exp_app):
        problems.append('app-param')
    if need_digest and not rc.params_digest_ok(p):
        problems.append('digest-value')
    if (p['can_be_prefix'], p['must_be_fresh'], p['nonce'], p['lifetime'], p['hop_limit']) != \
            (bool(pexp['can_be_prefix']), bool(pexp['must_be_fresh']), pexp['nonce'], pexp['lifetime'], pexp['hop_limit']):
        problems.append('params')
    if p['fwd_hint'] != pexp['fwd_hint']:
        problems.append('fwd-hint')
    if kind == 'none':
        if p['sig_info'] is not None or p['sig_value'] is not None:
            problems.append('unexpected-signature')
    else:
        if p['sig_info'] is None or p['sig_value'] is None or p['sig_info']['type'] != pkts.SIG_TYPE[kind]:
            problems.append('siginfo')
        elif (p['sig_info']['key_name'] or None) != (sinfo['key_name'] or None):
            problems.append('keylocator')
    for pr in problems:
        ctx.report(f'interest-ref-field:{pr}', f'reference reading of produced Interest disagrees with input: {pr}', w)
    try:
        pin = wire_form(rng, wire)
        if pin is None:
            name, prm, app, sig = parse_interest(strip_tl(wire), with_tl=False)
            ctx.event('parsed-without-tl')
        else:
            name, prm, app, sig = parse_interest(pin)
    except Exception as e:   # noqa
        ctx.report(f'parse-interest-raises:{type(e).__name__}@{raising_site(e)[0]}', f'parse_interest of produced wire raised {e!r}', w)
        return wire
    lp = []
    if [bytes(c) for c in name] != exp_name:
        lp.append('name-or-digest')
    if bl(app) != bl(exp_app):
        lp.append('app-param')
    if (bool(prm.can_be_prefix), bool(prm.must_be_fresh), prm.nonce, prm.lifetime, prm.hop_limit) != \
            (bool(pexp['can_be_prefix']), bool(pexp['must_be_fresh']), pexp['nonce'], pexp['lifetime'], pexp['hop_limit']):
        lp.append('params')
    if [[bytes(c) for c in n] for n in prm.forwarding_hint] != pexp['fwd_hint']:
        lp.append('fwd-hint')
    if kind != 'none':
        if sig.signature_info is None or sig.signature_info.signature_type != pkts.SIG_TYPE[kind]:
            lp.append('siginfo')
        elif bl(sig.signature_value_buf) != p['sig_value']:
            lp.append('sigvalue')
    elif sig.signature_info is not None:
        lp.append('unexpected-signature')
    for pr in lp:
        ctx.report(f'interest-parse-field:{pr}', f'parse_interest of produced wire disagrees with input: {pr}', w)
    mask = (pexp['can_be_prefix'], pexp['must_be_fresh'], pexp['nonce'] is not None, pexp['lifetime'] is not None,
            pexp['hop_limit'] is not None, bool(pexp['fwd_hint']), placeholder_at is not None)
    ctx.case(('I', kind, len_class(len(wire)), len_class(len(app_param or b'')), mask, sinfo.get('reserve'), sinfo.get('write'), target),
             sample=w if ctx.evaluations % 997 == 11 else None,
             nontrivial=need_digest or any(mask))
    ctx.event('interest-roundtrip')
    return wire


def solve(make_len, target, start=0, ctx=None, what='packet'):
    """Find payload length L such that make_len(L) == target (outer total length), if reachable."""
    if ctx is not None:
        try:
            return solve(make_len, target, start)
        except Exception as e:   # noqa  (the encoder refused inputs it accepts on the unchanged tree: a finding, not a harness fault)
            ctx.report(f'make-{what}-raises:{type(e).__name__}@{raising_site(e)[0]}', f'encoding raised {e!r} while a boundary length was being solved', None)
            return None
    L = start
    for _ in range(6):
        cur = make_len(L)
        if cur == target:
            return L
        L = L + (target - cur)
        if L < 0:
            return None
    return L if make_len(L) == target else None


def check_raw_text_names(ctx):
    """Packet names given as text with raw non-ASCII characters (also sequences outside every Unicode normal form): the name on the
    wire, the name parsed back and the returned final name are the UTF-8 octets of exactly that text."""
    from .c09 import RAW_TEXTS
    for t in RAW_TEXTS:
        exp = [rc.comp(8, b'pre'), rc.comp(8, t.encode('utf-8')), rc.comp(8, b'x')]
        for label, nm in (('uri', '/pre/' + t + '/x'), ('list', ['pre', t, 'x']), ('mixed', [rc.comp(8, b'pre'), t, bytearray(b'\x08\x01x')])):
            w = {'text': t, 'form': label}
            try:
                iw, final = make_interest(nm, InterestParam(nonce=3), need_final_name=True)
                dw = make_data(nm, MetaInfo(), b'c', None)
                ri, rd = rc.strict_interest(bytes(iw)), rc.strict_data(bytes(dw))
                pi, pd = parse_interest(bytes(iw))[0], parse_data(bytes(dw))[0]
            except Exception as e:   # noqa
                ctx.report(f'raw-text-name-raises:{type(e).__name__}@{raising_site(e)[0]}', f'{e!r}', w)
                continue
            ctx.case(('raw-text-name', t, label), nontrivial=True)
            ctx.event('raw-text-packet-name')
            if ri['name'] != exp or rd['name'] != exp:
                ctx.report('interest-ref-field:name-or-digest' if ri['name'] != exp else 'data-ref-field:name', 'the name on the wire is not the UTF-8 octets of the text given', w)
            if [bytes(c) for c in pi] != exp or [bytes(c) for c in pd] != exp or [bytes(c) for c in final] != exp:
                ctx.report('interest-parse-field:name-or-digest', 'the parsed / returned name is not the UTF-8 octets of the text given', w)


def run(ctx):
    ctx.rule = RULE
    install_hooks(ctx)
    rng = ctx.rng
    if ctx.shard == 0:
        check_raw_text_names(ctx)
    kinds = pkts.SIGNER_KINDS
    lens = pkts.payload_lengths()
    n = ctx.n(1500, 600000)
    no_digest_types = [t for t in gen.COMP_TYPES if t != 2]

    # ---- boundary sweep: total packet length landing on each transition, per signer
    targets = [t + d for t in (255, 258, 65539, 65544) for d in (-3, -2, -1, 0, 1, 2, 3)]
    sweep_kinds = kinds if not ctx.quick else ['none', 'digest', 'ecdsa256', 'var', 'hmac']
    for kind in sweep_kinds:
        if not ctx.quick and (hash(kind) % ctx.nshards) != ctx.shard % ctx.nshards and ctx.nshards > 1:
            pass
        comps = gen.simple_name(rng, 1, 3)
        meta, mexp = MetaInfo(), {'has_meta': True, 'content_type': 0, 'freshness': None, 'final_block': None}
        st = pkts.make_signer(rng, kind) if kind != 'var' else None
        for tg in targets:
            if ctx.quick and tg > 70000 and kind not in ('none', 'ecdsa256'):
                continue
            if kind == 'var':
                r = rng.choice([72, 100, 252])
                st = (pkts.VarSigner(r, rng.randint(0, r), None), {'kind': 'var', 'key_name': None, 'reserve': r, 'write': None})
                st[1]['write'] = st[0].write

            def ml(L):
                return len(make_data(comps, MetaInfo(), b'x' * L, st[0]))
            L = solve(ml, tg, max(0, tg - 120), ctx, 'data')
            if L is None:
                ctx.event('solve-miss')
                continue
            ctx.event('solved-boundary')
            do_data(ctx, rng, comps, meta, mexp, gen.rand_bytes(rng, L), kind, sinfo_tuple=st, target=tg)
            if kind != 'none' or True:
                prm, pexp = pkts.gen_interest_param(rng)
                st2 = st if kind not in ('digest',) else pkts.make_signer(rng, 'digest-int')

                def mli(L):
                    return len(make_interest(comps, prm, b'y' * L, st2[0]))
                L2 = solve(mli, tg, max(0, tg - 150), ctx, 'interest')
                if L2 is not None:
                    do_interest(ctx, rng, comps, prm, pexp, gen.rand_bytes(rng, L2), st2[1]['kind'], target=tg, sinfo_tuple=st2)

    # ---- variable-length signer sweep around the 253 boundary (outer length 3 -> 1 bytes)
    for r in ([8, 72, 252] if ctx.quick else [1, 2, 8, 32, 72, 100, 200, 252]):
        for wlen in sorted({r, r - 1, r - 2, r // 2, 1, 0} & set(range(0, r + 1))):
            for tg in (252, 253, 254, 255, 256, 257, 258):
                comps = gen.simple_name(rng, 1, 2)
                st = (pkts.VarSigner(r, wlen, None), {'kind': 'var', 'key_name': None, 'reserve': r, 'write': wlen})

                def ml(L):
                    return len(make_data(comps, MetaInfo(), b'x' * L, pkts.VarSigner(r, r, None)))
                # target the *unshrunk* length so the shrink crosses the boundary
                L = solve(ml, tg + (r - wlen) if rng.random() < 0.5 else tg, 0, ctx, 'packet')
                if L is None:
                    continue
                do_data(ctx, rng, comps, MetaInfo(), {'has_meta': True, 'content_type': 0, 'freshness': None, 'final_block': None},
                        gen.rand_bytes(rng, L), 'var', sinfo_tuple=st, target=('v', tg))
                prm, pexp = pkts.gen_interest_param(rng)
                do_interest(ctx, rng, comps, prm, pexp, gen.rand_bytes(rng, max(0, L - 10)), 'var', target=('v', tg), sinfo_tuple=st,
                            placeholder_at=rng.choice([None, 0, 1]))

    # ---- nested-length sweeps: the Name / ForwardingHint / KeyLocator / FinalBlockId lengths cross 253 (and 65536)
    def name_of_total(total, ncomp):
        """components whose encoded sizes sum to `total` bytes"""
        out = []
        left = total
        for j in range(ncomp - 1):
            c = rc.comp(8, gen.rand_bytes(rng, 3))
            out.append(c)
            left -= len(c)
        # last component takes the rest: size = 1 + len(var(L)) + L
        for L in range(max(0, left - 6), left + 1):
            c = rc.comp(8, b'n' * L)
            if len(c) == left:
                out.append(c)
                return out
        return None
    totals = list(range(205, 262)) + ([65490 + d for d in range(0, 50, 1)] if not ctx.quick else [65500, 65501, 65502, 65503, 65535, 65536])
    for T_ in totals:
        for ncomp in (1, 3):
            comps = name_of_total(T_, ncomp)
            if comps is None:
                continue
            for kind in ('none', 'digest-int', 'var', 'ecdsa256'):
                if T_ > 60000 and kind not in ('none', 'digest-int'):
                    continue
                prm, pexp = pkts.gen_interest_param(rng)
                for app in ((None, b'', b'p') if kind == 'none' else (b'',)):
                    do_interest(ctx, rng, comps, prm, pexp, app, kind, placeholder_at=rng.choice([None, None, 0]), target=('name-total', T_))
                meta, mexp = pkts.gen_meta_info(rng)
                do_data(ctx, rng, comps, meta, mexp, b'c', kind if kind != 'digest-int' else 'digest', target=('name-total', T_))
            ctx.event('name-length-sweep')
    for T_ in range(230, 262):
        # forwarding hint, key locator and FinalBlockId of that size
        big = name_of_total(T_, 2)
        if big is None:
            continue
        prm, pexp = pkts.gen_interest_param(rng)
        prm.forwarding_hint = [big]
        pexp['fwd_hint'] = [big]
        do_interest(ctx, rng, gen.simple_name(rng, 1, 2), prm, pexp, rng.choice([None, b'x']), 'none', target=('fwd-hint', T_))
        signer, sinfo = pkts.make_signer(rng, 'hmac', big)
        do_data(ctx, rng, gen.simple_name(rng, 1, 2), MetaInfo(), {'has_meta': True, 'content_type': 0, 'freshness': None, 'final_block': None},
                b'k', 'hmac', sinfo_tuple=(signer, sinfo), target=('key-locator', T_))
        prm2, pexp2 = pkts.gen_interest_param(rng)
        signer2, sinfo2 = pkts.make_signer(rng, 'ecdsa256', big)
        do_interest(ctx, rng, gen.simple_name(rng, 1, 2), prm2, pexp2, b'q', 'ecdsa256', sinfo_tuple=(signer2, sinfo2), target=('key-locator', T_))
        fb = b'F' * T_
        do_data(ctx, rng, gen.simple_name(rng, 1, 2), MetaInfo(content_type=0, final_block_id=fb),
                {'has_meta': True, 'content_type': 0, 'freshness': None, 'final_block': fb}, b'', 'none', target=('final-block', T_))
        ctx.event('nested-length-sweep')

    # ---- payloads that are themselves TLV: the payload is opaque octets, whatever it looks like - one element of the wrapper's own
    # type (Content 0x15 / ApplicationParameters 0x24), of a neighbouring field's type, a whole packet, several elements, a
    # near-miss (length one too long / short)
    def structured_payloads():
        inner = gen.rand_bytes(rng, rng.choice([0, 1, 3, 40, 252, 253, 300]))
        out = [rc.enc_tlv(t, inner) for t in (0x15, 0x24, 0x16, 0x17, 0x2c, 0x2e, 0x14, 0x07, 0x06, 0x05, 0x08, 0x02, 0xfd00)]
        out.append(rc.enc_tlv(0x15, b''))
        out.append(rc.enc_tlv(0x24, b''))
        out.append(rc.enc_tlv(0x15, rc.enc_tlv(0x15, inner)))
        out.append(rc.enc_tlv(0x15, inner) + rc.enc_tlv(0x15, b'z'))
        out.append(rc.enc_tlv(0x24, inner) + b'\x00')
        out.append(b'\x15' + bytes([len(inner) % 250 + 1]) + inner[:len(inner) % 250])
        out.append(b'\x24\x00\x24\x00')
        out.append(bytes(make_data(gen.simple_name(rng, 1, 2), MetaInfo(), inner[:50], None)))
        out.append(bytes(make_interest(gen.simple_name(rng, 1, 2), InterestParam(nonce=1), inner[:50] or b'p')))
        return out
    for rep in range(ctx.n(1, 12)):
        for pl in structured_payloads():
            kind = rng.choice(['none', 'digest', 'ecdsa256', 'hmac', 'var', 'none'])
            meta, mexp = pkts.gen_meta_info(rng)
            do_data(ctx, rng, gen.simple_name(rng, 1, 3), meta, mexp, pl, kind, target=('tlv-shaped-payload', pl[0]))
            prm, pexp = pkts.gen_interest_param(rng)
            do_interest(ctx, rng, gen.simple_name(rng, 1, 3), prm, pexp, pl, kind if kind != 'digest' else 'digest-int', target=('tlv-shaped-payload', pl[0]))
            ctx.event('payload-shaped-like-tlv')

    # ---- random product
    reuse = {}
    for i in range(n):
        kind = rng.choice(kinds)
        if kind == 'rsa' and rng.random() < 0.6:
            kind = rng.choice(['ecdsa256', 'hmac', 'var'])
        L = rng.choice(lens) if rng.random() < 0.5 else rng.randint(0, 300)
        if L > 2000 and rng.random() < 0.7:
            L = rng.randint(0, 600)
        if rng.random() < 0.5:
            comps = gen.name(rng, 0, 8, gen.COMP_TYPES)
            if reuse.get('meta') is not None and rng.random() < 0.3:
                # the producer's MetaInfo object of an earlier packet, some fields changed since
                meta, mexp = pkts.mutate_meta(rng, *reuse['meta'])
                ctx.event('argument-object-reused-and-modified')
            else:
                meta, mexp = pkts.gen_meta_info(rng)
            if meta is not None:
                reuse['meta'] = (meta, mexp)
            content = None if rng.random() < 0.1 else gen.rand_bytes(rng, L)
            do_data(ctx, rng, comps, meta, mexp, content, kind)
        else:
            comps = gen.name(rng, 0, 8, no_digest_types)
            if reuse.get('param') is not None and rng.random() < 0.3:
                prm, pexp = pkts.mutate_interest_param(rng, *reuse['param'])
                ctx.event('argument-object-reused-and-modified')
            else:
                prm, pexp = pkts.gen_interest_param(rng)
            reuse['param'] = (prm, pexp)
            app = None if rng.random() < 0.3 else gen.rand_bytes(rng, L)
            if kind == 'digest':
                kind = 'digest-int' if rng.random() < 0.5 else 'digest'
            ph = rng.choice([None, None, 0, 1, 3, 99])
            do_interest(ctx, rng, comps, prm, pexp, app, kind, placeholder_at=ph)
    for k in ('shrink_length.narrower', 'shrink_length.same-width', 'calculate_signature.shrunk',
              'calculate_signature.exact', 'TlvModel.encode.top'):
        ctx.require_reach(k)
    for k in ('parsed-without-tl', 'name-given-as-one-shot-iterable', 'argument-object-reused-and-modified', 'encoded-twice'):
        ctx.need_event(k)
    ctx.assumptions = ['refcodec transcription of NDN packet format 0.3', 'BoolField False == absent; absent lifetime parses as None',
                       'make_data(meta_info=None) parses back as a default MetaInfo (not compared)']
