"""Packet-case generation shared by C01/C02/C06/C07/C10: signers, independent verification."""
import hashlib
import os

from Cryptodome.Hash import SHA256, HMAC
from Cryptodome.PublicKey import ECC, RSA
from Cryptodome.Signature import DSS, pkcs1_15, eddsa

from ndn.encoding import Signer, KeyLocator, InterestParam, MetaInfo, Name
from ndn.security.signer.sha256_digest_signer import DigestSha256Signer
from ndn.security.signer.sha256_hmac_signer import HmacSha256Signer
from ndn.security.signer.sha256_rsa_signer import Sha256WithRsaSigner
from ndn.security.signer.sha256_ecdsa_signer import Sha256WithEcdsaSigner
from ndn.security.signer.ed25519_signer import Ed25519Signer
from ndn.security.signer.null_signer import NullSigner

from . import gen, refcodec as rc
from .common import ROOT

FIX = os.path.join(ROOT, 'fixtures')
_cache = {}


def rsa_key(i=0, bits=2048):
    k = ('rsa', i, bits)
    if k not in _cache:
        with open(os.path.join(FIX, f'rsa{bits}_{i}.der'), 'rb') as f:
            _cache[k] = f.read()
    return _cache[k]


def ec_key(curve='P-256', i=0):
    k = ('ec', curve, i)
    if k not in _cache:
        _cache[k] = ECC.generate(curve=curve).export_key(format='DER')
    return _cache[k]


class VarSigner(Signer):
    """Synthetic signer that reserves r bytes and writes w <= r (sweeps the shrink path)."""
    def __init__(self, reserve, write, key_name=None):
        self.reserve, self.write, self.key_name = reserve, write, key_name

    def write_signature_info(self, signature_info):
        signature_info.signature_type = 201
        if self.key_name is not None:
            signature_info.key_locator = KeyLocator()
            signature_info.key_locator.name = self.key_name
        else:
            signature_info.key_locator = None

    def get_signature_value_size(self):
        return self.reserve

    def write_signature_value(self, wire, contents):
        h = hashlib.sha256(b''.join(bytes(c) for c in contents)).digest()
        sig = (h * (self.write // 32 + 1))[:self.write]
        wire[:self.write] = sig
        return self.write


class RecordingSigner(Signer):
    """Wraps a real signer and records the bytes it was handed."""
    def __init__(self, inner):
        self.inner = inner
        self.covered = None
        self.calls = 0

    def write_signature_info(self, signature_info):
        return self.inner.write_signature_info(signature_info)

    def get_signature_value_size(self):
        return self.inner.get_signature_value_size()

    def write_signature_value(self, wire, contents):
        self.covered = b''.join(bytes(c) for c in contents)
        self.calls += 1
        return self.inner.write_signature_value(wire, contents)


_HMAC_SEQ = [0]
SIGNER_KINDS = ['none', 'digest', 'digest-int', 'hmac', 'rsa', 'ecdsa256', 'ecdsa384', 'ecdsa521', 'ed25519',
                'null', 'var']
SIG_TYPE = {'digest': 0, 'digest-int': 0, 'hmac': 4, 'rsa': 1, 'ecdsa256': 3, 'ecdsa384': 3, 'ecdsa521': 3,
            'ed25519': 5, 'null': 200, 'var': 201}


def make_signer(rng, kind, key_name=None):
    """-> (signer or None, info dict for independent verification)."""
    if key_name is None:
        key_name = [rc.comp(8, b'key'), rc.comp(8, b'KEY'), rc.comp(8, gen.rand_bytes(rng, 4))]
    info = {'kind': kind, 'key_name': key_name}
    if kind == 'none':
        return None, info
    if kind == 'digest':
        info['key_name'] = None
        return DigestSha256Signer(), info
    if kind == 'digest-int':
        info['key_name'] = None
        return DigestSha256Signer(for_interest=True), info
    if kind == 'hmac':
        # key lengths cycle deterministically through both sides of the hash block size (64): longer keys are hashed first (RFC 2104)
        _HMAC_SEQ[0] += 1
        key = gen.rand_bytes(rng, [32, 65, 1, 100, 64, 200, 16, 131][_HMAC_SEQ[0] % 8])
        info['key'] = key
        return HmacSha256Signer(key_name, key), info
    if kind == 'rsa':
        der = rsa_key(rng.randrange(3))
        info['pub'] = RSA.import_key(der).public_key().export_key('DER')
        return Sha256WithRsaSigner(key_name, der), info
    if kind.startswith('ecdsa'):
        curve = {'ecdsa256': 'P-256', 'ecdsa384': 'P-384', 'ecdsa521': 'P-521'}[kind]
        der = ec_key(curve, rng.randrange(2))
        info['pub'] = ECC.import_key(der).public_key().export_key(format='DER')
        return Sha256WithEcdsaSigner(key_name, der), info
    if kind == 'ed25519':
        der = ec_key('ed25519', rng.randrange(2))
        info['pub'] = ECC.import_key(der).public_key().export_key(format='DER')
        return Ed25519Signer(key_name, der), info
    if kind == 'null':
        info['key_name'] = None
        return NullSigner(), info
    if kind == 'var':
        r = rng.choice([1, 2, 8, 32, 72, 100, 200, 252])
        w = rng.choice([r, r, max(0, r - 1), max(0, r - 2), r // 2, 0, rng.randint(0, r)])
        kn = key_name if rng.random() < 0.5 else None
        info['key_name'] = kn
        info['reserve'], info['write'] = r, w
        return VarSigner(r, w, kn), info
    raise ValueError(kind)


def verify_independent(info, signed_portion, sig_value):
    """Independent (pycryptodome-direct) verification on the oracle's signed portion."""
    k = info['kind']
    if k in ('digest', 'digest-int'):
        return hashlib.sha256(signed_portion).digest() == sig_value
    if k == 'hmac':
        return HMAC.new(info['key'], signed_portion, SHA256).digest() == sig_value
    if k == 'rsa':
        try:
            pkcs1_15.new(RSA.import_key(info['pub'])).verify(SHA256.new(signed_portion), sig_value)
            return True
        except ValueError:
            return False
    if k.startswith('ecdsa'):
        try:
            DSS.new(ECC.import_key(info['pub']), 'fips-186-3', 'der').verify(SHA256.new(signed_portion), sig_value)
            return True
        except ValueError:
            return False
    if k == 'ed25519':
        try:
            eddsa.new(ECC.import_key(info['pub']), 'rfc8032').verify(signed_portion, sig_value)
            return True
        except ValueError:
            return False
    if k == 'null':
        return sig_value == b''
    if k == 'var':
        h = hashlib.sha256(signed_portion).digest()
        return sig_value == (h * (info['write'] // 32 + 1))[:info['write']]
    return None


# ---------------------------------------------------------------- name input forms
ONE_SHOT_FORMS = ('generator', 'iterator', 'map')


def name_form(rng, comps, allow_str=True, one_shot=True):
    """One of the accepted input representations of the same name (NonStrictName: also any iterable of components,
    including one-shot generators / iterators, which can be walked only once)."""
    if one_shot and rng.random() < 0.12:
        k = rng.randrange(3)
        if k == 0:
            return (bytes(c) for c in comps), 'generator'
        if k == 1:
            return iter([bytes(c) for c in comps]), 'iterator'
        return map(bytes, [bytes(c) for c in comps]), 'map'
    if rng.random() < 0.15:
        # a tuple of components is an iterable of components like a list (also of exactly two components, which once meant a
        # (preference, name) delegation)
        if allow_str and rng.random() < 0.4:
            return tuple(rc.comp_to_canonical_uri(c) if rng.random() < 0.5 else bytes(c) for c in comps), 'tuple-mixed-str'
        return tuple(bytes(c) for c in comps), 'tuple-bytes'
    k = rng.randrange(6 if allow_str else 3)
    if k == 0:
        return [bytes(c) for c in comps], 'list-bytes'
    if k == 1:
        # the encoded form in any binary container (a Name sliced out of a received packet is a memoryview)
        e_ = rc.enc_name(comps)
        r_ = rng.randrange(3)
        return (e_, 'encoded') if r_ == 0 else (bytearray(e_), 'encoded-bytearray') if r_ == 1 else (memoryview(e_), 'encoded-memoryview')
    if k == 2:
        return [bytearray(c) if rng.random() < 0.5 else memoryview(bytes(c)) for c in comps], 'list-mixed-bin'
    if k == 3:
        if rng.random() < 0.3:
            from .common import OddStr
            return OddStr(rc.name_to_uri(comps, canonical=True)), 'canonical-uri-str-subclass'
        return rc.name_to_uri(comps, canonical=True), 'canonical-uri'
    if k == 4:
        return [rc.comp_to_canonical_uri(c) if rng.random() < 0.5 else bytes(c) for c in comps], 'list-mixed-str'
    return [bytes(c) for c in comps], 'list-bytes'


def gen_interest_param(rng):
    d = {}
    p = InterestParam()
    p.can_be_prefix = rng.random() < 0.4
    p.must_be_fresh = rng.random() < 0.4
    if rng.random() < 0.15:
        # flags given as integers / None instead of bool (ordinary Python truthiness; what counts is that the sizing pass and the
        # writing pass agree and that the flag read back is the truth value given)
        p.can_be_prefix = rng.choice([1, 0, None, 2])
        p.must_be_fresh = rng.choice([1, 0, None, 1])
    p.nonce = rng.choice([None, 0, 1, 0xFFFFFFFF, rng.getrandbits(32)])
    p.lifetime = rng.choice([None, 0, 1, 255, 256, 4000, 65535, 65536, 2**32 - 1, 2**32, 2**64 - 1, rng.getrandbits(rng.randint(1, 63))])
    p.hop_limit = rng.choice([None, None, 0, 1, 255, rng.randrange(256)])
    hints = []
    if rng.random() < 0.3:
        for _ in range(rng.randint(1, 3)):
            hints.append(gen.simple_name(rng, 1, 3))
    if hints and rng.random() < 0.35:
        hints.insert(rng.randrange(len(hints) + 1), list(rng.choice(hints)))     # the same delegation listed twice (kept twice)
    p.forwarding_hint = [name_form(rng, h, one_shot=False)[0] for h in hints]
    d.update(can_be_prefix=bool(p.can_be_prefix), must_be_fresh=bool(p.must_be_fresh), nonce=p.nonce, lifetime=p.lifetime,
             hop_limit=p.hop_limit, fwd_hint=hints)
    if rng.random() < 0.3:
        # the keyword front-end: the same parameters given as a dictionary (what express_interest(**kwargs) does), MetaInfo likewise
        p = InterestParam.from_dict({'can_be_prefix': p.can_be_prefix, 'must_be_fresh': p.must_be_fresh, 'nonce': p.nonce, 'lifetime': p.lifetime,
                                     'hop_limit': p.hop_limit, 'forwarding_hint': p.forwarding_hint, 'unrelated_keyword': 1})
    return p, d


def mutate_meta(rng, m, d):
    """Change 1-3 fields of an existing MetaInfo object in place (and the expectation with it): a producer reuses one
    object for many packets."""
    for _ in range(rng.randint(1, 3)):
        f = rng.choice(['ct', 'fp', 'fb'])
        if f == 'ct':
            d['content_type'] = m.content_type = rng.choice([None, 0, 1, 255, 256, 65536, 2**32])
        elif f == 'fp':
            d['freshness'] = m.freshness_period = rng.choice([None, 0, 1, 255, 256, 65535, 65536, 2**32, 2**64 - 1])
        else:
            d['final_block'] = m.final_block_id = rng.choice([None, b'', rc.comp(0x32, rc.enc_nni(rng.choice([0, 9, 255, 300, 70000]))), rc.comp(8, b'last'),
                                                             gen.rand_bytes(rng, rng.randint(1, 12))])
    return m, d


def mutate_interest_param(rng, p, d):
    for _ in range(rng.randint(1, 3)):
        f = rng.choice(['cbp', 'mbf', 'nonce', 'lifetime', 'hop', 'hint'])
        if f == 'cbp':
            d['can_be_prefix'] = p.can_be_prefix = not p.can_be_prefix
        elif f == 'mbf':
            d['must_be_fresh'] = p.must_be_fresh = not p.must_be_fresh
        elif f == 'nonce':
            d['nonce'] = p.nonce = rng.choice([None, 0, 7, 0xFFFFFFFF])
        elif f == 'lifetime':
            d['lifetime'] = p.lifetime = rng.choice([None, 0, 1, 255, 256, 4000, 65536, 2**32, 2**64 - 1])
        elif f == 'hop':
            d['hop_limit'] = p.hop_limit = rng.choice([None, 0, 1, 255])
        else:
            hints = [gen.simple_name(rng, 1, 3) for _ in range(rng.randint(0, 2))]
            p.forwarding_hint = [name_form(rng, h, one_shot=False)[0] for h in hints]
            d['fwd_hint'] = hints
    return p, d


def gen_meta_info(rng):
    k = rng.random()
    if k < 0.1:
        return None, {'has_meta': False, 'content_type': None, 'freshness': None, 'final_block': None}
    ct = rng.choice([None, 0, 0, 1, 2, 3, 255, 256, 65536, 2**32, rng.getrandbits(rng.randint(1, 63))])
    fp = rng.choice([None, None, 0, 1, 1000, 255, 256, 65535, 65536, 2**32 - 1, 2**32, 2**64 - 1])
    fb = rng.choice([None, None, None, b'', rc.comp(0x32, rc.enc_nni(rng.choice([0, 1, 255, 256, 70000]))),
                     rc.comp(8, b'last'), gen.rand_bytes(rng, rng.randint(1, 10))])
    m = MetaInfo(content_type=ct, freshness_period=fp, final_block_id=fb)
    if rng.random() < 0.3:
        m = MetaInfo.from_dict({'content_type': ct, 'freshness_period': fp, 'final_block_id': fb, 'unrelated_keyword': 1})
    return m, {'has_meta': True, 'content_type': ct, 'freshness': fp, 'final_block': fb}


def payload_lengths():
    base = gen.boundary_lengths()
    return base + [1000, 8800, 65000, 69997, 70000]
