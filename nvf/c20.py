"""C20 - client configuration resolves with environment over file over platform default.

A 25-line reference resolver is compared with read_client_conf() over the full product of
environment / file / location presence in a sandbox HOME; an audit-hook monitor records which
candidate files are actually opened; default_face / default_keychain are checked for the URIs /
locations they denote.
"""
import itertools
import os
import shutil
import sys
import tempfile

from . import gen
from .common import raising_site

from ndn import client_conf
from ndn.platform import Platform
from ndn.transport.stream_face import UnixFace, TcpFace
from ndn.transport.udp_face import UdpFace
from ndn.security import KeychainSqlite3, TpmFile

RULE = ('full product of {NDN_CLIENT_TRANSPORT, _PIB, _TPM set/unset} x {candidate configuration files absent / present with '
        'every subset of the three keys, comments, blank lines, key=value and key: value} x {store location existing '
        'absolute, relative to the file, relative to cwd, missing}; transport URIs over unix/tcp/tcp4/tcp6/udp/udp4/udp6 '
        'with/without port, IPv6 literals, upper-case schemes and unsupported schemes; distinct = the configuration tuple; '
        'non-trivial = at least one override source present')

OPEN_LOG = []
_hook_on = [False]
_hook_installed = [False]


def _audit(event, args):
    if _hook_on[0] and event == 'open' and args and isinstance(args[0], str):
        OPEN_LOG.append(args[0])


def install_hook():
    if not _hook_installed[0]:
        sys.addaudithook(_audit)
        _hook_installed[0] = True


# ------------------------------------------------------------------ reference resolver
def ref_parse(text):
    out = {}
    for line in text.split('\n'):
        ln = line.strip()
        if not ln or ln[0] in '#;':
            continue
        cut = [i for i in (ln.find('='), ln.find(':')) if i >= 0]
        if not cut:
            continue
        i = min(cut)
        out[ln[:i].strip().lower()] = ln[i + 1:].strip()
    return out


def ref_resolve(env, files, defaults, default_locs, exists):
    vals = dict(defaults)
    conf_path = ''
    for p, text in files:
        if text is not None:
            conf_path = p
            parsed = ref_parse(text)
            for k in vals:
                if k in parsed:
                    vals[k] = parsed[k]
            break
    for k in vals:
        if k in env:
            vals[k] = env[k]
    for k in ('pib', 'tpm'):
        scheme, _, loc = vals[k].partition(':')
        if not (loc and exists(loc)):
            cand = os.path.join(os.path.dirname(conf_path), loc) if loc else ''
            if cand and exists(cand):
                loc = cand
            else:
                loc = default_locs[k]
        vals[k] = f'{scheme}:{loc}'
    return vals, conf_path


# ------------------------------------------------------------------ the check
def check_read_conf(ctx, rng):
    install_hook()
    root = tempfile.mkdtemp(prefix='nvf-conf-')
    old_env = dict(os.environ)
    old_cwd = os.getcwd()
    plat = Platform()
    orig_paths = type(plat).client_conf_paths
    try:
        # several users' home directories in one process: which one counts is decided by HOME at the time of the call
        homes = [os.path.join(root, 'home'), os.path.join(root, 'home-b'), os.path.join(root, 'home c')]
        for h in homes:
            os.makedirs(os.path.join(h, '.ndn', 'ndnsec-key-file'))
        home = homes[0]
        os.environ['HOME'] = home
        sys_cands = [os.path.join(root, 'usr_local', 'client.conf'), os.path.join(root, 'opt', 'client.conf'), os.path.join(root, 'etc', 'client.conf')]
        for c in sys_cands:
            os.makedirs(os.path.dirname(c))
        # the per-user candidate stays the platform's own (first entry of its list); the system-wide ones are redirected into the sandbox
        type(plat).client_conf_paths = lambda self: orig_paths(self)[:1] + list(sys_cands)
        all_user_cands = [os.path.join(h, '.ndn', 'client.conf') for h in homes]
        cands = [all_user_cands[0]] + sys_cands
        cwd = os.path.join(root, 'cwd')
        os.makedirs(cwd)
        os.chdir(cwd)
        # locations
        import locale
        utf8 = locale.getpreferredencoding(False).lower().replace('-', '') in ('utf8',) and sys.getfilesystemencoding().lower().replace('-', '') == 'utf8'
        ctx.klass('non-ascii-locations' if utf8 else 'non-ascii-locations-skipped:locale-is-not-utf8')
        # store locations with non-ASCII characters (the file is text in the locale's encoding, UTF-8 here)
        # (also: a blank followed by ';' or '#' inside a location is part of the location - only whole lines are comments)
        abs_pib = os.path.join(root, 'stores', 'pib-Schlüssel ;alt' if utf8 else 'pib ;alt')
        abs_tpm = os.path.join(root, 'stores', 'tpm-clés-nœud #2' if utf8 else 'tpm #2')
        os.makedirs(abs_pib)
        os.makedirs(abs_tpm)
        for c in all_user_cands + sys_cands:
            os.makedirs(os.path.join(os.path.dirname(c), 'relstore'), exist_ok=True)      # relative to each conf file
            os.makedirs(os.path.join(os.path.dirname(c), 'relstore', 'ndnsec-key-file'), exist_ok=True)
        os.makedirs(os.path.join(cwd, 'cwdstore'))
        dotfile = os.path.join(root, 'dotfiles', 'ndn', 'client.conf')
        os.makedirs(os.path.join(os.path.dirname(dotfile), 'relstore', 'ndnsec-key-file'))       # decoy beside the link target
        # decoys: plausible places that exist but that no rule of the statement selects (a key directory beside a relocated
        # public-information store, stores next to the working directory)
        for d in (os.path.join(abs_pib, 'ndnsec-key-file'), os.path.join(cwd, 'cwdstore', 'ndnsec-key-file'), os.path.join(cwd, 'ndnsec-key-file'),
                  os.path.join(cwd, '.ndn', 'ndnsec-key-file')):
            os.makedirs(d, exist_ok=True)
        defaults = {'transport': plat.default_transport(), 'pib': 'pib-sqlite3', 'tpm': 'tpm-file'}
        default_locs = {'pib': os.path.join(home, '.ndn'), 'tpm': os.path.join(home, '.ndn', 'ndnsec-key-file')}
        # (a location that exists is used as given - also when it is a regular file, e.g. the pib.db file itself)
        a_file = os.path.join(root, 'stores', 'pib.db')
        with open(a_file, 'w') as f_:
            f_.write('x')
        for c in all_user_cands + sys_cands:
            with open(os.path.join(os.path.dirname(c), 'relfile.db'), 'w') as f_:
                f_.write('x')
        # an existing location whose path contains a colon (everything after the FIRST colon of the value is the location)
        colon_dir = os.path.join(root, 'stores', 'vol:2', 'keys')
        os.makedirs(colon_dir, exist_ok=True)
        for c in all_user_cands:
            # beside each per-user configuration directory: a store that is reached with '..' from it (and from nowhere else: not
            # from the working directory)
            up_ = os.path.join(os.path.dirname(os.path.dirname(c)), 'upstore')
            os.makedirs(os.path.join(up_, 'ndnsec-key-file'), exist_ok=True)
        loc_choices = {'none': None, 'abs': 'ABS', 'rel-file': 'relstore', 'rel-cwd': 'cwdstore', 'missing-abs': os.path.join(root, 'nope'),
                       'missing-rel': 'nonexistent-dir', 'abs-regular-file': a_file, 'rel-regular-file': 'relfile.db', 'abs-with-colon': colon_dir, 'rel-dotdot': '../upstore'}
        # (a transport this library has no face for - another implementation's, or a typo - is still the configured value: it is refused
        # when a face is made from it, not silently replaced by the platform default while the file is read)
        transports = ['unix:///tmp/x.sock', 'tcp://10.0.0.1:7000', 'udp4://host.example', 'ws://router.example:9696/ws', 'unxi:///run/nfd/nfd.sock'] + \
            (['unix:///tmp/nfd-sœur/ü.sock'] if utf8 else [])

        def value_for(key, loc_kind, variant):
            if key == 'transport':
                return transports[variant % len(transports)]
            scheme = 'pib-sqlite3' if key == 'pib' else 'tpm-file'
            loc = loc_choices[loc_kind]
            if loc is None:
                return scheme
            if loc == 'ABS':
                loc = abs_pib if key == 'pib' else abs_tpm
            return f'{scheme}:{loc}'

        def render(keys, loc_kind, style, variant):
            lines = ['; client configuration', '', '# comment line']
            if variant % 6 == 4:
                # a long file (a commented template as distributions ship it): settings stand beyond the first 4 / 8 / 64 KiB
                lines += ['# ' + 'x' * 70] * [60, 120, 950][(variant // 6) % 3]
                ctx.event('configuration-file-longer-than-4KiB')
            for k in keys:
                v = value_for(k, loc_kind, variant)
                sep = {'eq': '=', 'colon': ': ', 'eqsp': ' = '}[style]
                kk = k if variant % 3 else k.upper() if variant % 2 else k
                lines.append(f'{kk}{sep}{v}')
                lines.append('')
                if variant % 12 == 10:
                    lines += ['; ' + '-' * 60] * 80        # (and between the settings)
            lines.append('unrelated=1')
            return '\n'.join(lines) + '\n'

        key_subsets = [c for r in range(4) for c in itertools.combinations(['transport', 'pib', 'tpm'], r)]
        env_subsets = key_subsets
        file_layouts = [(), (0,), (1,), (3,), (0, 2), (1, 3), (0, 1, 2, 3)]     # which candidate files exist
        cases = []
        for envs in env_subsets:
            for layout in file_layouts:
                for fkeys in key_subsets:
                    for loc_kind in loc_choices:
                        cases.append((envs, layout, fkeys, loc_kind))
        full = len(cases)
        if not ctx.quick:
            cases = [c for i, c in enumerate(cases) if i % ctx.nshards == ctx.shard]
        ctx.exhaustive = True
        ctx.extra['exhaustive_subspace'] = f'{full} configurations: env subsets x file layouts x key subsets x location kinds (presence product enumerated completely; values sampled)'
        for ci, (envs, layout, fkeys, loc_kind) in enumerate(cases):
            variant = ci
            style = ['eq', 'colon', 'eqsp'][ci % 3]
            for c in all_user_cands + sys_cands:
                if os.path.exists(c):
                    os.remove(c)
            # another user's home every few configurations (first configuration: the first home)
            home = homes[(ci // 3) % len(homes)]
            os.environ['HOME'] = home
            cands = [os.path.join(home, '.ndn', 'client.conf')] + sys_cands
            default_locs = {'pib': os.path.join(home, '.ndn'), 'tpm': os.path.join(home, '.ndn', 'ndnsec-key-file')}
            ctx.event('home-' + str(homes.index(home)))
            files = []
            for i, c in enumerate(cands):
                if i in layout:
                    # the first existing file carries fkeys; later files carry decoy values that must be ignored
                    if i == layout[0]:
                        text = render(fkeys, loc_kind, style, variant)
                    else:
                        text = 'transport=tcp://decoy:1\npib=pib-sqlite3:/decoy\ntpm=tpm-file:/decoy\n'
                    if i == 0 and ci % 4 == 1:
                        # the per-user file is a symbolic link into another directory (dotfiles manager): "that file's directory" is
                        # where the candidate path lies; the link target's directory holds a decoy store of the same relative name
                        with open(dotfile, 'w') as f:
                            f.write(text)
                        os.symlink(dotfile, c)
                        ctx.event('candidate-file-is-a-symlink')
                    else:
                        with open(c, 'w') as f:
                            f.write(text)
                    # contents change from configuration to configuration while path, size class and timestamps may not
                    # (files installed with preserved timestamps): the result must depend on the contents only
                    os.utime(c, (1_600_000_000, 1_600_000_000))
                    files.append((c, text))
                else:
                    files.append((c, None))
            for k in ('TRANSPORT', 'PIB', 'TPM'):
                os.environ.pop(f'NDN_CLIENT_{k}', None)
                for alike in (f'ndn_client_{k.lower()}', f'Ndn_Client_{k.capitalize()}', f'NDN_CLIENT_{k}_', f'_NDN_CLIENT_{k}', f'NDN_CLIENT_{k.lower()}'):
                    os.environ.pop(alike, None)
            env = {}
            env_loc_kind = ['abs', 'rel-cwd', 'missing-abs', 'none', 'rel-file'][ci % 5]
            for k in envs:
                env[k] = value_for(k, env_loc_kind, variant + 1)
                if ci % 7 == 3:
                    env[k] = ''         # an override that is present but empty is still the override (e.g. export VAR=$UNSET)
                    ctx.event('environment-override-present-but-empty')
                os.environ[f'NDN_CLIENT_{k.upper()}'] = env[k]
            if ci % 5 == 2 and os.name == 'posix':
                # other variables of the environment whose names differ from the three only in case / by an affix are other
                # variables (names are case-sensitive): set after the real ones, and also where the real one is absent
                for k in ('TRANSPORT', 'PIB', 'TPM'):
                    decoy = {'TRANSPORT': 'tcp://look-alike:7', 'PIB': 'pib-sqlite3:/look/alike', 'TPM': 'tpm-file:/look/alike'}[k]
                    for alike in (f'ndn_client_{k.lower()}', f'Ndn_Client_{k.capitalize()}', f'NDN_CLIENT_{k}_', f'_NDN_CLIENT_{k}', f'NDN_CLIENT_{k.lower()}'):
                        os.environ[alike] = decoy
                ctx.event('look-alike-environment-variables')
            # which of the forwarder's two well-known local sockets exist (Linux: the current /run/nfd/nfd.sock, the one of old
            # forwarders /run/nfd.sock): the platform default is the current one unless ONLY the old one is there.  The harness
            # answers os.path.exists for exactly these two paths (they lie outside the sandbox) and nothing else.
            real_exists = os.path.exists
            if sys.platform.startswith('linux'):
                sock_state = [(False, False), (True, False), (False, True), (True, True)][(ci // 2) % 4]
                defaults = dict(defaults, transport='unix:///run/nfd.sock' if (not sock_state[0] and sock_state[1]) else 'unix:///run/nfd/nfd.sock')
                ctx.event('forwarder-sockets-present-%d%d' % sock_state)

                def fake_exists(p_, st=sock_state):
                    if p_ == '/run/nfd/nfd.sock':
                        return st[0]
                    if p_ == '/run/nfd.sock':
                        return st[1]
                    return real_exists(p_)
                os.path.exists = fake_exists
            if ci % 9 == 4 and layout:
                # an earlier attempt of this process to read the configuration FAILED (the file was malformed: a line that is no
                # setting, a duplicated key); the file has been repaired since - what the refused version said is no input
                good_text = files[layout[0]][1]
                real_path = dotfile if os.path.islink(cands[layout[0]]) else cands[layout[0]]
                for bad in ('transport=tcp://refused-version:1\npib=pib-sqlite3:/refused/version\ntpm=tpm-file:/refused/version\nthis line is no setting\n',
                            'tpm=tpm-file:/refused/twice\ntransport=udp://refused-twice:2\ntpm=tpm-file:/refused/twice\npib=pib-sqlite3:/refused/twice\n'):
                    with open(real_path, 'w') as f:
                        f.write(bad)
                    try:
                        client_conf.read_client_conf()
                    except Exception:   # noqa
                        pass
                with open(real_path, 'w') as f:
                    f.write(good_text)
                os.utime(cands[layout[0]], (1_600_000_000, 1_600_000_000))
                ctx.event('read-after-a-refused-version-of-the-file')
            exp, conf_path = ref_resolve(env, files, defaults, default_locs, real_exists)
            w = {'env': env, 'existing_files': [os.path.relpath(c, root) for i, c in enumerate(cands) if i in layout], 'file_keys': fkeys,
                 'location': loc_kind, 'style': style, 'file_text': files[layout[0]][1] if layout else None}
            del OPEN_LOG[:]
            no_home_var = ci % 6 == 5
            if no_home_var:
                # a process started without HOME in its environment (a service, cron, `env -i`): the user's home directory is the one
                # the password database names, and the per-user candidates are where they always are
                import pwd
                real_getpwuid = pwd.getpwuid
                pw_ = real_getpwuid(os.getuid())
                pwd.getpwuid = lambda uid_, pw_=pw_, home=home: pw_.__class__((pw_[0], pw_[1], pw_[2], pw_[3], pw_[4], home, pw_[6]))
                del os.environ['HOME']
                ctx.event('HOME-absent-from-the-environment')
            _hook_on[0] = True
            try:
                got = client_conf.read_client_conf()
            except Exception as e:   # noqa
                _hook_on[0] = False
                os.path.exists = real_exists
                if no_home_var:
                    pwd.getpwuid = real_getpwuid
                    os.environ['HOME'] = home
                ctx.report(f'read-client-conf-raises:{type(e).__name__}@{raising_site(e)[0]}', f'{e!r}', w)
                continue
            _hook_on[0] = False
            os.path.exists = real_exists
            if no_home_var:
                pwd.getpwuid = real_getpwuid
                os.environ['HOME'] = home
            real_cands = {os.path.realpath(c_) for c_ in all_user_cands + sys_cands if os.path.lexists(c_)}
            opened = [os.path.realpath(p) for p in OPEN_LOG if os.path.realpath(p) in real_cands]      # whichever spelling of the path was opened
            ctx.case((envs, layout, fkeys, loc_kind, style), nontrivial=bool(envs or (layout and fkeys)),
                     sample=dict(w, result=got) if ci % 400 == 0 else None)
            ctx.event('configuration')
            for k in ('transport', 'pib', 'tpm'):
                if got.get(k) != exp[k]:
                    src = 'env' if k in env else 'file' if (layout and k in fkeys) else 'default'
                    ctx.report(f'conf-value-differs:{k}:expected-from-{src}', f'{k}: got {got.get(k)!r}, expected {exp[k]!r}',
                               dict(w, got=got, expected=exp))
            should_open = [os.path.realpath(conf_path)] if conf_path else []
            if opened != should_open:
                ctx.report('conf-files-opened', f'opened {[os.path.relpath(p, root) for p in opened]}, only the first existing candidate may be read', w)
            else:
                ctx.event('audit-open-checked')
    finally:
        type(plat).client_conf_paths = orig_paths
        if 'real_exists' in dir():
            os.path.exists = real_exists
        os.chdir(old_cwd)
        os.environ.clear()
        os.environ.update(old_env)
        shutil.rmtree(root, ignore_errors=True)


URIS = [
    ('unix:///run/nfd/nfd.sock', ('unix', '/run/nfd/nfd.sock', None)),
    ('unix:///tmp/a b/x.sock', ('unix', '/tmp/a b/x.sock', None)),
    ('unix:/var/run/n.sock', ('unix', '/var/run/n.sock', None)),
    ('tcp://127.0.0.1', ('tcp', '127.0.0.1', 6363)), ('tcp://127.0.0.1:6363', ('tcp', '127.0.0.1', 6363)),
    ('tcp://example.com:7000', ('tcp', 'example.com', 7000)), ('tcp4://10.1.2.3:1', ('tcp', '10.1.2.3', 1)),
    ('tcp6://[::1]:6363', ('tcp', '::1', 6363)), ('tcp6://[2001:db8::5]', ('tcp', '2001:db8::5', 6363)),
    ('TCP://Host.Example:65535', ('tcp', 'host.example', 65535)),
    ('udp://192.168.0.9', ('udp', '192.168.0.9', 6363)), ('udp4://192.168.0.9:56363', ('udp', '192.168.0.9', 56363)),
    ('udp6://[fe80::1]:6363', ('udp', 'fe80::1', 6363)), ('UDP4://h:9', ('udp', 'h', 9)),
    ('udp://224.0.23.170', ('udp', '224.0.23.170', 6363)), ('udp4://239.255.0.1', ('udp', '239.255.0.1', 6363)), ('udp6://[ff02::1234]', ('udp', 'ff02::1234', 6363)),
    ('udp://224.0.23.170:56363', ('udp', '224.0.23.170', 56363)), ('tcp://0.0.0.0', ('tcp', '0.0.0.0', 6363)), ('udp://255.255.255.255', ('udp', '255.255.255.255', 6363)),
    ('ws://localhost:9696', None), ('wss://example.com/ws', None), ('http://example.com', None), ('', None),
    ('localhost:6363', None), ('ether://[01:00:5e:00:17:aa]', None), ('tcp5://h:1', None), ('dev://eth0', None), ('unixx:///x', None),
    ('tcps://h:1', None), ('udplite://h', None), ('uni:///x', None), ('unix-stream:///x', None), ('tcp46://h', None),
]


def check_faces(ctx, rng):
    uris = list(URIS)
    for _ in range(ctx.n(200, 3000000)):
        scheme = rng.choice(['tcp', 'tcp4', 'tcp6', 'udp', 'udp4', 'udp6', 'ws', 'quic', 'ftp', 'tcpx', 'Tcp', 'UDP6', 'tcps', 'tcp46', 'tcp+tls',
                             'udplite', 'udp5', 'udp-dev', 'xtcp', 'tc', 'ud', 'unixs', 'tcp4x', 'udp6.1'])
        host = rng.choice(['h', 'a.b.c', '1.2.3.4', '[::1]', '[2001:db8::1]', 'localhost', '224.0.23.170', '239.255.0.1', '[ff02::1234]', '255.255.255.255', '0.0.0.0', '[::]'])
        port = rng.choice([None, 1, 80, 6363, 6364, 65535, rng.randint(1, 65535)])
        uri = f'{scheme}://{host}' + (f':{port}' if port else '')
        kind = 'tcp' if scheme.lower() in ('tcp', 'tcp4', 'tcp6') else 'udp' if scheme.lower() in ('udp', 'udp4', 'udp6') else None
        uris.append((uri, (kind, host.strip('[]').lower(), port or 6363) if kind else None))
    # unix socket paths: every first letter, short and long first segments, dots, spaces, colons, repeated letters of the scheme name
    firsts = ['usr', 'nix', 'unix', 'u', 'n', 'i', 'x', 'xinu', 'nnn', 'opt', 'home', 'srv', 'mnt', 'Users', 'private', '.hidden', 'a:b', 'unix:', 'in it', '0', '_']
    for i in range(ctx.n(120, 20000)):
        segs = [firsts[i % len(firsts)] if rng.random() < 0.7 else ''.join(rng.choice('unixabcXYZ019._-: ') for _ in range(rng.randint(1, 8))).strip() or 'q']
        segs += [''.join(rng.choice('unixsocketabc019._-') for _ in range(rng.randint(1, 9))) for _ in range(rng.randint(0, 4))]
        path = '/' + '/'.join(segs)
        if '//' in path or path.endswith(' '):
            continue
        uris.append((rng.choice(['unix://', 'unix://', 'UNIX://', 'unix:']) + path, ('unix', path, None)))
    for uri, exp in uris:
        w = {'uri': uri, 'expected': exp}
        try:
            face = client_conf.default_face(uri)
            err = None
        except ValueError as e:
            face, err = None, e
        except Exception as e:   # noqa
            ctx.report(f'default-face-raises:{type(e).__name__}', f'default_face raised {e!r}', w)
            continue
        ctx.case(('face', uri), nontrivial=True)
        ctx.event('face-uri-supported' if exp else 'face-uri-unsupported')
        if exp is None:
            if face is not None:
                ctx.report('unknown-scheme-accepted', f'default_face({uri!r}) returned {type(face).__name__} instead of refusing', w)
            continue
        if face is None:
            ctx.report('supported-uri-refused', f'default_face({uri!r}) raised {err!r}', w)
            continue
        kind, host, port = exp
        cls = {'unix': UnixFace, 'tcp': TcpFace, 'udp': UdpFace}[kind]
        if type(face) is not cls:
            ctx.report('face-class-wrong', f'{uri!r} -> {type(face).__name__}, expected {cls.__name__}', w)
            continue
        if kind == 'unix':
            if face.path != host:
                ctx.report('face-path-wrong', f'{uri!r} -> path {face.path!r}', w)
        else:
            if str(face.host).lower() != host or int(face.port) != port:
                ctx.report('face-address-wrong', f'{uri!r} -> {face.host!r}:{face.port!r}, expected {host}:{port}', w)


def check_connections(ctx, rng):
    """The address a face was built for is the address it connects to: several unix faces of one process are opened at the same time
    (two application tasks), some of them for a socket that does not exist yet and appears a little later.  Every listening socket
    records who connected; a face whose own socket is not there may fail or wait - it may not end up on another face's socket."""
    import asyncio
    import tempfile
    import shutil
    root = tempfile.mkdtemp(prefix='nvf-c20-sock-')
    try:
        for rep in range(ctx.n(3, 40)):
            res = {'conns': {}, 'errors': {}}

            async def main():
                servers = []
                paths = {k: os.path.join(root, f'{k}{rep}.sock') for k in ('late', 'there', 'never')}

                def serve(key):
                    async def on_conn(r, w_):
                        res['conns'][key] = res['conns'].get(key, 0) + 1
                        await asyncio.sleep(0.5)
                        w_.close()
                    return on_conn
                servers.append(await asyncio.start_unix_server(serve('there'), paths['there']))
                faces = {k: client_conf.default_face('unix://' + p_) for k, p_ in paths.items()}

                async def opener(key, delay):
                    await asyncio.sleep(delay)
                    try:
                        await asyncio.wait_for(faces[key].open(), 3)
                        res['errors'][key] = None
                    except BaseException as e:   # noqa
                        res['errors'][key] = e
                order = [('late', 0.0), ('never', 0.01), ('there', 0.03)] if rep % 2 == 0 else [('never', 0.0), ('late', 0.01), ('there', 0.02)]
                tasks = [asyncio.ensure_future(opener(k, d)) for k, d in order]
                await asyncio.sleep(0.15)
                servers.append(await asyncio.start_unix_server(serve('late'), paths['late']))      # the late socket appears now
                await asyncio.gather(*tasks)
                await asyncio.sleep(0.05)
                for f in faces.values():
                    try:
                        f.shutdown()
                    except Exception:   # noqa
                        pass
                for sv in servers:
                    sv.close()
                await asyncio.sleep(0)
            asyncio.run(main())
            ctx.case(('connections', rep % 2), nontrivial=True)
            ctx.event('unix-faces-opened-at-the-same-time')
            w = {'connections_per_socket': res['conns'], 'open_results': {k: (None if v is None else type(v).__name__) for k, v in res['errors'].items()}}
            opened = {k for k, v in res['errors'].items() if v is None}
            for key in ('there', 'late', 'never'):
                want = 1 if key in opened else 0
                if res['conns'].get(key, 0) > want:
                    ctx.report('face-connected-to-another-address', f'the socket of face "{key}" received {res["conns"].get(key, 0)} connections although only {want} face(s) built for that '
                               'path opened successfully: another face of the process ended up on it', w)
            if 'there' not in opened:
                ctx.report('supported-uri-refused:open', f'opening a unix face whose socket exists failed: {res["errors"].get("there")!r}', w)
    finally:
        shutil.rmtree(root, ignore_errors=True)


def check_keychain(ctx, rng):
    root = tempfile.mkdtemp(prefix='nvf-kc-')
    try:
        for i in range(ctx.n(6, 400)):
            pib_dir = os.path.join(root, f'pib{i}')
            tpm_dir = os.path.join(root, f'tpm {i}' if i % 2 else f'tpm{i}')
            os.makedirs(pib_dir)
            os.makedirs(tpm_dir)
            KeychainSqlite3.initialize(os.path.join(pib_dir, 'pib.db'), 'tpm-file', tpm_dir)
            kc = client_conf.default_keychain(f'pib-sqlite3:{pib_dir}', f'tpm-file:{tpm_dir}')
            ctx.case(('keychain', i), nontrivial=True)
            ctx.event('keychain')
            if not isinstance(kc, KeychainSqlite3) or kc.path != os.path.join(pib_dir, 'pib.db'):
                ctx.report('keychain-pib-path', f'default_keychain opened {getattr(kc, "path", None)!r}', {'pib': pib_dir})
            if not isinstance(kc.tpm, TpmFile) or kc.tpm.path != tpm_dir:
                ctx.report('keychain-tpm-path', f'default_keychain uses tpm {getattr(kc.tpm, "path", None)!r}', {'tpm': tpm_dir})
            kc.conn.close()
            # the store was initialised with another private-key directory (recorded inside the database) than the one configured
            # now (moved stores, NDN_CLIENT_TPM pointing elsewhere): the configured one is the one to use
            other_tpm = os.path.join(root, f'moved-tpm{i}')
            os.makedirs(other_tpm)
            kc2 = client_conf.default_keychain(f'pib-sqlite3:{pib_dir}', f'tpm-file:{other_tpm}')
            ctx.event('keychain-with-relocated-private-keys')
            if not isinstance(kc2.tpm, TpmFile) or kc2.tpm.path != other_tpm:
                ctx.report('keychain-tpm-path', f'default_keychain uses tpm {getattr(kc2.tpm, "path", None)!r} although {other_tpm!r} is configured (the database was initialised with {tpm_dir!r})',
                           {'tpm': other_tpm})
            else:
                # and keys really land there
                kc2.touch_identity(f'/relocated/{i}')
                if not os.listdir(other_tpm) or len(os.listdir(tpm_dir)) != 0:
                    ctx.report('keychain-tpm-path', 'a key generated through the configured store landed in another directory', {'tpm': other_tpm})
            kc2.conn.close()
            for bad in ((f'pib-unknown:{pib_dir}', f'tpm-file:{tpm_dir}'), (f'pib-sqlite3:{pib_dir}', f'tpm-unknown:{tpm_dir}')):
                try:
                    k2 = client_conf.default_keychain(*bad)
                    ctx.report('unknown-store-scheme-accepted', f'default_keychain{bad} did not refuse', None)
                except ValueError:
                    ctx.event('store-scheme-refused')
                except Exception as e:   # noqa
                    ctx.report(f'unknown-store-scheme-wrong-error:{type(e).__name__}', f'{e!r}', None)
    finally:
        shutil.rmtree(root, ignore_errors=True)


def run(ctx):
    ctx.rule = RULE
    rng = ctx.rng
    check_read_conf(ctx, rng)
    check_faces(ctx, rng)
    if ctx.shard == 0:
        check_connections(ctx, rng)
    else:
        ctx.event('unix-faces-opened-at-the-same-time', 0)
    check_keychain(ctx, rng)
    for k in ('read-after-a-refused-version-of-the-file', 'unix-faces-opened-at-the-same-time', 'look-alike-environment-variables', 'configuration-file-longer-than-4KiB', 'environment-override-present-but-empty', 'candidate-file-is-a-symlink', 'home-0', 'home-1', 'home-2', 'configuration', 'audit-open-checked', 'face-uri-supported', 'face-uri-unsupported', 'keychain', 'store-scheme-refused'):
        ctx.need_event(k)
    ctx.need_event('HOME-absent-from-the-environment')
    if sys.platform.startswith('linux'):
        ctx.need_event('forwarder-sockets-present-01')
        ctx.need_event('forwarder-sockets-present-11')
    ctx.assumptions = ['Linux platform default transport = the forwarder\'s well-known socket /run/nfd/nfd.sock, or /run/nfd.sock when only that one exists (the harness answers os.path.exists for these two paths)',
                       'the candidate file list of the platform is redirected into the sandbox (harness wrapper); the layering logic is the library\'s',
                       'platform default store locations exist in the sandbox HOME', 'values with %, more than one colon, or duplicate keys are outside the generated domain']
