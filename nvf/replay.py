"""``python -m nvf.replay <replay.json>``: re-runs the check that wrote the replay file with the same
tier and seed (every check is deterministic in (tier, seed)) and prints the recorded witnesses."""
import json
import os
import subprocess
import sys

from . import common, run


def main(argv):
    path = argv[0]
    if not os.path.isabs(path):
        path = os.path.join(common.ROOT, path)
    rp = json.load(open(path))
    for v in rp.get('violations', [])[:5]:
        print(json.dumps(v, indent=1)[:3000])
    env = run.child_env()
    env['VERIF_SEED'] = str(rp['seed'])
    return subprocess.call([sys.executable, '-m', 'nvf.run', rp['property'], rp['tier']], env=env, cwd=common.ROOT)


if __name__ == '__main__':
    sys.exit(main(sys.argv[1:]))
