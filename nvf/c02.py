"""C02 - signatures and parameter digests cover the specified bytes; tampering is detected.

Oracle: refcodec computes the signed portion / digest portion from the final wire by the spec
text; a RecordingSigner captures what the encoder handed to the real signer; verification is
re-done independently with pycryptodome.  Mutants (byte substitution at every position,
truncation, TLV-structural edits, signature splicing) must be rejected by the matching verifier
unless their signed portion, SignatureInfo and signature value are unchanged.
"""
import hashlib

from Cryptodome.PublicKey import ECC, RSA

from . import gen, pkts, refcodec as rc
from .common import raising_site

from ndn.encoding import make_interest, make_data, parse_interest, parse_data, MetaInfo, InterestParam, Name
from ndn.security.validator.known_key_validator import (verify_rsa, verify_ecdsa, verify_hmac, verify_ed25519,
                                                         RsaChecker, EccChecker, HmacChecker, Ed25519Checker)
from ndn.security.validator.digest_validator import sha256_digest_checker, params_sha256_checker, union_checker
from ndn.app_support.security_v2 import self_sign

LEVEL = 'fault_enumeration'

RULE = ('signed Data/Interest from the real encoder x matching verifiers (verify_*, *Checker.from_key/from_cert, '
        'sha256_digest_checker, params_sha256_checker); mutants: byte substitution at every position (2 values), '
        'every truncation, structural edits, spliced signatures, wrong key; distinct = (packet kind, signer, '
        'mutation kind, region of the mutated byte); non-trivial = a verifier verdict was obtained on a mutant'
        '; signed Interests with the parameters digest mid-name and an implicit digest last; union_checker compositions; SignatureValue element removed / emptied / shortened; NullSigner and a variable-length signer')

SIGNED_KINDS = ['digest', 'hmac', 'rsa', 'ecdsa256', 'ecdsa384', 'ecdsa521', 'ed25519', 'null', 'var']


_LOOP = []


def run_sync(coro):
    """Run a validator coroutine to completion (on a private event loop: a validator may legitimately suspend)."""
    if not _LOOP:
        import asyncio
        _LOOP.append(asyncio.new_event_loop())
    return _LOOP[0].run_until_complete(coro)


def verifiers_for(rng, sinfo, cert_wire=None):
    """-> list of (label, callable(name, sig_ptrs) -> bool, strict)"""
    k = sinfo['kind']
    out = []
    kn = sinfo['key_name']
    if k in ('digest', 'digest-int'):
        out.append(('sha256_digest_checker', lambda n, s: run_sync(sha256_digest_checker(n, s)), False))
    elif k == 'hmac':
        out.append(('verify_hmac', lambda n, s: verify_hmac(sinfo['key'], s), True))
        v = HmacChecker.from_key(kn, sinfo['key'])
        out.append(('HmacChecker.from_key', lambda n, s: run_sync(v(n, s)), True))
    elif k == 'rsa':
        pk = RSA.import_key(sinfo['pub'])
        out.append(('verify_rsa', lambda n, s: verify_rsa(pk, s), True))
        v = RsaChecker.from_key(kn, sinfo['pub'])
        out.append(('RsaChecker.from_key', lambda n, s: run_sync(v(n, s)), True))
    elif k.startswith('ecdsa'):
        pk = ECC.import_key(sinfo['pub'])
        out.append(('verify_ecdsa', lambda n, s: verify_ecdsa(pk, s), True))
        v = EccChecker.from_key(kn, sinfo['pub'])
        out.append(('EccChecker.from_key', lambda n, s: run_sync(v(n, s)), True))
        if cert_wire is not None:
            v2 = EccChecker.from_cert(cert_wire)
            out.append(('EccChecker.from_cert', lambda n, s: run_sync(v2(n, s)), True))
    elif k == 'ed25519':
        pk = ECC.import_key(sinfo['pub'])
        out.append(('verify_ed25519', lambda n, s: verify_ed25519(pk, s), True))
        v = Ed25519Checker.from_key(kn, sinfo['pub'])
        out.append(('Ed25519Checker.from_key', lambda n, s: run_sync(v(n, s)), True))
    # the shipped combinator: every member must accept (sha256_digest_checker has no opinion on other signature types)
    for label, fn, strict in list(out):
        if label.endswith('.from_key'):
            member = {'HmacChecker.from_key': lambda: HmacChecker.from_key(kn, sinfo['key']), 'RsaChecker.from_key': lambda: RsaChecker.from_key(kn, sinfo['pub']),
                      'EccChecker.from_key': lambda: EccChecker.from_key(kn, sinfo['pub']), 'Ed25519Checker.from_key': lambda: Ed25519Checker.from_key(kn, sinfo['pub'])}[label]()
            u = union_checker(sha256_digest_checker, member)
            out.append((f'union_checker(digest,{label})', lambda n, s, u=u: run_sync(u(n, s)), True))
    return out


def region_of(wire, is_data, pos):
    """Which top-level element of the packet a byte position falls into (for signatures)."""
    try:
        t, p = rc.read_var(wire, 0, len(wire))
        ln, q = rc.read_var(wire, p, len(wire))
        if pos < q:
            return 'outer-TL'
        for (t, ts, vs, ve) in rc.children(wire, q, len(wire)):
            if ts <= pos < ve:
                return f'T{t}' + ('-TL' if pos < vs else '')
    except rc.Reject:
        pass
    return '?'


def parse_any(is_data, wire):
    if is_data:
        n, _, _, sig = parse_data(wire)
    else:
        n, _, _, sig = parse_interest(wire)
    return n, sig


def strict_any(is_data, wire):
    return rc.strict_data(wire) if is_data else rc.strict_interest(wire)


def check_packet(ctx, rng, is_data, kind, content_len, mut_budget):
    comps = gen.simple_name(rng, 1, 4)
    key_name = gen.simple_name(rng, 2, 3) + [rc.comp(8, b'KEY'), rc.comp(8, gen.rand_bytes(rng, 4))]
    signer, sinfo = pkts.make_signer(rng, kind, key_name if kind not in ('digest', 'digest-int') else None)
    rec = pkts.RecordingSigner(signer)
    payload = gen.rand_bytes(rng, content_len)
    w = {'pkt': 'data' if is_data else 'interest', 'signer': kind, 'name': [c.hex() for c in comps], 'payload_len': content_len}
    try:
        if is_data:
            meta, _ = pkts.gen_meta_info(rng)
            wire = bytes(make_data(comps, meta, payload, rec))
        else:
            prm, _ = pkts.gen_interest_param(rng)
            ph = rng.choice([None, None, 0, 1])
            in_comps = list(comps)
            if ph is not None:
                in_comps.insert(min(ph, len(in_comps)), rc.comp(2, bytes(32) if rng.random() < 0.4 else gen.rand_bytes(rng, 32)))
                if rng.random() < 0.4:
                    # full-name layout: the parameters digest stays mid-name and an implicit digest comes last
                    in_comps.append(rc.comp(1, gen.rand_bytes(rng, 32)))
                    ctx.event('interest-name-ends-with-implicit-digest')
            # the name in any accepted form (a placeholder may then be spelled as the URI string 'params-sha256=...' inside a list)
            form, fl = pkts.name_form(rng, in_comps)
            if ph is not None and rng.random() < 0.5:
                form, fl = [rc.comp_to_canonical_uri(c) if rc.comp_parts(c)[0] == 2 else bytes(c) for c in in_comps], 'list-with-textual-digest-placeholder'
            w['form'] = fl
            ctx.klass('interest-name-form-' + fl)
            wire = bytes(make_interest(form, prm, payload if rng.random() < 0.8 else None, rec))
    except Exception as e:   # noqa
        ctx.report(f'encode-raises:{type(e).__name__}@{raising_site(e)[0]}', f'encoder raised {e!r}', w)
        return
    w['wire'] = wire if len(wire) < 700 else wire[:300]
    try:
        ref = strict_any(is_data, wire)
    except rc.Reject as e:
        ctx.report(f'wire-malformed:{e.reason}', f'signed packet is malformed: {e}', w)
        return
    sp, sv = ref['signed_portion'], ref['sig_value']
    # (a) bytes handed to the signer
    ctx.event('signer-capture')
    if rec.calls != 1:
        ctx.event('observation:signer-invoked-%d-times' % rec.calls)      # not part of the statement
    if rec.covered != sp:
        ctx.report('signer-input-not-signed-portion', 'bytes handed to the signer differ from the spec signed portion',
                   dict(w, handed=rec.covered[:200], spec=sp[:200]))
    # (b) bytes reported after parsing
    try:
        name, sig = parse_any(is_data, wire)
    except Exception as e:   # noqa
        ctx.report(f'parse-raises:{type(e).__name__}', f'parser rejects the library-made packet: {e!r}', w)
        return
    cov = b''.join(bytes(x) for x in sig.signature_covered_part)
    if cov != sp:
        ctx.report('reported-covered-part-differs', 'signature_covered_part after parsing differs from the spec signed portion',
                   dict(w, reported=cov[:200], spec=sp[:200]))
    if bytes(sig.signature_value_buf) != sv:
        ctx.report('reported-sigvalue-differs', 'signature_value_buf differs from SignatureValue', w)
    if not is_data:
        dcov = b''.join(bytes(x) for x in sig.digest_covered_part)
        if ref['digest_portion'] is not None and dcov != ref['digest_portion']:
            ctx.report('reported-digest-part-differs', 'digest_covered_part differs from ApplicationParameters..end', w)
        if not rc.params_digest_ok(ref):
            ctx.report('digest-component-wrong', 'digest component of the produced Interest != SHA-256(params..end)', w)
        if not run_sync(params_sha256_checker(name, sig)):
            ctx.report('params-checker-rejects-valid', 'params_sha256_checker rejects an untampered Interest', w)
        ctx.event('params-checker')
    # (c) independent verification + matching verifier accepts
    if pkts.verify_independent(sinfo, sp, sv) is not True:
        ctx.report('independent-verify-fails', 'signature does not verify independently over the spec signed portion', w)
    cert_wire = None
    if kind == 'ecdsa256' and rng.random() < 0.3:
        cert_wire = bytes(self_sign(key_name[:-2] + key_name[-2:], sinfo['pub'], signer)[1])
    vers = verifiers_for(rng, sinfo, cert_wire)
    for label, fn, strict in vers:
        try:
            ok = fn(name, sig)
        except Exception as e:   # noqa
            ctx.report(f'verifier-raises-on-valid:{label}:{type(e).__name__}', f'{label} raised on an untampered packet: {e!r}', w)
            continue
        ctx.event('verify-valid')
        if not ok:
            ctx.report(f'verifier-rejects-valid:{label}', f'{label} rejects an untampered packet', w)
    # wrong key of the same type must reject
    if kind not in ('digest', 'digest-int'):
        _, other = pkts.make_signer(rng, kind, key_name)
        if other.get('pub', other.get('key')) != sinfo.get('pub', sinfo.get('key')):
            for label, fn, strict in verifiers_for(rng, other):
                try:
                    ok = fn(name, sig)
                except Exception:   # noqa
                    ok = False
                ctx.event('verify-wrong-key')
                if ok:
                    ctx.report(f'wrong-key-accepted:{label}', f'{label} accepts a signature made with another key', w)

    # (d) mutants
    orig_si = None if ref['sig_info'] is None else dict(ref['sig_info'])
    muts = []
    if len(wire) <= 400:
        muts += list(gen.byte_mutants(rng, wire, per_pos=2))
    else:
        muts += list(gen.byte_mutants(rng, wire, per_pos=1, max_positions=200))
    tr = list(gen.truncations(wire))
    muts += tr if len(tr) < 80 else rng.sample(tr, 80)
    muts += list(gen.structural_mutants(rng, wire, limit=60))
    # the SignatureValue element removed / emptied / cut by one octet (enclosing length recomputed)
    try:
        b0, vs0, ve0 = rc.outer(wire, 6 if is_data else 5)
        kids = rc.children(b0, vs0, ve0)
        svk = [k_ for k_ in kids if k_[0] == (0x17 if is_data else 0x2e)]
        if svk:
            t_, ts_, vs_, ve_ = svk[-1]
            head, tail = b0[vs0:ts_], b0[ve_:ve0]
            for lab, repl in (('drop-sig-value', b''), ('empty-sig-value', rc.enc_tlv(t_, b'')), ('short-sig-value', rc.enc_tlv(t_, b0[vs_:ve_ - 1] if ve_ > vs_ else b'\x00')),
                              ('zero-padded-sig-value', rc.enc_tlv(t_, b0[vs_:ve_] + b'\x00' * rng.choice([1, 2, 8]))), ('ff-padded-sig-value', rc.enc_tlv(t_, b0[vs_:ve_] + b'\xff'))):
                muts.append((lab, rc.enc_tlv(6 if is_data else 5, head + repl + tail)))
            if kind.startswith('ecdsa'):
                # the same (r, s) written in another form than the DER SEQUENCE the format prescribes: fixed-width r||s (IEEE P1363),
                # BER with a long-form length, an INTEGER with a superfluous leading zero - all are other signature values
                r_, s_ = der_rs(b0[vs_:ve_])
                width = {'ecdsa256': 32, 'ecdsa384': 48, 'ecdsa521': 66}.get(kind, 32)
                der_body = b0[vs_ + 2:ve_] if b0[vs_ + 1] < 0x80 else b0[vs_ + 3:ve_]
                pad_r = b'\x02' + bytes([len(int_octets(r_)) + 1]) + b'\x00' + int_octets(r_) + b'\x02' + bytes([len(int_octets(s_))]) + int_octets(s_)
                for lab, val in (('raw-rs-sig-value', r_.to_bytes(width, 'big') + s_.to_bytes(width, 'big')),
                                 ('ber-longform-sig-value', b'\x30\x81' + bytes([len(der_body)]) + der_body if len(der_body) < 0x80 else None),
                                 ('der-padded-integer-sig-value', b'\x30' + (bytes([len(pad_r)]) if len(pad_r) < 0x80 else b'\x81' + bytes([len(pad_r)])) + pad_r)):
                    if val is not None:
                        muts.append((lab, rc.enc_tlv(6 if is_data else 5, head + rc.enc_tlv(t_, val) + tail)))
                        ctx.event('ecdsa-signature-reencoded')
    except (rc.Reject, KeyError):
        pass
    # the SignatureInfo gains / loses / changes its KeyLocator (a known, correctly placed optional element inside the signed portion);
    # the packet's content is altered as well in half of them
    try:
        b0, vs0, ve0 = rc.outer(wire, 6 if is_data else 5)
        kids = rc.children(b0, vs0, ve0)
        sik = [k_ for k_ in kids if k_[0] == (0x16 if is_data else 0x2c)]
        if sik:
            t_, ts_, vs_, ve_ = sik[-1]
            inner = rc.children(b0, vs_, ve_)
            kl = [k_ for k_ in inner if k_[0] == 0x1c]
            styp = [k_ for k_ in inner if k_[0] == 0x1b]
            if styp:
                after_type = styp[0][3]
                new_kl = rc.enc_tlv(0x1c, rc.enc_name([rc.comp(8, b'added'), rc.comp(8, b'KEY'), rc.comp(8, b'k')]))
                variants = [('keylocator-added', b0[vs_:after_type] + new_kl + b0[(kl[0][3] if kl else after_type):ve_]),
                            ('keylocator-digest-added', b0[vs_:after_type] + rc.enc_tlv(0x1c, rc.enc_tlv(0x1d, bytes(32))) + b0[(kl[0][3] if kl else after_type):ve_])]
                kb = sinfo.get('pub') or sinfo.get('key')
                if kb:
                    # ... a KeyDigest that really is the SHA-256 of the verifier's key: still not a signature
                    variants.append(('keylocator-digest-of-the-key', b0[vs_:after_type] + rc.enc_tlv(0x1c, rc.enc_tlv(0x1d, __import__('hashlib').sha256(kb).digest())) +
                                     b0[(kl[0][3] if kl else after_type):ve_]))
                if kl:
                    variants.append(('keylocator-removed', b0[vs_:kl[0][1]] + b0[kl[0][3]:ve_]))
                for lab, si_val in variants:
                    muts.append((lab, rc.enc_tlv(6 if is_data else 5, b0[vs0:ts_] + rc.enc_tlv(t_, si_val) + b0[ve_:ve0])))
    except (rc.Reject, KeyError, IndexError):
        pass
    # splice: signature value of another packet signed by the same signer
    try:
        other_wire = bytes(make_data(comps, MetaInfo(), gen.rand_bytes(rng, 5), signer)) if is_data else \
            bytes(make_interest(comps, InterestParam(nonce=7), b'zz', signer))
        oref = strict_any(is_data, other_wire)
        if len(oref['sig_value']) == len(sv) and oref['sig_value'] != sv:
            i = wire.rfind(sv)
            muts.append(('splice-sig', wire[:i] + oref['sig_value'] + wire[i + len(sv):]))
    except Exception:   # noqa
        pass
    # Interests: the parameters-digest component made longer / shorter while its first octets stay the correct hash (Name and
    # packet lengths fixed up): whatever else happens to such a packet, its digest component does not EQUAL the hash
    special = []
    if not is_data:
        try:
            r0 = rc.strict_interest(wire)
            if r0['app_param'] is not None and sum(1 for c in r0['name'] if rc.comp_parts(c)[0] == 2) == 1:
                b0, vs0, ve0 = rc.outer(wire, 5)
                kids = rc.children(b0, vs0, ve0)
                for extra in (b'\x00', b'\x01' * 8, b'\xaa' * 220, None):
                    comps2 = []
                    for c in r0['name']:
                        t_, v_ = rc.comp_parts(c)
                        comps2.append(rc.comp(2, (v_ + extra) if extra is not None else v_[:20]) if t_ == 2 else c)
                    special.append(('digest-length-changed', rc.enc_tlv(5, rc.enc_name(comps2) + b0[kids[0][3]:ve0])))
        except (rc.Reject, KeyError, IndexError):
            pass
    for label, m in special:
        try:
            mname, msig = parse_any(is_data, m)
        except Exception:   # noqa
            ctx.event('mutant-parse-rejected')
            continue
        try:
            got = bool(run_sync(params_sha256_checker(mname, msig)))
        except Exception:   # noqa
            ctx.event('params-checker-raised')
            continue
        ctx.event('params-checker-digest-length-changed')
        if got:
            ctx.report('params-checker-iff', 'params_sha256_checker=True for a digest component that is not 32 octets long (its first octets are the correct hash)',
                       dict(w, mutant=m[:400], label=label))
    if mut_budget is not None and len(muts) > mut_budget:
        keep = [m_ for m_ in muts if m_[0].endswith('sig-value') or m_[0] == 'splice-sig' or m_[0].startswith('keylocator-')]
        muts = keep + rng.sample([m_ for m_ in muts if m_ not in keep], max(0, mut_budget - len(keep)))
    for label, m in muts:
        if m == wire:
            continue
        try:
            mname, msig = parse_any(is_data, m)
        except Exception:   # noqa
            ctx.event('mutant-parse-rejected')
            continue
        try:
            mref = strict_any(is_data, m)
        except rc.Reject:
            mref = None
        mkind = label.split('@')[0]
        region = region_of(wire, is_data, int(label.split('@')[1])) if mkind == 'byte' else ''
        # params digest iff (e)
        if not is_data and mref is not None and mref['app_param'] is not None:
            n_dig = sum(1 for c in mref['name'] if rc.comp_parts(c)[0] == 2)
            if n_dig <= 1:
                try:
                    got = bool(run_sync(params_sha256_checker(mname, msig)))
                    exp = rc.params_digest_ok(mref)
                    ctx.event('params-checker-mutant')
                    if got != exp:
                        ctx.report('params-checker-iff', f'params_sha256_checker={got} but digest==SHA256(params..end) is {exp}',
                                   dict(w, mutant=m[:400], label=label))
                except Exception as e:   # noqa
                    ctx.event('params-checker-raised')
        if msig.signature_info is None:
            ctx.event('mutant-unsigned')
            continue
        if mref is None:
            ctx.event('mutant-malformed-by-reference')   # C07's domain
            continue
        unchanged = (mref['signed_portion'] == sp and mref['sig_value'] == sv and mref['sig_info'] == orig_si)
        for vlabel, fn, strict in vers:
            if not strict:
                # sha256_digest_checker has "no opinion" unless the type still says DIGEST
                if mref['sig_info'] is None or mref['sig_info']['type'] != 0:
                    ctx.event('digest-checker-no-opinion')
                    continue
            try:
                ok = bool(fn(mname, msig))
            except Exception:   # noqa
                ok = False
                ctx.event('verifier-raised-on-mutant')
            ctx.event('verify-mutant')
            ctx.case(('D' if is_data else 'I', kind, vlabel, mkind, region, ok), nontrivial=True)
            if ok and not unchanged:
                ctx.report(f'tampered-accepted:{vlabel}', f'{vlabel} accepts a packet whose signed portion / signature changed ({label})',
                           dict(w, mutant=m[:500], label=label))
            elif ok:
                ctx.event('mutant-accepted-legitimately')
            else:
                ctx.event('mutant-rejected')
            if unchanged and not ok and mref['name'] is not None:
                ctx.event('unsigned-part-mutant-rejected')   # allowed either way
    ctx.case(('pkt', 'D' if is_data else 'I', kind, c01_len(len(wire))), sample=w if ctx.evaluations < 4000 and rng.random() < 0.2 else None)


def int_octets(v):
    """DER INTEGER content octets of a non-negative integer (minimal, with the sign octet where needed)"""
    b = v.to_bytes((v.bit_length() + 8) // 8, 'big')
    return b


def der_rs(sig):
    """(r, s) of a DER ECDSA-Sig-Value (SEQUENCE of two INTEGERs)"""
    pos = 2 if sig[1] < 0x80 else 2 + (sig[1] & 0x7f)
    out = []
    for _ in range(2):
        assert sig[pos] == 2
        ln = sig[pos + 1]
        out.append(int.from_bytes(sig[pos + 2:pos + 2 + ln], 'big'))
        pos += 2 + ln
    return out[0], out[1]


def c01_len(n):
    return '<253' if n < 253 else '<65536' if n < 65536 else 'big'


def signature_value_sweep(ctx, rng):
    """Many signatures of one key: every shape of signature value the signer can emit (DER lengths, leading / trailing zero octets)
    must be accepted by the matching verifier."""
    for kind in ('ecdsa256', 'ed25519', 'hmac'):
        signer, sinfo = pkts.make_signer(rng, kind, gen.simple_name(rng, 2, 3))
        fns = [(label, fn) for label, fn, strict in verifiers_for(rng, sinfo) if not label.startswith('union')]
        for i in range(ctx.n(1200 if kind == 'ecdsa256' else 200, 40000)):
            wire = bytes(make_data([rc.comp(8, b's'), rc.comp(8, str(i).encode())], MetaInfo(), b'', signer))
            name, sig = parse_any(True, wire)
            sv = bytes(sig.signature_value_buf)
            ctx.klass(f'sig-value:{kind}:len={len(sv)}:last-octet-{"zero" if sv[-1:] == bytes(1) else "nonzero"}')
            for label, fn in fns:
                try:
                    ok = fn(name, sig)
                except Exception as e:   # noqa
                    ok = e
                if ok is not True:
                    ctx.report(f'verifier-rejects-valid:{label}', f'{label} does not accept an untampered packet (signature value {len(sv)} octets, ends in {sv[-1:].hex()}): {ok!r}',
                               {'wire': wire, 'signer': kind})
            ctx.event('verify-valid')
        ctx.case(('sig-sweep', kind), nontrivial=True)


def concurrent_union(ctx, rng):
    """ONE chain built with the library's combinator - an asynchronous member (a name policy that suspends, as a policy that looks
    something up does) in front of the signature checker - validates several packets AT ONCE (a receive pipeline does): genuine
    ones, ones whose content was changed after signing, ones the policy refuses.  Every verdict is what the same chain says when
    asked about that packet alone."""
    import asyncio
    for kind in ('hmac', 'ecdsa256', 'ed25519'):
        signer, sinfo = pkts.make_signer(rng, kind, gen.simple_name(rng, 2, 3))
        kn = sinfo['key_name']
        for rep in range(ctx.n(25, 3000)):
            member = {'hmac': lambda: HmacChecker.from_key(kn, sinfo['key']), 'ecdsa256': lambda: EccChecker.from_key(kn, sinfo['pub']),
                      'ed25519': lambda: Ed25519Checker.from_key(kn, sinfo['pub'])}[kind]()
            delays = {}

            async def policy(name, sig, *a):
                for _ in range(delays.get(bytes(name[-1]), 0)):
                    await asyncio.sleep(0)
                return bytes(name[0]) != rc.comp(8, b'refused')
            order = rng.choice(['policy-first', 'policy-first', 'policy-last', 'policy-between'])
            if order == 'policy-first':
                chain = union_checker(policy, member)
            elif order == 'policy-last':
                chain = union_checker(member, policy)
            else:
                chain = union_checker(sha256_digest_checker, policy, member)
            jobs = []
            for j in range(rng.randint(2, 6)):
                what = rng.choice(['genuine', 'genuine', 'content-changed', 'refused-by-policy'])
                first = rc.comp(8, b'refused') if what == 'refused-by-policy' else rc.comp(8, b'ok')
                tag = rc.comp(8, b'%d-%d' % (rep, j))
                wire = bytes(make_data([first, tag], MetaInfo(), b'content-%d' % j, signer))
                if what == 'content-changed':
                    i_ = wire.index(b'content-%d' % j)
                    wire = wire[:i_] + b'C' + wire[i_ + 1:]
                delays[tag] = rng.choice([0, 1, 1, 2, 3, 5])
                jobs.append((what, wire))
            parsed = [parse_any(True, w_) for what, w_ in jobs]

            async def all_at_once():
                return await asyncio.gather(*[chain(n_, s_) for (n_, s_) in parsed], return_exceptions=True)
            got = run_sync(all_at_once())
            ctx.event('packets-validated-at-once-by-one-chain', len(jobs))
            ctx.case(('concurrent-union', kind, order, tuple(w_ for w_, _ in jobs)), nontrivial=True)
            for (what, wire), g in zip(jobs, got):
                exp = what == 'genuine'
                ok = (g is True) if not isinstance(g, BaseException) else False        # (raising is not accepting)
                if ok != exp:
                    ctx.report(('tampered-accepted' if ok else 'verifier-rejects-valid') + f':union_checker:validated-at-once:{order}',
                               f'a chain ({order}) that validates {len(jobs)} packets at once said {g!r} for a {what} packet', {'signer': kind, 'batch': [w_ for w_, _ in jobs], 'wire': wire})


def unsigned_parameterised(ctx, rng):
    """The parameters-digest check on Interests that carry ApplicationParameters but NO signature - of 0, 1, 5, 252, 253, 300 octets,
    given as bytes / bytearray / memoryview: yes exactly when the digest component is the SHA-256 of what the format says it covers."""
    from ndn.encoding import make_interest, parse_interest, InterestParam
    for plen in (0, 0, 1, 5, 32, 252, 253, 300):
        for rep in range(ctx.n(3, 60)):
            nm = gen.simple_name(rng, 1, 4)
            raw = gen.rand_bytes(rng, plen)
            prm = [raw, bytearray(raw), memoryview(raw)][rep % 3]
            try:
                wire = bytes(make_interest(nm, InterestParam(nonce=rng.getrandbits(32), lifetime=rng.choice([None, 4000])), prm))
                ref = rc.strict_interest(wire)
            except Exception as e:   # noqa
                ctx.report(f'make-interest-raises:{type(e).__name__}', f'{e!r}', {'param_len': plen})
                continue
            for label, w_ in (('genuine', wire), ('digest-bit-flipped', None)):
                if w_ is None:
                    # flip one bit inside the digest component
                    i_ = wire.index(rc.comp(2, b'')[:1] + b'\x20') + 2 + rng.randrange(32)
                    w_ = wire[:i_] + bytes([wire[i_] ^ 0x10]) + wire[i_ + 1:]
                try:
                    n_, p_, a_, s_ = parse_interest(w_)
                    got = run_sync(params_sha256_checker(n_, s_))
                except Exception as e:   # noqa
                    got = e
                exp = label == 'genuine'
                ctx.event('unsigned-parameterised-interest-digest-checked')
                ctx.case(('unsigned-params', plen, label, rep % 3), nontrivial=True)
                if (got is True) != exp:
                    ctx.report('params-checker-rejects-valid:unsigned' if exp else 'params-checker-iff:unsigned',
                               f'params_sha256_checker said {got!r} for a {label} unsigned Interest with {plen} octets of ApplicationParameters', {'wire': w_, 'param_len': plen})


def run(ctx):
    ctx.rule = RULE
    rng = ctx.rng
    if ctx.shard == 0:
        signature_value_sweep(ctx, rng)
    concurrent_union(ctx, rng)
    unsigned_parameterised(ctx, rng)
    ctx.need_event('unsigned-parameterised-interest-digest-checked')
    ctx.need_event('packets-validated-at-once-by-one-chain')
    n = ctx.n(36, 4000)
    budget = 260 if ctx.quick else 900
    for i in range(n):
        kind = SIGNED_KINDS[i % len(SIGNED_KINDS)] if i < 2 * len(SIGNED_KINDS) else rng.choice(SIGNED_KINDS)
        is_data = (i // len(SIGNED_KINDS)) % 2 == 0 if i < 2 * len(SIGNED_KINDS) else rng.random() < 0.5
        L = rng.choice([0, 1, 5, 20, 60, 100, 200, 230, 260, 300]) if rng.random() < 0.9 else rng.choice([1000, 65530, 66000])
        if not is_data and kind == 'digest':
            kind = 'digest-int' if rng.random() < 0.5 else 'digest'
        check_packet(ctx, rng, is_data, kind, L, budget if kind != 'rsa' else budget // 2)
    for k in ('signer-capture', 'verify-valid', 'verify-mutant', 'mutant-rejected', 'params-checker-mutant',
              'mutant-accepted-legitimately', 'verify-wrong-key'):
        ctx.need_event(k)
    ctx.assumptions = ['pycryptodome is also the independent verifier (common mode)',
                       'sha256_digest_checker is judged only while the mutant still declares DIGEST_SHA256',
                       'a verifier that raises on a mutant counts as rejecting it',
                       'mutants the reference cannot parse are C07 domain, not judged here']
