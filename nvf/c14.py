"""C14 - the schema validator accepts exactly packets with a valid chain to the anchor.

The generator builds certificate hierarchies (so ground truth is known), injects at most one
deviation at one link, serves the certificates from a scripted certificate server on the
recording face and runs the real lvs_validator (legacy front-end, virtual clock).  Histories of
several packets x several validator instances (different anchors, default and explicit key
storages) are run in different orders: a verdict must not depend on what another instance did.
"""
import asyncio
import datetime
import itertools

from Cryptodome.PublicKey import ECC, RSA

from . import gen, pkts, vtime, refcodec as rc
from .boundary import RecFace
from .common import raising_site

from ndn import app as appv1, types
from ndn.app_support.light_versec import compile_lvs, Checker, lvs_validator
from ndn.app_support.security_v2 import self_sign, derive_cert
from ndn.encoding import make_data, parse_data, MetaInfo, Name
from ndn.security import KeychainDigest, DigestSha256Signer, NullSigner
from ndn.security.signer.sha256_ecdsa_signer import Sha256WithEcdsaSigner
from ndn.security.signer.sha256_rsa_signer import Sha256WithRsaSigner
from ndn.security.validator.cascade_validator import MemoryKeyStorage, EmptyKeyStorage, PublicKeyStorage

LEVEL = 'fault_enumeration'

RULE = ('certificate hierarchies of depth 1..4 (ECDSA P-256 / P-384 / P-521 and RSA-2048 keys) under generated level schemas; one deviation '
        'per case at every link {none, wrong issuer level, forged signature, substituted key, certificate not retrievable '
        '(timeout / Nack), unsigned element, missing key locator, key-locator loop, foreign hierarchy, signer certificate present only in the own keychain of the application}; anchors that do not '
        'match the roots of trust or are not self-signed; histories of 2-4 validations over 2-3 validator instances (default '
        'and explicit storages) in every order; distinct = (depth, key types, deviation, link) resp. (history order); '
        'non-trivial = every case; histories on one instance: a key locator naming a never-issued certificate of an already '
        'validated key, 3-12 validations in flight at once on a cold cache, anchor passed as a buffer the caller reuses afterwards')

C = lambda s: rc.comp(8, s)   # noqa
SITE = [C(b'site')]
START = datetime.datetime(2020, 1, 1)
VALIDITY = [START, 10 * 365 * 86400]       # what Hierarchy.issue requests (switched to a tight window around the real 'now' by some cases)


def schema_text(depth):
    # every signed rule lists a second allowed signer (#aux / #zaux, keys under the root that nobody holds): signing-constraint lists have several entries
    lines = ['#KEY: "KEY"/_/_/_', '#site: "site"', '#root: #site/#KEY', '#aux: #site/"aux"/_/#KEY <= #root', '#zaux: #site/"zaux"/_/#KEY <= #root']
    prev = '#root'
    for k in range(1, depth + 1):
        lines.append(f'#l{k}: #site/"l{k}"/id{k}/#KEY <= #aux | {prev} | #zaux' + (' | #rootkey' if k == 1 else ''))
        prev = f'#l{k}'
    # the data name carries the identity (idK) of the key that may sign it: a pattern shared between packet and key rule
    # ... and its last component is vetted by a function of the application (the schema's only user function)
    lines.append(f'#data: #site/"data"/id{depth}/x & {{x: $nvfok("data")}} <= #zaux | {prev} | #aux' if depth >= 1 else f'#data: #site/"data"/_/x <= {prev}')
    # a catch-all rule that every data (and certificate-free four-component) name matches as well, signable only by keys nobody
    # holds: a packet name that matches several signed rules which bind different patterns
    lines.append('#misc: #site/_/_/_ <= #zaux')
    # the schema also lets the bare KEY NAME of the root sign level 1 - a name under which no certificate exists
    lines.append('#rootkey: #site/"KEY"/_ <= #root')
    lines.append('#amisc: #site/"data"/_/_ <= #aux')
    return '\n'.join(lines) + '\n'


def nvfok(c, args):
    return not bytes(c)[2:].startswith(b'deny')


FNS = {'$nvfok': nvfok}
# another application of the same process (its checkers are created AFTER ours) binds the same function name to the opposite policy
RIVAL_FNS = {'$nvfok': lambda c, args: not nvfok(c, args)}
RIVALS = []


def new_checker(depth):
    ck = Checker(compile_lvs(schema_text(depth)), FNS)
    RIVALS.append(Checker(compile_lvs(schema_text(depth)), RIVAL_FNS))
    del RIVALS[:-4]
    return ck


class Key:
    def __init__(self, rng, kind, name):
        self.kind = kind
        self.name = name          # key name (identity/KEY/keyid)
        if kind == 'rsa':
            self.der = pkts.rsa_key(rng.randrange(3))
            self.pub = RSA.import_key(self.der).public_key().export_key('DER')
        else:
            k = ECC.generate(curve={'ec': 'P-256', 'ec384': 'P-384', 'ec521': 'P-521'}[kind])
            self.der = k.export_key(format='DER')
            self.pub = k.public_key().export_key(format='DER')

    def signer(self, locator):
        if self.kind == 'rsa':
            return Sha256WithRsaSigner(locator, self.der)
        return Sha256WithEcdsaSigner(locator, self.der)


class Hierarchy:
    """anchor + level certificates + helpers to sign data."""
    def __init__(self, rng, depth, tag):
        self.depth = depth
        self.tag = tag
        self.keys = []
        self.cert_names = []
        self.cert_wires = []
        kid = tag.encode()
        k0 = Key(rng, rng.choice(['ec', 'ec', 'rsa', 'ec384', 'ec521']), SITE + [C(b'KEY'), C(b'k0' + kid)])
        name, wire = self_sign(k0.name, k0.pub, k0.signer(k0.name))
        self.keys.append(k0)
        self.cert_names.append([bytes(c) for c in name])
        self.cert_wires.append(bytes(wire))
        for lvl in range(1, depth + 1):
            k = Key(rng, rng.choice(['ec', 'ec', 'ec', 'rsa', 'ec384', 'ec521']), SITE + [C(b'l%d' % lvl), C(b'id' + kid), C(b'KEY'), C(b'k%d' % lvl + kid)])
            self.issue(lvl, k, lvl - 1)

    def issue(self, lvl, key, issuer_lvl, replace=False, locator=None, signer=None):
        iss = self.keys[issuer_lvl]
        loc = self.cert_names[issuer_lvl] if locator is None else locator
        name, wire = derive_cert(key.name, 'iss', key.pub, signer or iss.signer(loc), VALIDITY[0], VALIDITY[1])
        if replace:
            self.keys[lvl] = key
            self.cert_names[lvl] = [bytes(c) for c in name]
            self.cert_wires[lvl] = bytes(wire)
        else:
            self.keys.append(key)
            self.cert_names.append([bytes(c) for c in name])
            self.cert_wires.append(bytes(wire))

    def ident(self):
        return C(b'id' + self.tag.encode())

    def data_name(self, suffix, ident=None):
        return SITE + [C(b'data'), ident or self.ident(), C(suffix)]

    def data(self, rng, suffix, signer_lvl=None, signer=None, ident=None):
        lvl = self.depth if signer_lvl is None else signer_lvl
        s = signer or self.keys[lvl].signer(self.cert_names[lvl])
        return bytes(make_data(self.data_name(suffix, ident), MetaInfo(), b'content-' + suffix, s))


DEVIATIONS = ['none', 'none', 'missing-signature-value', 'signature-type-mismatch', 'mismatched-identity', 'hmac-with-public-key', 'wrong-issuer-level', 'forged-signature', 'substituted-key', 'cert-timeout', 'cert-nack', 'unsigned',
              'no-key-locator', 'locator-loop', 'foreign-hierarchy', 'digest-signed', 'keychain-holds-unanchored-cert', 'forged-cert-served-on-second-request', 'locator-is-prefix-of-anchor-name',
              'refused-by-the-application-function', 'locator-names-the-certificate-by-its-full-name']
_KC = {}


def local_keychain():
    """One on-disk keychain (SQLite PIB + file TPM) per process, handed to the application of some cases: what the application's
    own keychain holds is no input of the verdict."""
    if 'kc' not in _KC:
        import atexit, os, shutil, tempfile
        from ndn.security.keychain.keychain_sqlite3 import KeychainSqlite3
        from ndn.security.tpm.tpm_file import TpmFile
        root = tempfile.mkdtemp(prefix='nvf-c14-kc-')
        atexit.register(shutil.rmtree, root, True)
        os.makedirs(os.path.join(root, 'tpm'))
        KeychainSqlite3.initialize(os.path.join(root, 'pib.db'), 'tpm-file', os.path.join(root, 'tpm'))
        _KC['kc'] = KeychainSqlite3(os.path.join(root, 'pib.db'), TpmFile(os.path.join(root, 'tpm')))
    return _KC['kc']


def flip_sig(wire):
    r = rc.strict_data(wire)
    i = wire.rfind(r['sig_value'])
    b = bytearray(wire)
    b[i + len(r['sig_value']) // 2] ^= 0x40
    return bytes(b)


def build_case(rng, depth, dev, link=None):
    """-> (hierarchy, data wire, served dict name-tuple -> wire, unserved set, nacked set, expected_valid, link)"""
    H = Hierarchy(rng, depth, '%04x' % rng.getrandbits(16))
    if link is None:
        link = rng.randint(1, depth + 1)          # 1..depth = certificate of that level, depth+1 = the data packet
    unserved, nacked = set(), set()
    valid = True
    suffix = b'p%04x' % rng.getrandbits(16)
    data = None
    if dev == 'none':
        pass
    elif dev == 'wrong-issuer-level':
        valid = False
        if link == depth + 1:
            if depth >= 1:
                data = H.data(rng, suffix, signer_lvl=rng.randrange(0, depth))       # signed by a key higher up than allowed
            else:
                link = 1
        if data is None:
            lvl = min(link, depth)
            cands = [j for j in range(0, lvl - 1)]
            if not cands:
                # level 1 signed by itself-level sibling: create a sibling key at the same level signed by root and let it issue
                sib = Key(rng, 'ec', SITE + [C(b'l%d' % lvl), C(b'sib'), C(b'KEY'), C(b'ks')])
                sname, swire = derive_cert(sib.name, 'iss', sib.pub, H.keys[lvl - 1].signer(H.cert_names[lvl - 1]), START, 86400 * 3650)
                k = Key(rng, 'ec', H.keys[lvl].name)
                H.issue(lvl, k, lvl - 1, replace=True, locator=[bytes(c) for c in sname], signer=sib.signer([bytes(c) for c in sname]))
                H.extra = {tuple(bytes(c) for c in sname): bytes(swire)}
            else:
                j = rng.choice(cands)
                k = Key(rng, 'ec', H.keys[lvl].name)
                H.issue(lvl, k, j, replace=True)
            # re-issue everything below the replaced level
            for l2 in range(lvl + 1, depth + 1):
                H.issue(l2, Key(rng, 'ec', H.keys[l2].name), l2 - 1, replace=True)
    elif dev == 'mismatched-identity':
        # properly signed by a retrievable, properly issued key - but the data name carries another identity than the key's: the
        # schema ties the two together through a shared pattern
        valid = False
        link = depth + 1
        data = H.data(rng, suffix, ident=C(b'id-somebody-else'))
    elif dev in ('missing-signature-value', 'signature-type-mismatch'):
        # names a genuine, retrievable, properly issued certificate - but carries no SignatureValue element at all, resp. declares
        # another signature type than the key's with an all-zero value: nothing verifies (a checker that raises has not accepted either)
        valid = False
        link = depth + 1
        lvl = depth
        r0 = rc.strict_data(H.data(rng, suffix))
        if dev == 'missing-signature-value':
            full = rc.make_data(r0['name'], content=r0['content'], content_type=0, sig_type=r0['sig_info']['type'], key_name=H.cert_names[lvl], sig_value=b'')
            b0, vs0, ve0 = rc.outer(full, 6)
            kids = rc.children(b0, vs0, ve0)
            data = rc.enc_tlv(6, b0[vs0:kids[-1][1]])           # everything but the SignatureValue element
        else:
            other_type = 1 if H.keys[lvl].kind != 'rsa' else 3
            data = rc.make_data(r0['name'], content=r0['content'], content_type=0, sig_type=other_type, key_name=H.cert_names[lvl], sig_value=bytes(rng.choice([0, 8, 64])))
    elif dev == 'forged-signature':
        valid = False
        if link == depth + 1:
            data = flip_sig(H.data(rng, suffix))
        else:
            H.cert_wires[link] = flip_sig(H.cert_wires[link])
    elif dev == 'substituted-key':
        valid = False
        lvl = min(link, depth)
        # the certificate of level lvl now carries another public key (properly issued), lower elements were signed by the old one
        other = Key(rng, 'ec', H.keys[lvl].name)
        old_name = H.cert_names[lvl]
        name, wire = derive_cert(other.name, 'iss', other.pub, H.keys[lvl - 1].signer(H.cert_names[lvl - 1]), START, 86400 * 3650)
        H.cert_wires[lvl] = bytes(wire)
        H.alias = {tuple(old_name): bytes(wire)}       # served under the name the lower element points to
    elif dev in ('cert-timeout', 'cert-nack'):
        valid = False
        lvl = min(link, depth)
        (unserved if dev == 'cert-timeout' else nacked).add(tuple(H.cert_names[lvl]))
    elif dev == 'unsigned':
        valid = False
        if link == depth + 1:
            data = bytes(make_data(H.data_name(suffix), MetaInfo(), b'x', None))
        else:
            r = rc.strict_data(H.cert_wires[link])
            H.cert_wires[link] = rc.make_data(r['name'], content=r['content'], content_type=2, freshness=3600000)
    elif dev == 'no-key-locator':
        valid = False
        if link == depth + 1:
            data = bytes(make_data(H.data_name(suffix), MetaInfo(), b'x', pkts.VarSigner(8, 8, None)))
        else:
            r = rc.strict_data(H.cert_wires[link])
            H.cert_wires[link] = rc.make_data(r['name'], content=r['content'], content_type=2, freshness=3600000, sig_type=3,
                                              key_name=None, sig_value=r['sig_value'])
    elif dev == 'digest-signed':
        valid = False
        if link == depth + 1:
            data = bytes(make_data(H.data_name(suffix), MetaInfo(), b'x', DigestSha256Signer()))
        else:
            r = rc.strict_data(H.cert_wires[link])
            import hashlib
            H.cert_wires[link] = rc.make_data(r['name'], content=r['content'], content_type=2, freshness=3600000, sig_type=0,
                                              sign=lambda b: hashlib.sha256(b).digest())
    elif dev == 'hmac-with-public-key':
        # type confusion: SignatureType HMAC computed with the *public* key bytes of the named certificate as the secret
        valid = False
        from ndn.security.signer.sha256_hmac_signer import HmacSha256Signer
        if link == depth + 1:
            lvl = depth
            data = bytes(make_data(H.data_name(suffix), MetaInfo(), b'forged', HmacSha256Signer(H.cert_names[lvl], H.keys[lvl].pub)))
        else:
            lvl = min(link, depth)
            k = Key(rng, 'ec', H.keys[lvl].name)
            name, wire = derive_cert(k.name, 'iss', k.pub, HmacSha256Signer(H.cert_names[lvl - 1], H.keys[lvl - 1].pub), START, 86400 * 3650)
            H.keys[lvl] = k
            H.cert_names[lvl] = [bytes(c) for c in name]
            H.cert_wires[lvl] = bytes(wire)
            for l2 in range(lvl + 1, depth + 1):
                H.issue(l2, Key(rng, 'ec', H.keys[l2].name), l2 - 1, replace=True)
    elif dev == 'locator-loop':
        valid = False
        lvl = min(link, depth)
        # the certificate names itself as its signer
        k = H.keys[lvl]
        name, wire = derive_cert(k.name, 'iss', k.pub, k.signer(H.cert_names[lvl]), START, 86400 * 3650)
        H.alias = {tuple(H.cert_names[lvl]): bytes(wire)}
    elif dev == 'keychain-holds-unanchored-cert':
        # the packet is signed by a key of the application's OWN keychain whose (self-signed) certificate bears a name the schema
        # allows as signer - but no chain leads from it to the anchor; the certificate is served on request or not at all
        valid = False
        link = depth + 1
        kc = local_keychain()
        idname = SITE + [C(b'l%d' % depth), H.ident()]
        kc.touch_identity(idname)
        own = kc[idname].default_key().default_cert()
        data = bytes(make_data(H.data_name(suffix), MetaInfo(), b'own', kc.get_signer({'identity': idname})))
        if rng.random() < 0.5:
            H.extra = {tuple(bytes(c) for c in own.name): bytes(own.data)}
        H.keychain = kc
    elif dev == 'forged-cert-served-on-second-request':
        # the network loses (or Nacks) the first Interest for one certificate and answers later ones - with a certificate whose
        # signature does not verify / that is not signed at all: whether or not the validator asks again, no valid chain exists
        valid = False
        lvl = min(link, depth)
        if rng.random() < 0.5:
            H.cert_wires[lvl] = flip_sig(H.cert_wires[lvl])
        else:
            r = rc.strict_data(H.cert_wires[lvl])
            H.cert_wires[lvl] = rc.make_data(r['name'], content=r['content'], content_type=2, freshness=3600000, sig_type=4,
                                             key_name=H.cert_names[lvl - 1], sig_value=bytes(32))
        H.flaky = {tuple(H.cert_names[lvl]): rng.choice(['drop', 'nack'])}
    elif dev == 'locator-is-prefix-of-anchor-name':
        # the level-1 certificate is genuinely signed by the anchor's key but names the anchor's KEY NAME (a proper prefix of the
        # anchor certificate's name, allowed as a signer by the schema) as its key: no certificate of that name can be retrieved
        valid = False
        H.issue(1, Key(rng, 'ec', H.keys[1].name), 0, replace=True, locator=[bytes(c) for c in H.keys[0].name])
        for l2 in range(2, depth + 1):
            H.issue(l2, Key(rng, 'ec', H.keys[l2].name), l2 - 1, replace=True)
    elif dev == 'locator-names-the-certificate-by-its-full-name':
        # the key locator names the signer's certificate by its FULL name (certificate name + implicit digest of that very packet): one
        # way of naming a retrievable certificate - the chain is as valid as with the short name
        import hashlib as _hl
        lvl_ = depth
        full_ = H.cert_names[lvl_] + [rc.comp(1, _hl.sha256(H.cert_wires[lvl_]).digest())]
        data = H.data(rng, suffix, signer=H.keys[lvl_].signer(full_))
        H.alias = {tuple(full_): H.cert_wires[lvl_]}
        link = depth + 1
    elif dev == 'refused-by-the-application-function':
        # a perfectly signed packet whose name the schema's user function (as THIS application defines it) does not let pass
        valid = False
        link = depth + 1
        suffix = b'deny' + suffix
    elif dev == 'foreign-hierarchy':
        valid = False
        H2 = Hierarchy(rng, depth, '%04x' % rng.getrandbits(16))
        data = H2.data(rng, suffix)
        H.foreign = H2
    if data is None:
        data = H.data(rng, suffix)
    served = {}
    for n, w_ in zip(H.cert_names[1:], H.cert_wires[1:]):
        served[tuple(n)] = w_
    served.update(getattr(H, 'extra', {}))
    served.update(getattr(H, 'alias', {}))
    if hasattr(H, 'foreign'):
        for n, w_ in zip(H.foreign.cert_names, H.foreign.cert_wires):
            served[tuple(n)] = w_
    return H, data, served, unserved, nacked, valid, link


class CertServer:
    def __init__(self, face):
        self.face = face
        self.served = {}
        self.unserved = set()
        self.nacked = set()
        self.requests = []
        self.flaky = {}
        self.latency = 0.01
        face.on_send = self.on_send

    def on_send(self, wire):
        try:
            p = rc.strict_interest(wire)
        except rc.Reject:
            return
        name = tuple(p['name'])
        self.requests.append(name)
        if name in self.unserved:
            return
        loop = asyncio.get_running_loop()
        if name in self.flaky and self.requests.count(name) == 1:
            if self.flaky[name] == 'nack':
                loop.call_later(0.01, self.face.deliver_task, rc.make_lp(fragment=wire, nack_reason=50))
            return
        if name in self.nacked:
            loop.call_later(0.01, self.face.deliver_task, rc.make_lp(fragment=wire, nack_reason=150))
            return
        w = self.served.get(name)
        if w is not None:
            loop.call_later(self.latency, self.face.deliver_task, w)


async def validate(validator, wire):
    name, meta, content, sig = parse_data(wire)
    return bool(await validator(name, sig))


def check_single(ctx, rng):
    n = ctx.n(143, 16000)
    for i in range(n):
        depth = rng.randint(1, 4)
        dev = DEVIATIONS[i % len(DEVIATIONS)]
        # alternate between the data packet and a certificate as the deviating link
        want_link = depth + 1 if (i // len(DEVIATIONS)) % 2 == 0 else rng.randint(1, depth)
        tight = dev == 'none' and (i // len(DEVIATIONS)) % 2 == 0
        old_tz = None
        if tight:
            # certificates that are valid NOW by a small margin (issued half an hour ago, expiring in half an hour - both UTC, as the
            # format says) on a machine whose local time zone is hours away from UTC: a valid, retrievable chain all the same
            import os as _os, time as _t
            VALIDITY[0] = datetime.datetime.now(datetime.timezone.utc).replace(tzinfo=None, microsecond=0) - datetime.timedelta(minutes=30)
            VALIDITY[1] = 3600
            old_tz = _os.environ.get('TZ', '')
            _os.environ['TZ'] = ['PST8', 'JST-9', 'NST3:30', 'UTC'][(i // (2 * len(DEVIATIONS))) % 4]
            _t.tzset()
            ctx.event('chain-valid-by-a-small-margin-under-a-non-utc-local-zone')
        try:
            H, data, served, unserved, nacked, valid, link = build_case(rng, depth, dev, want_link)
        except Exception as e:   # noqa
            VALIDITY[0], VALIDITY[1] = START, 10 * 365 * 86400
            ctx.report(f'hierarchy-construction-raises:{type(e).__name__}@{raising_site(e)[0]}', f'{e!r}', {'deviation': dev})
            continue
        res = {}

        async def main(S):
            face = RecFace()
            # the application's own keychain: the digest-only one, or an on-disk store (holding unrelated / unanchored identities)
            the_app = appv1.NDNApp(face=face, keychain=getattr(H, 'keychain', None) or (local_keychain() if i % 5 == 4 else KeychainDigest()))
            main_task = asyncio.ensure_future(the_app.main_loop())
            await asyncio.sleep(0)
            srv = CertServer(face)
            srv.served, srv.unserved, srv.nacked = served, unserved, nacked
            srv.flaky = getattr(H, 'flaky', {})
            # a slow network: every certificate arrives well inside its own Interest's lifetime (4 s), the whole chain takes longer
            srv.latency = 1.6 if (dev == 'none' and depth >= 3 and i % 2 == 0) else 0.01
            if srv.latency > 1:
                ctx.event('valid-chain-over-a-slow-network')
            checker = make_checker(depth, i // 3)
            storage = MemoryKeyStorage() if i % 2 else None
            try:
                v = lvs_validator(checker, the_app, H.cert_wires[0], storage) if storage is not None else \
                    lvs_validator(checker, the_app, H.cert_wires[0])
            except Exception as e:   # noqa
                res['construct_error'] = e
                the_app.shutdown()
                await main_task
                return
            try:
                res['verdict'] = await asyncio.wait_for(validate(v, data), 120)
            except Exception as e:   # noqa
                res['error'] = e
            res['requests'] = list(srv.requests)
            the_app.shutdown()
            await asyncio.wait_for(main_task, 5)

        S = vtime.run(main)
        VALIDITY[0], VALIDITY[1] = START, 10 * 365 * 86400
        if old_tz is not None:
            import os as _os, time as _t
            if old_tz:
                _os.environ['TZ'] = old_tz
            else:
                _os.environ.pop('TZ', None)
            _t.tzset()
        w = {'depth': depth, 'deviation': dev, 'link': link, 'key_kinds': [k.kind for k in H.keys], 'expected_valid': valid,
             'fetched': [rc.name_to_uri(list(r), canonical=True) for r in res.get('requests', [])]}
        ctx.case((depth, tuple(k.kind for k in H.keys), dev, link), nontrivial=True, sample=w if i % 25 == 0 else None)
        ctx.event('deviation-' + dev)
        if S.result != 'ok':
            ctx.report(f'validation-{S.result}' + (':never-terminates' if S.result == 'stalled' else ''), f'{S.error!r}', w)
            continue
        for le in S.sentinel.all():
            ex = le.get('exception')
            ctx.report(f'background-error:{type(ex).__name__ if ex else "?"}', f'{le.get("repr")}', w)
        if 'construct_error' in res:
            ctx.report(f'validator-construction-raises:{type(res["construct_error"]).__name__}', f'a proper anchor was refused: {res["construct_error"]!r}', w)
            continue
        if 'error' in res and dev in ('missing-signature-value', 'signature-type-mismatch') and not isinstance(res['error'], asyncio.TimeoutError):
            ctx.event('verdict-reject')
            ctx.event('validator-raised-on-unverifiable-packet')      # raising is not accepting
            continue
        if 'error' in res:
            e = res['error']
            ctx.report(f'validator-raises:{type(e).__name__}@{raising_site(e)[0]}', f'validator raised {e!r}', w)
            continue
        ctx.event('verdict-accept' if res['verdict'] else 'verdict-reject')
        if res['verdict'] != valid:
            mech = f'accepted-without-valid-chain:{dev}' if res['verdict'] else f'valid-chain-rejected:{dev}'
            ctx.report(mech, f'validator said {res["verdict"]}, a valid chain to the anchor {"exists" if valid else "does not exist"}', w)


def check_anchor(ctx, rng):
    """Construction must be refused for anchors that do not match the roots of trust or are not properly self-signed."""
    for i in range(ctx.n(40, 800)):
        depth = rng.randint(1, 3)
        H = Hierarchy(rng, depth, '%04x' % rng.getrandbits(16))
        kind = ['ok', 'wrong-name', 'level-cert-as-anchor', 'not-self-signed', 'tampered', 'data-as-anchor', 'hmac-self-signed',
                'self-signed-non-root-name', 'foreign-locator-foreign-signature', 'foreign-locator-garbage-signature'][i % 10]
        k0 = H.keys[0]
        if kind == 'ok':
            anchor = H.cert_wires[0]
        elif kind == 'wrong-name':
            k = Key(rng, 'ec', [C(b'other'), C(b'KEY'), C(b'k')])
            anchor = bytes(self_sign(k.name, k.pub, k.signer(k.name))[1])
        elif kind == 'level-cert-as-anchor':
            anchor = H.cert_wires[1]
        elif kind == 'self-signed-non-root-name':
            # properly self-signed, but its name matches an intermediate rule (#l1), not the root of trust
            k = Key(rng, 'ec', H.keys[1].name)
            anchor = bytes(self_sign(k.name, k.pub, k.signer(k.name))[1])
        elif kind == 'not-self-signed':
            other = Key(rng, 'ec', k0.name)
            anchor = bytes(self_sign(k0.name, k0.pub, other.signer(k0.name))[1])      # right name, signed by another key
        elif kind == 'hmac-self-signed':
            from ndn.security.signer.sha256_hmac_signer import HmacSha256Signer
            anchor = bytes(self_sign(k0.name, k0.pub, HmacSha256Signer(k0.name, k0.pub))[1])     # "signed" with the public key as HMAC secret
        elif kind == 'foreign-locator-foreign-signature':
            # right name and key, but signed by - and naming as its key - somebody else's key: not self-signed
            other = Key(rng, 'ec', [C(b'elsewhere'), C(b'KEY'), C(b'k')])
            anchor = bytes(self_sign(k0.name, k0.pub, other.signer(other.name))[1])
        elif kind == 'foreign-locator-garbage-signature':
            other = Key(rng, 'ec', [C(b'elsewhere'), C(b'KEY'), C(b'k')])
            anchor = flip_sig(bytes(self_sign(k0.name, k0.pub, other.signer(other.name))[1]))
        elif kind == 'tampered':
            anchor = flip_sig(H.cert_wires[0])
        else:
            anchor = H.data(rng, b'zz')
        res = {}

        async def main(S):
            face = RecFace()
            the_app = appv1.NDNApp(face=face, keychain=KeychainDigest())
            checker = new_checker(depth)
            try:
                lvs_validator(checker, the_app, anchor, MemoryKeyStorage())
                res['built'] = True
            except ValueError as e:
                res['built'] = False
            except Exception as e:   # noqa
                res['err'] = e
        vtime.run(main)
        ctx.case(('anchor', kind, depth), nontrivial=True)
        ctx.event('anchor-' + kind)
        w = {'anchor_kind': kind, 'depth': depth}
        if 'err' in res:
            ctx.report(f'anchor-construction-error:{kind}:{type(res["err"]).__name__}', f'{res["err"]!r}', w)
        elif res.get('built') != (kind == 'ok'):
            ctx.report(f'anchor-{"refused" if kind == "ok" else "accepted"}:{kind}',
                       f'validator construction {"succeeded" if res.get("built") else "was refused"} for an anchor of kind {kind}', w)


def check_histories(ctx, rng):
    """Several packets x several validator instances in different orders: verdicts must be order independent."""
    for hi in range(ctx.n(14, 1500)):
        depth = rng.randint(1, 3)
        H1 = Hierarchy(rng, depth, 'aa%02x' % rng.getrandbits(8))
        H2 = Hierarchy(rng, depth, 'bb%02x' % rng.getrandbits(8))
        served = {}
        for H in (H1, H2):
            for n, w_ in zip(H.cert_names, H.cert_wires):       # anchors are retrievable too
                served[tuple(n)] = w_
        packets = {'p1': (H1.data(rng, b'one'), 'H1'), 'p2': (H2.data(rng, b'two'), 'H2'), 'p1b': (H1.data(rng, b'three'), 'H1')}
        # jobs: (validator id, packet id); validator A/A2 -> anchor of H1, B -> anchor of H2
        vspec = {'A': ('H1', 'default'), 'B': ('H2', 'default'), 'A2': ('H1', 'explicit'), 'B2': ('H2', 'explicit')}
        jobs = [('A', 'p1'), ('B', 'p1'), ('B', 'p2'), ('A', 'p2')]
        if hi % 2:
            jobs = [('A2', 'p1'), ('B', 'p1b'), ('A', 'p2'), ('B2', 'p1')]
        orders = list(itertools.permutations(jobs))
        if ctx.quick:
            orders = [orders[0], orders[-1]] + rng.sample(orders[1:-1], 4)
        verdicts = {}
        for order in orders:
            res = {}

            async def main(S):
                face = RecFace()
                the_app = appv1.NDNApp(face=face, keychain=KeychainDigest())
                main_task = asyncio.ensure_future(the_app.main_loop())
                await asyncio.sleep(0)
                srv = CertServer(face)
                srv.served = served
                checker = new_checker(depth)
                vals = {}
                for vid, (h, st) in vspec.items():
                    anchor = (H1 if h == 'H1' else H2).cert_wires[0]
                    vals[vid] = lvs_validator(checker, the_app, anchor) if st == 'default' else lvs_validator(checker, the_app, anchor, MemoryKeyStorage())
                out = []
                for (vid, pid) in order:
                    n0 = len(srv.requests)
                    try:
                        ok = await asyncio.wait_for(validate(vals[vid], packets[pid][0]), 120)
                    except Exception as e:   # noqa
                        ok = e
                    out.append(((vid, pid), ok, len(srv.requests) - n0))
                res['out'] = out
                the_app.shutdown()
                await asyncio.wait_for(main_task, 5)
            S = vtime.run(main)
            if S.result != 'ok':
                ctx.report(f'history-{S.result}', f'{S.error!r}', {'order': order})
                continue
            ctx.case(('history', hi, order), nontrivial=True)
            ctx.event('history-run')
            for (job, ok, nfetch) in res['out']:
                vid, pid = job
                exp = vspec[vid][0] == packets[pid][1]
                w = {'order': order, 'job': job, 'expected': exp, 'certificate_fetches': nfetch, 'depth': depth}
                if isinstance(ok, BaseException):
                    ctx.report(f'history-validator-raises:{type(ok).__name__}', f'{ok!r}', w)
                    continue
                if ok != exp:
                    shared = vspec[vid][1] == 'default'
                    mech = 'shared-default-key-storage' if (ok and not exp and shared) else \
                        ('cross-anchor-acceptance' if ok else 'order-dependent-rejection')
                    ctx.report(mech, f'validator {vid} (anchor {vspec[vid][0]}, {vspec[vid][1]} storage) said {ok} for packet {pid} of {packets[pid][1]} '
                                     f'after {nfetch} certificate fetches in order {order}', w)
                verdicts.setdefault(job, set()).add(ok if not isinstance(ok, BaseException) else 'exc')
        for job, vs in verdicts.items():
            if len(vs) > 1:
                ctx.event('order-dependent-verdict')


class EvictingStorage(PublicKeyStorage):
    """A legal storage that keeps only the most recently saved key (a storage is a cache: it may forget)."""
    def __init__(self):
        self.last = None

    def load(self, name):
        if self.last is not None and self.last[0] == Name.to_bytes(name):
            return self.last[1]
        return None

    def save(self, name, key_bits):
        self.last = (Name.to_bytes(name), bytes(key_bits))


NS_SCHEMA = '''#KEY: "KEY"/_/_/_
#root: "ca"/"root"/#KEY
#l1: "org"/dept/#KEY <= #root
#l2: "org"/dept/"unit"/u/#KEY <= #l1
#data: "org"/dept/"unit"/u/"data"/_ <= #l2
#memo: "org"/dept/"memo"/_ <= #l1
'''


def check_other_namespaces(ctx, rng):
    """The anchor's own identity (/ca/root) is no name space the chain has to live in: certificates and packets named elsewhere
    (/org/...) chain to it through the schema.  On the same validator instance, afterwards: packets that share the NAME and the
    SIGNATURE VALUE of an accepted packet or certificate but carry other content have no valid signature - accepted before or not."""
    for rep in range(ctx.n(3, 60)):
        kinds = [rng.choice(['ec', 'ec', 'rsa', 'ec384']) for _ in range(3)]
        k0 = Key(rng, kinds[0], [C(b'ca'), C(b'root'), C(b'KEY'), C(b'k0')])
        a_name, a_wire = self_sign(k0.name, k0.pub, k0.signer(k0.name))
        a_name = [bytes(c) for c in a_name]
        k1 = Key(rng, kinds[1], [C(b'org'), C(b'd1'), C(b'KEY'), C(b'k1')])
        n1, w1 = derive_cert(k1.name, 'iss', k1.pub, k0.signer(a_name), START, 3650 * 86400)
        n1 = [bytes(c) for c in n1]
        k2 = Key(rng, kinds[2], [C(b'org'), C(b'd1'), C(b'unit'), C(b'u7'), C(b'KEY'), C(b'k2')])
        n2, w2 = derive_cert(k2.name, 'iss', k2.pub, k1.signer(n1), START, 3650 * 86400)
        n2 = [bytes(c) for c in n2]
        d_name = [C(b'org'), C(b'd1'), C(b'unit'), C(b'u7'), C(b'data'), C(b'x%d' % rep)]
        data = bytes(make_data(d_name, MetaInfo(), b'genuine content', k2.signer(n2)))
        memo = bytes(make_data([C(b'org'), C(b'd1'), C(b'memo'), C(b'm')], MetaInfo(freshness_period=10), b'memo', k1.signer(n1)))

        def other_content(wire, new):
            r0 = rc.strict_data(wire)
            b0, vs0, ve0 = rc.outer(wire, 6)
            parts = []
            for (t, ts, cvs, cve) in rc.children(b0, vs0, ve0):
                parts.append(rc.enc_tlv(0x15, new) if t == 0x15 else b0[ts:cve])
            return rc.enc_tlv(6, b''.join(parts))
        forged = other_content(data, b'forged content!')
        forged_memo = other_content(memo, b'mem0')
        # a look-alike of the level-2 certificate: same name, same signature value, the attacker's key as content - and a packet
        # signed with that key
        evil = Key(rng, 'ec', k2.name)
        forged_cert = other_content(bytes(w2), evil.pub)
        evil_data = bytes(make_data(d_name[:-1] + [C(b'evil')], MetaInfo(), b'evil', evil.signer(n2)))
        res = {}
        storage_kind = ['default', 'memory', 'empty'][rep % 3]

        async def main(S):
            face = RecFace()
            the_app = appv1.NDNApp(face=face, keychain=KeychainDigest())
            main_task = asyncio.ensure_future(the_app.main_loop())
            await asyncio.sleep(0)
            srv = CertServer(face)
            srv.served = {tuple(n1): bytes(w1), tuple(n2): bytes(w2)}
            ck = Checker(compile_lvs(NS_SCHEMA), {})
            cls = storage_of(storage_kind)
            v = lvs_validator(ck, the_app, bytes(a_wire)) if cls is None else lvs_validator(ck, the_app, bytes(a_wire), cls())
            out = []
            for label, wire, exp in (('chain-named-outside-the-anchor-identity', data, True), ('same-name-and-signature-other-content', forged, False),
                                     ('genuine-again', data, True), ('memo', memo, True), ('memo-same-name-and-signature-other-content', forged_memo, False)):
                try:
                    out.append((label, exp, await asyncio.wait_for(validate(v, wire), 60)))
                except Exception as e:   # noqa
                    out.append((label, exp, e))
            # the look-alike certificate is what the network now serves for that name
            srv.served[tuple(n2)] = forged_cert
            try:
                out.append(('packet-signed-by-look-alike-certificate-key', False, await asyncio.wait_for(validate(v, evil_data), 60)))
            except Exception as e:   # noqa
                out.append(('packet-signed-by-look-alike-certificate-key', False, e))
            res['out'] = out
            res['requests'] = list(srv.requests)
            the_app.shutdown()
            await asyncio.wait_for(main_task, 5)
        S = vtime.run(main)
        w = {'schema': NS_SCHEMA, 'anchor': rc.name_to_uri(a_name, canonical=True), 'key_kinds': kinds, 'storage': storage_kind,
             'fetched': [rc.name_to_uri(list(r), canonical=True) for r in res.get('requests', [])]}
        ctx.case(('other-namespace', tuple(kinds), storage_kind), nontrivial=True, sample=w if rep == 0 else None)
        if S.result != 'ok':
            ctx.report(f'validation-{S.result}:other-namespace', f'{S.error!r}', w)
            continue
        for le in S.sentinel.all():
            ex = le.get('exception')
            ctx.report(f'background-error:{type(ex).__name__ if ex else "?"}', f'{le.get("repr")}', w)
        for label, exp, got in res.get('out', []):
            ctx.event('other-namespace-' + label)
            if isinstance(got, Exception):
                if exp:
                    ctx.report(f'validator-raises:{type(got).__name__}@{raising_site(got)[0]}', f'{label}: validator raised {got!r}', dict(w, step=label))
                continue
            if got != exp:
                mech = f'accepted-without-valid-chain:{label}' if got else f'valid-chain-rejected:{label}'
                ctx.report(mech, f'{label}: validator said {got}, expected {exp}', dict(w, step=label))


def storage_of(kind):
    return {'default': None, 'memory': MemoryKeyStorage, 'empty': EmptyKeyStorage, 'evicting': EvictingStorage}[kind]


def make_checker(depth, variant):
    """The compiled schema as it comes from the compiler, or the same model after its optional tag-symbol table was discarded
    (documented as safe to discard)."""
    ck = new_checker(depth)
    if variant % 2 == 0:
        return ck
    from ndn.app_support.light_versec import binary as bny
    m = bny.LvsModel.parse(ck.save())
    m.symbols = []
    if variant % 4 == 3:
        # the binary format prescribes no order for a node's signing constraints (nor for its edges): the same model as another
        # compiler may write it
        for nd in m.nodes:
            nd.sign_cons = list(nd.sign_cons)[::-1]
            nd.v_edges = list(nd.v_edges)[::-1]
    return Checker.load(bytes(m.encode()), FNS)


def leaf_under(rng, H, lvl, tag):
    """One more key at level lvl (its certificate issued by level lvl-1 of H)  -> (key, cert name, cert wire)"""
    k = Key(rng, 'ec', SITE + [C(b'l%d' % lvl), C(b'id' + tag), C(b'KEY'), C(b'k' + tag)])
    iss = H.keys[lvl - 1]
    name, wire = derive_cert(k.name, 'iss', k.pub, iss.signer(H.cert_names[lvl - 1]), START, 10 * 365 * 86400)
    return k, [bytes(c) for c in name], bytes(wire)


def check_long_run(ctx, rng):
    """ONE validator that lives long: it validates packets of several hundred distinct signers (every certificate cached), then
    every signer is asked about again - newest first, then oldest first - with a genuine packet (valid, retrievable chain: yes) and
    with a packet that NAMES this signer's certificate but carries the signature of the signer seen last (no).  A bounded cache
    may forget and fetch again; it may not answer with another certificate's key."""
    n_sign = 300 if ctx.quick else 700
    for storage_kind in (('default',) if ctx.quick else ('default', 'memory')):
        depth = 1
        H = Hierarchy(rng, depth, 'lr%02x' % rng.getrandbits(8))
        served = {tuple(n): w_ for n, w_ in zip(H.cert_names[1:], H.cert_wires[1:])}
        leaves = []
        for j in range(n_sign):
            k, cn, cw = leaf_under(rng, H, depth, b'u%03d' % j)
            served[tuple(cn)] = cw
            leaves.append((k, cn))
        res = {'out': []}

        def pkt(j, tag, signer_j=None):
            k, cn = leaves[j]
            sk = leaves[signer_j][0] if signer_j is not None else k
            return bytes(make_data(SITE + [C(b'data'), C(b'id' + b'u%03d' % j), C(tag)], MetaInfo(), b'c', sk.signer(cn)))

        async def main(S):
            face = RecFace()
            the_app = appv1.NDNApp(face=face, keychain=KeychainDigest())
            main_task = asyncio.ensure_future(the_app.main_loop())
            await asyncio.sleep(0)
            srv = CertServer(face)
            srv.served = served
            checker = new_checker(depth)
            v = lvs_validator(checker, the_app, H.cert_wires[0]) if storage_kind == 'default' else lvs_validator(checker, the_app, H.cert_wires[0], MemoryKeyStorage())

            async def one(label, wire, exp):
                try:
                    ok = await asyncio.wait_for(validate(v, wire), 120)
                except Exception as e:   # noqa
                    ok = e
                res['out'].append((label, ok, exp))
            for j in range(n_sign):
                await one(f'first-packet-of-signer-{j}', pkt(j, b'first'), True)
            last = n_sign - 1
            for order in (range(n_sign - 1, -1, -1), range(n_sign)):
                for j in order:
                    if j != last:
                        await one(f'names-signer-{j}-signed-by-signer-{last}', pkt(j, b'x', signer_j=last), False)
                    await one(f'later-packet-of-signer-{j}', pkt(j, b'again'), True)
            res['fetches'] = len(srv.requests)
            the_app.shutdown()
            await asyncio.wait_for(main_task, 5)
        S = vtime.run(main)
        ctx.case(('long-run', storage_kind, n_sign), nontrivial=True)
        ctx.event('long-lived-validator-with-hundreds-of-signers')
        ctx.extra['long_run'] = {'signers': n_sign, 'validations': len(res['out']), 'certificate_fetches': res.get('fetches')}
        if S.result != 'ok':
            ctx.report(f'long-run-{S.result}', f'{S.error!r}', {'storage': storage_kind})
            continue
        nrep = 0
        for label, ok, exp in res['out']:
            if isinstance(ok, BaseException):
                ctx.report(f'long-run:validator-raises:{type(ok).__name__}', f'{label}: {ok!r}', {'storage': storage_kind})
            elif ok != exp:
                nrep += 1
                ctx.report('long-run:accepted-without-valid-chain' if ok else 'long-run:valid-chain-rejected',
                           f'a validator that has seen {n_sign} signers said {ok} for {label}', {'storage': storage_kind, 'signers': n_sign} if nrep < 4 else None)


def check_same_instance(ctx, rng):
    """Histories on ONE validator instance: what it validated (and cached) before must not change a later verdict; several
    validations in flight at once; the anchor buffer is the caller's and may be reused after construction."""
    for hi in range(ctx.n(24, 600)):
        depth = rng.randint(1, 3)
        small_versions = hi % 3 == 1
        if small_versions:
            # certificates with SMALL version numbers (made by a tool that counts versions 5, 6, 7 ... - the library itself uses
            # millisecond timestamps): issued while the clock the library reads says 5 ms
            import time as _t
            real_time = _t.time
            _t.time = lambda: 0.005 + 0.001 * (hi % 4)
            ctx.event('hierarchy-with-small-version-numbers')
        try:
            H = Hierarchy(rng, depth, 'cc%02x' % rng.getrandbits(8))
        finally:
            if small_versions:
                _t.time = real_time
        served = {tuple(n): w_ for n, w_ in zip(H.cert_names[1:], H.cert_wires[1:])}
        leaf = H.keys[depth]
        real = H.cert_names[depth]
        good = H.data(rng, b'good%d' % hi)
        # signed with the real private key, but the key locator names another certificate of that key (other issuer / version)
        # which was never issued and cannot be retrieved: no chain packet -> named certificate -> anchor exists
        ghost = real[:-2] + [C(b'other-ca'), rc.comp(0x36, b'\x09')]
        if small_versions and len(real[-1]) == 3:
            # ... or the SAME certificate name with its version number written in eight octets instead of one: other octets, hence
            # another name - under which nothing was ever issued
            ghost = real[:-1] + [rc.comp(0x36, bytes(7) + bytes(real[-1][-1:]))]
        bad_locator = H.data(rng, b'ghost%d' % hi, signer=leaf.signer(ghost))
        forged = flip_sig(H.data(rng, b'forged%d' % hi))
        # more signers below the last but one level (cold cache: every one needs its own certificate fetch)
        par = []
        nleaf = [9, 3, 12, 10][(hi // 4) % 4]
        for j in range(nleaf):
            k, cn, cw = leaf_under(rng, H, depth, b'p%02d' % j)
            served[tuple(cn)] = cw
            w_ = bytes(make_data(SITE + [C(b'data'), C(b'id' + b'p%02d' % j), C(b'par%d' % j)], MetaInfo(), b'c', k.signer(cn)))
            par.append((w_ if j != 1 else flip_sig(w_), j != 1))
        plan = ['good-then-ghost', 'ghost-then-good', 'parallel-first', 'parallel-after-good', 'unavailable-then-available', 'sibling-cancelled', 'timed-out-then-again'][hi % 7]
        storage_kind = ['default', 'memory', 'empty', 'evicting'][(hi // 2) % 4]
        anchor_form = ['bytes', 'bytearray-reused', 'memoryview-reused'][hi % 3]
        res = {}

        async def main(S):
            face = RecFace()
            the_app = appv1.NDNApp(face=face, keychain=KeychainDigest())
            main_task = asyncio.ensure_future(the_app.main_loop())
            await asyncio.sleep(0)
            srv = CertServer(face)
            srv.served = served
            checker = make_checker(depth, hi)
            buf = bytearray(H.cert_wires[0])
            arg = bytes(buf) if anchor_form == 'bytes' else buf if anchor_form == 'bytearray-reused' else memoryview(buf)
            v = lvs_validator(checker, the_app, arg) if storage_kind == 'default' else lvs_validator(checker, the_app, arg, storage_of(storage_kind)())
            if anchor_form != 'bytes':
                buf[:] = bytes(len(buf))         # the caller reuses its buffer after the validator has been built
            out = []

            async def one(label, wire, exp):
                try:
                    ok = await asyncio.wait_for(validate(v, wire), 120)
                except Exception as e:   # noqa
                    ok = e
                out.append((label, ok, exp))
            seq = {'good-then-ghost': [('good', good, True), ('ghost-locator', bad_locator, False), ('forged', forged, False), ('good-again', good, True)],
                   'ghost-then-good': [('ghost-locator', bad_locator, False), ('good', good, True), ('ghost-locator-again', bad_locator, False)],
                   'parallel-first': [], 'parallel-after-good': [('good', good, True)], 'unavailable-then-available': [], 'sibling-cancelled': [],
                   'timed-out-then-again': []}[plan]
            for label, wire, exp in seq:
                await one(label, wire, exp)
            if plan == 'sibling-cancelled':
                # two packets of one signer are being validated at once on a cold cache; the caller gives the first validation up while
                # the certificate is on its way: the other one has a valid, retrievable chain all the same
                good2 = H.data(rng, b'good2-%d' % hi)
                t1 = asyncio.ensure_future(one('first-then-cancelled', good, True))
                await asyncio.sleep(0)
                t2 = asyncio.ensure_future(one('sibling-of-cancelled', good2, True))
                await asyncio.sleep(0.004)
                t1.cancel()
                await asyncio.gather(t1, t2, return_exceptions=True)
                out[:] = [o for o in out if o[0] != 'first-then-cancelled']
                await one('good-afterwards', good, True)
                await one('forged', forged, False)
            if plan == 'timed-out-then-again':
                # the application wraps a validation in asyncio.wait_for; it expires while the validator waits for a certificate (network
                # slower than the caller's patience); the SAME task then validates packets of that signer again: valid chain, retrievable
                srv.latency = 0.05
                try:
                    await asyncio.wait_for(validate(v, good), 0.01)
                    out.append(('patience-ran-out', True, True))
                except (asyncio.TimeoutError, asyncio.CancelledError, Exception):   # noqa
                    ctx.event('validation-given-up-while-waiting-for-a-certificate')
                srv.latency = 0.001
                await asyncio.sleep(0.2)
                await one('good-after-a-timed-out-validation', good, True)
                await one('forged', forged, False)
                await one('another-good-packet-of-that-signer', H.data(rng, b'more%d' % hi), True)
            if plan == 'unavailable-then-available' and depth >= 1:
                # the signer's certificate cannot be had at first (Nack / silence), later it can: the verdict follows what is retrievable
                # now, not what failed before
                gone = tuple(real)
                (srv.nacked if hi % 2 else srv.unserved).add(gone)
                await one('good-while-certificate-unavailable', good, False)
                srv.nacked.discard(gone)
                srv.unserved.discard(gone)
                await one('good-after-certificate-returned', good, True)
                await one('forged', forged, False)
            if plan.startswith('parallel'):
                await asyncio.gather(*[one(f'parallel-{j}', w_, exp) for j, (w_, exp) in enumerate(par)])
                await one('ghost-locator', bad_locator, False)
            res['out'] = out
            res['requests'] = len(srv.requests)
            the_app.shutdown()
            await asyncio.wait_for(main_task, 5)
        S = vtime.run(main)
        w = {'plan': plan, 'anchor_form': anchor_form, 'depth': depth, 'parallel_signers': nleaf, 'storage': storage_kind}
        ctx.case(('same-instance', plan, anchor_form, depth, nleaf, storage_kind), nontrivial=True)
        ctx.event('storage-' + storage_kind)
        ctx.event('same-instance-history')
        ctx.event('same-instance-' + plan)
        ctx.event('anchor-form-' + anchor_form)
        if S.result != 'ok':
            ctx.report(f'same-instance-{S.result}', f'{S.error!r}', w)
            continue
        for (label, ok, exp) in res['out']:
            w2 = dict(w, step=label, expected=exp, results=[(a, repr(b)) for a, b, c in res['out']])
            if isinstance(ok, BaseException):
                ctx.report(f'same-instance-validator-raises:{type(ok).__name__}', f'{label}: {ok!r}', w2)
            elif ok != exp:
                kind = label.split('-')[0] if not label.startswith('ghost') else 'ghost-locator'
                ctx.report(f'same-instance:{"accepted-without-valid-chain" if ok else "valid-chain-rejected"}:{kind}',
                           f'{label}: validator said {ok}, expected {exp} (plan {plan}, anchor given as {anchor_form})', w2)


def run(ctx):
    ctx.rule = RULE
    rng = ctx.rng
    check_same_instance(ctx, rng)
    check_other_namespaces(ctx, rng)
    check_single(ctx, rng)
    check_anchor(ctx, rng)
    check_histories(ctx, rng)
    if ctx.shard == 0:
        check_long_run(ctx, rng)
        ctx.need_event('long-lived-validator-with-hundreds-of-signers')
    need = ['hierarchy-with-small-version-numbers', 'chain-valid-by-a-small-margin-under-a-non-utc-local-zone', 'validation-given-up-while-waiting-for-a-certificate', 'valid-chain-over-a-slow-network', 'verdict-accept', 'verdict-reject', 'history-run', 'anchor-ok', 'anchor-wrong-name', 'same-instance-history', 'other-namespace-chain-named-outside-the-anchor-identity',
            'other-namespace-packet-signed-by-look-alike-certificate-key'] + ['deviation-' + d for d in set(DEVIATIONS)]
    for k in need:
        ctx.need_event(k)
    ctx.assumptions = ['RSA/ECDSA links only (the cascade checker dispatches only these); validity periods are not part of the statement',
                       'pycryptodomex is common-mode; ground truth comes from how the generator built the hierarchy']
