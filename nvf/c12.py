"""C12 - the signing check holds exactly when the schema lets that key sign that packet.

Checker.check(pkt, key) on the compiled model (direct and after save/load) is compared with the
reference interpreter's check on the generator's AST for all pairs of names up to a length bound
(sampled above a limit), each pair also with an implicit-digest component appended.
"""
import time

from . import lvs, monitors, refcodec as rc
from .common import raising_site, set_debug_logging

from ndn.app_support.light_versec import compile_lvs, Checker, SemanticError, LvsModelError
from ndn.app_support.light_versec import binary as bny

RULE = ('generated schemas with signing relations (chains over 3 levels, alternative signers, pattern names shared between '
        'packet and key rules, constraints on shared patterns, constraints referring to patterns bound by the packet) x all '
        'pairs (packet name, key name) of names up to the bound that match at least a rule prefix (sampled above 30000 '
        'pairs), each also with a trailing implicit digest on either side; distinct = (schema, pkt, key); non-trivial = the '
        'packet name matches a rule that has signers')

FRESH = [rc.comp(8, b'zz')]
DIGEST = rc.comp(1, bytes(32))
PDIGEST = rc.comp(2, bytes(range(32)))


def run(ctx):
    ctx.rule = RULE
    rng = ctx.rng
    nsch = ctx.n(45, 6000)
    templates = []
    for _ in range(ctx.n(2, 12)):
        templates += lvs.template_schemas(rng, True)
    for si in range(nsch + len(templates)):
        if si < len(templates):
            schema = templates[si]
            ctx.klass('template-schema')
        else:
            schema = lvs.gen_schema(rng, with_signers=True, n_rules=rng.randint(3, 7))
        text = lvs.schema_text(schema)
        FNS_LIB, FNS_REF = lvs.fns_for(schema)
        # the application's log level is no input: every fourth schema is compiled and asked about with the library's loggers at DEBUG
        set_debug_logging(si % 4 == 1)
        if si % 4 == 1:
            ctx.event('schema-checked-while-the-application-logs-at-DEBUG')
        if schema.get('default_fns'):
            ctx.event('schema-checked-with-the-built-in-functions')
        w = {'schema': text}
        tot_alts, max_len_ = lvs.alt_counts(schema)
        if tot_alts > 60 or max_len_ > 9:
            ctx.event('schema-skipped-too-large')
            continue
        ref = lvs.Ref(schema, FNS_REF)
        if False:
            ctx.event('schema-skipped-too-large')
            continue
        rival = None
        lvs.REENTER['checker'] = None
        if not schema.get('default_fns') and si % 4 == 2:
            FNS_LIB = lvs.reentrant_fns(FNS_LIB)
        try:
            model = compile_lvs(text)
            if si % 2:
                model = compile_lvs(text)       # the same text compiled a second time in this process: the second result is used
                ctx.event('schema-text-compiled-twice')
            if not schema.get('default_fns') and si % 6 == 3:
                # the application provides its functions AFTER it built the checker (through its own dict, or the checker's attribute)
                late_ = {}
                checker = Checker(model, late_)
                (late_ if si % 12 == 3 else checker.user_fns).update(FNS_LIB)
                ctx.event('user-functions-provided-after-construction')
            elif not schema.get('default_fns') and si % 6 == 5:
                # ... or replaces the functions it gave at first by others of the same names before it asks anything
                first_ = lvs.rival_fns(FNS_LIB)
                checker = Checker(model, first_)
                for k_, f_ in FNS_LIB.items():
                    (first_ if si % 12 == 5 else checker.user_fns)[k_] = f_
                ctx.event('user-functions-replaced-after-construction')
            else:
                checker = Checker(model, FNS_LIB)
            loaded = Checker.load(checker.save(), FNS_LIB)
            if not schema.get('default_fns') and si % 3 == 0:
                # another checker of the same process (created later, asked first) whose functions carry the same names and answer otherwise
                rival = Checker(compile_lvs(text), lvs.rival_fns(lvs.USER_FNS))
                ctx.event('rival-checker-with-same-named-functions')
        except (SemanticError, LvsModelError) as e:
            # whether clean schemas are accepted is C13's clause; here a schema without a compiled model cannot be judged
            ctx.event('schema-rejected-not-judged')
            continue
        except Exception as e:   # noqa
            ctx.report(f'compile-raises:{type(e).__name__}@{raising_site(e)[0]}', f'{e!r}', w)
            continue
        ctx.event('schema')
        # the tag-symbol table is optional in the binary format ("only needed if the checker needs the name identifiers"):
        # the same model without it (or with part of it) must answer the signing check identically
        nosym = None
        try:
            m2 = bny.LvsModel.parse(checker.save())
            m2.symbols = [] if si % 2 == 0 else list(m2.symbols)[::2]
            if si % 3 != 1:
                # no order is prescribed for a node's signing constraints or value edges: written the other way round
                for nd in m2.nodes:
                    nd.sign_cons = list(nd.sign_cons)[::-1]
                    nd.v_edges = list(nd.v_edges)[::-1]
                ctx.event('model-with-reordered-lists')
            nosym = Checker.load(bytes(m2.encode()), FNS_LIB)
            ctx.event('model-without-symbol-table')
        except Exception as e:   # noqa
            ctx.report(f'symbol-less-model-raises:{type(e).__name__}@{raising_site(e)[0]}', f'loading the model without its optional symbol table raised {e!r}', w)
        alphabet = [lvs.lit(t) for t in ref.literals()] + FRESH
        L = min(ref.max_len(), 6)
        # candidate names: those matching some rule, plus near misses (one component changed / dropped / added)
        names = ref.directed_names(rng, alphabet, 3) + list(lvs.all_names(alphabet, L, 2500, rng))
        matching = [n for n in names if ref.match(n)]
        near = []
        for n in matching[:200]:
            m = list(n)
            m[rng.randrange(len(m))] = rng.choice(alphabet)
            near.append(m)
            near.append(n + [rng.choice(alphabet)])
            if len(n) > 1:
                near.append(n[:-1])
        pool = matching + near + rng.sample(names, min(40, len(names))) + [[]]
        seen = set()
        uniq = []
        for n in pool:
            t = tuple(n)
            if t not in seen:
                seen.add(t)
                uniq.append(n)
        pool = uniq
        lim = 6000 if ctx.quick else 30000
        # targeted pairs: packet names matching a signed rule x key names matching one of its signers
        by_rule = {}
        for n in matching:
            for rn, b in ref.match(n):
                by_rule.setdefault(rn, []).append(n)
        signers_of = {}
        for r in schema['rules']:
            signers_of.setdefault(r['name'], set()).update(r['signers'])
        targeted = []
        for rn, pk in by_rule.items():
            for s in signers_of.get(rn, ()):
                for p in pk[:60]:
                    for k in by_rule.get(s, [])[:60]:
                        targeted.append((p, k))
        if len(targeted) > lim // 2:
            targeted = rng.sample(targeted, lim // 2)
        pairs = [(p, k) for p in pool for k in pool]
        if len(pairs) > lim // 2:
            pairs = rng.sample(pairs, lim // 2)
        # pairs that a template schema asks for explicitly (its delicate structure exercised whatever the random draw)
        probes = [([lvs.lit(t) for t in pn], [lvs.lit(t) for t in kn]) for pn, kn in schema.get('probes', [])]
        if probes:
            ctx.event('template-probe-pairs', len(probes))
        pairs = probes + targeted + pairs
        signed_rules = {r['name'] for r in schema['rules'] if r['signers']}
        if not schema.get('default_fns') and si % 4 == 2:
            lvs.REENTER.update(checker=checker, names=[n for n in matching[:3]] or [[]])
            ctx.event('schema-with-functions-that-re-enter-their-checker')
        budget = 6000 * (len(model.nodes) + 1) * (L + 2)
        nfail = 0
        t_schema = time.time()
        for pi, (pkt, key) in enumerate(pairs):
            if pi % 64 == 0 and time.time() - t_schema > (20 if ctx.quick else 60):
                ctx.event('schema-abandoned-slow')       # generator guard only
                break
            exp = ref.check(pkt, key)
            if rival is not None and pi % 2 == 0:
                try:
                    rival.check(pkt if pkt else '/', key if key else '/')
                except Exception:   # noqa
                    pass
            variants = [(pkt, key, '')]
            if pi % 7 == 0:
                variants.append((pkt + [DIGEST], key, 'pkt+digest'))
                variants.append((pkt, key + [DIGEST], 'key+digest'))
            extra_plain = []
            if pi % 7 == 3:
                # a trailing ParametersSha256Digest component (type 2) looks like a digest too, but is part of the name: judged as such
                extra_plain = [(pkt + [PDIGEST], key), (pkt, key + [PDIGEST])]
            for (p3, k3) in extra_plain:
                try:
                    got3 = bool(checker.check(p3, k3))
                    exp3 = ref.check(p3, k3)
                    ctx.event('name-ending-in-a-parameters-digest-component')
                    if got3 != exp3:
                        ctx.report(('yes-although-not-allowed' if got3 else 'no-although-allowed') + ':trailing-parameters-digest',
                                   f'check({rc.name_to_uri(p3, canonical=True)}, {rc.name_to_uri(k3, canonical=True)}) = {got3}, schema says {exp3} (a trailing ParametersSha256Digest component is an ordinary component)', w)
                except Exception as e:   # noqa
                    ctx.report(f'check-raises:{type(e).__name__}@{raising_site(e)[0]}', f'{e!r}', w)
            for (p2, k2, vl) in variants:
                wn = dict(w, pkt=rc.name_to_uri(p2, canonical=True), key=rc.name_to_uri(k2, canonical=True))
                for label, ck in (('direct', checker),) + ((('loaded', loaded),) if pi % 5 == 0 else ()) + \
                        ((('loaded-without-symbols', nosym),) if (pi % 5 == 1 and nosym is not None) else ()):
                    try:
                        pa, ka = (lvs.name_arg(rng, p2), lvs.name_arg(rng, k2)) if pi % 3 == 0 else (p2 if p2 else '/', k2 if k2 else '/')
                        if pi % 20 == 0:
                            with monitors.Steps(limit=budget):
                                got = ck.check(pa, ka)
                        else:
                            got = ck.check(pa, ka)
                    except monitors.BudgetExceeded:
                        ctx.report('check-step-budget', f'check() exceeded {budget} interpreter events', wn)
                        continue
                    except Exception as e:   # noqa
                        ctx.report(f'check-raises:{type(e).__name__}@{raising_site(e)[0]}', f'check raised {e!r}', wn)
                        continue
                    ctx.event('check-true' if exp else 'check-false')
                    if bool(got) != exp:
                        key_matches_any = bool(ref.match(k2[:-1] if vl == 'key+digest' else k2))
                        if got and not exp:
                            mech = 'yes-for-key-matching-no-rule' if not key_matches_any else 'yes-although-not-allowed'
                            # narrow classifier for the known bound-tag defect: the only thing that fails is a constraint of the
                            # key rule on a pattern carried over from the packet
                            if ref_check_ignoring_carried_constraints(ref, pkt, key):
                                mech = 'bound-tag-skips-constraints'
                        else:
                            mech = 'no-although-allowed'
                        if vl:
                            mech += ':' + vl
                        nfail += 1
                        ctx.report(mech, f'{label}: check({wn["pkt"]}, {wn["key"]}) = {got}, schema says {exp}', wn if nfail <= 3 else None)
            ctx.case((text, tuple(pkt), tuple(key)), nontrivial=any(r in signed_rules for r, b in ref.match(pkt)),
                     sample=dict(w, pkt=rc.name_to_uri(pkt, canonical=True), key=rc.name_to_uri(key, canonical=True), expected=exp) if exp and ctx.evaluations % 9000 == 1 else None)
    set_debug_logging(False)
    lvs.REENTER['checker'] = None
    ctx.extra['user_function_calls_that_re_entered_the_checker'] = lvs.REENTER['calls']
    for k in ('schema-checked-while-the-application-logs-at-DEBUG', 'user-functions-provided-after-construction', 'user-functions-replaced-after-construction', 'schema-text-compiled-twice', 'rival-checker-with-same-named-functions', 'schema-with-functions-that-re-enter-their-checker'):
        ctx.need_event(k)
    ctx.need_class('template-schema')
    ctx.need_event('model-without-symbol-table')
    ctx.need_event('schema', 30)
    for k in ('schema', 'check-true', 'check-false'):
        ctx.need_event(k)
    ctx.assumptions = ['schemas are level-structured so that no name pattern is its own signer',
                       'constraints refer only to patterns of the rule itself or of rules it references']


def ref_check_ignoring_carried_constraints(ref, pkt, key):
    """Would the reference say yes if constraints on patterns already bound by the packet were skipped in the key match?"""
    for rn, dl in ref.defs.items():
        for d in dl:
            if not d['signers']:
                continue
            for alt in ref._expand_def(d):
                b = ref.match_alt(alt, pkt, {})
                if b is None:
                    continue
                for s in d['signers']:
                    for (items, cons) in ref.alternatives(s):
                        cons2 = [(k, o) for (k, o) in cons if not (k[0] == 'n' and k[1] in b)]
                        if ref.match_alt((items, cons2), key, b) is not None:
                            return True
    return False
