"""C18 - state-vector sync merges monotonically and announces exactly when needed.

A reference state machine is fed with the same events as a real SvsInst running on a real appv2
NDNApp over a recording face on the virtual clock.  The timer's due instant is read from the
public next_sync_timing after each event; emissions are decoded from the recorded face output.
"""
import asyncio
import hashlib

from . import gen, vtime, refcodec as rc
from .boundary import RecFace
from .common import raising_site

from ndn import appv2, types
from ndn.encoding import make_interest, InterestParam
from ndn.security import DigestSha256Signer
import ndn.app_support.svs.sync as svs_sync
from ndn.app_support.svs.sync import SvsInst, SvsState

RULE = ('histories of received vectors (newer, older, incomparable, unknown nodes, claiming too much for self, entry without '
        'sequence number / node id, undecodable component, wrong name length), local publications and clock advances to just '
        'before / just after the suppression and periodic deadlines, several vectors within one suppression period; 2-5 node '
        'ids; distinct = the event-kind sequence with the observed emission pattern; non-trivial = at least one vector handled '
        'and one timer expiry')

C = lambda s: rc.comp(8, s)   # noqa
BASE_PREFIX = [C(b'sync'), C(b'grp')]
SELF = [C(b'n'), C(b'self')]
# (peers whose names extend the own node name, or are a prefix of it, are different nodes)
BY_PREFIX = [C(b'sync'), C(b'other')]
BY_SELF = [C(b'n'), C(b'by')]          # (the second group hears about nodes that carry the names of the first group's peers and of its own node)
NODES = [[C(b'n'), C(b'a')], [C(b'n'), C(b'self'), C(b'phone')], [C(b'n')], [C(b'n'), C(b'd')]]


def nid(name):
    return rc.enc_name(name)


def sv_component(entries, kind='ok', unknown=None):
    """entries: list of (name-or-None, seq-or-None).  unknown: list of booleans - whether an unrecognised non-critical element (a
    field of a newer protocol version) stands before entry i / after the last one."""
    body = b''
    for i, (nm, seq) in enumerate(entries):
        if unknown and unknown[i % len(unknown)]:
            body += rc.enc_tlv((0xF0, 0x3E8, 0xce)[i % 3], b'ext')
        if isinstance(nm, str) and nm == 'raw':
            body += seq              # a ready-made (malformed) entry
            continue
        e = b''
        if nm is not None:
            e += rc.enc_name(nm)
        if seq is not None:
            e += rc.enc_tlv(0xcc, rc.enc_nni(seq))
        body += rc.enc_tlv(0xca, e)
    if unknown and unknown[-1]:
        body += rc.enc_tlv(0xF0, b'')
    comp = rc.enc_tlv(0xc9, body)
    if kind == 'undecodable':
        comp = comp[:-1]
        comp = bytes([comp[0], max(0, comp[1] - 1)]) + comp[2:] if comp[1] < 253 and len(comp) > 3 else comp
        # break an inner length so that an element overruns
        comp = rc.enc_tlv(0xc9, rc.enc_tlv(0xca, b'\x07\x09\x08\x01a'))
    return comp


def decode_sv_component(comp):
    """-> dict name-bytes -> seq  (strict)."""
    t, ts, vs, ve = rc.read_tlv(comp, 0, len(comp))
    if t != 0xc9 or ve != len(comp):
        raise rc.Reject('sv-type')
    out = {}
    for (t2, ts2, vs2, ve2) in rc.children(comp, vs, ve):
        if t2 != 0xca:
            continue
        kids = rc.children(comp, vs2, ve2)
        nm = [k for k in kids if k[0] == 7]
        sq = [k for k in kids if k[0] == 0xcc]
        out[bytes(comp[nm[0][1]:nm[0][3]])] = rc.read_nni(comp, sq[0][2], sq[0][3])
    return out


SUP_MAX_MS = 300      # suppression_interval 0.2 s: the period is drawn from [0.5, 1.5) x interval (SVS v1, which the class says it implements)
SUP_MIN_MS = 100


def template_histories(rng):
    """Deterministic shapes around the timer task's suspension points: a publication within a few loop iterations of an
    incoming outdated vector (either order), then isolated outdated vectors that each need an answer."""
    out = []
    older = {'kind': 'older', 'pick': [0.9] * 6, 'delta': [1] * 6}
    for k_ in range(-3, 5):
        for nn in (1, 2):
            evs = [('recv', {'kind': 'newer', 'pick': [0.9] * 6, 'delta': [2] * 6}), ('idle', 500), ('pub-recv', older, k_), ('idle', 500),
                   ('recv', older), ('idle', 500), ('recv', older), ('idle', 500)]
            out.append({'nodes': nn, 'events': evs, 'last_used': rng.choice([3, 7]), 'publish_in_callback': False, 'template': True})
    # the same with a vector that is NOT outdated (a peer's periodic announcement in the steady state, equal in every entry it lists and
    # silent about this node): no suppression period begins, the publication is announced promptly
    steady = {'kind': 'equal', 'pick': [0.9] * 6, 'delta': [1] * 6, 'unknown': None}
    for k_ in range(-8, 5):
        evs = [('recv', {'kind': 'newer', 'pick': [0.9] * 6, 'delta': [2] * 6}), ('idle', 500), ('pub-recv', steady, k_), ('idle', 500)]
        out.append({'nodes': 1 + k_ % 2, 'events': evs, 'last_used': rng.choice([3, 7]), 'publish_in_callback': False, 'template': True})
    for nn in (1, 3):
        evs = [('recv', {'kind': 'newer', 'pick': [0.9] * 6, 'delta': [2] * 6}), ('advance', 'at'), ('recv', older), ('idle', 500), ('recv', older), ('idle', 500),
               ('advance', 'at'), ('recv', older), ('idle', 500)]
        out.append({'nodes': nn, 'events': evs, 'last_used': 3, 'publish_in_callback': False, 'template': True})
    # an outdated vector arrives just before / long before the periodic timer is due; a covering vector follows inside the period
    eq = {'kind': 'equal', 'pick': [0.9] * 6, 'delta': [1] * 6, 'unknown': None}
    for nn in (1, 2):
        for where in ('before', 'small'):
            evs = [('recv', {'kind': 'newer', 'pick': [0.9] * 6, 'delta': [2] * 6}), ('advance', 'past'), ('advance', 'small'), ('recv', older), ('idle', 40),
                   ('recv', {'kind': 'identical', 'pick': [0.9] * 6, 'delta': [1] * 6, 'unknown': None}), ('advance', 'past'), ('idle', 300)]
            out.append({'nodes': nn, 'events': evs, 'last_used': 3, 'publish_in_callback': False, 'template': True})
            evs = [('recv', {'kind': 'newer', 'pick': [0.9] * 6, 'delta': [2] * 6}), ('advance', 'past'), ('advance', where), ('recv', older), ('idle', 40), ('recv', eq),
                   ('idle', 500)]
            out.append({'nodes': nn, 'events': evs, 'last_used': 3, 'publish_in_callback': False, 'template': True})
    # a suppression period is running (an isolated outdated vector was heard) when the wall clock is set back by an hour / forth by a
    # day: the answer is still due when the period ends
    for step_ in (-3600, -5, 86400):
        for nn in (1, 2):
            evs = [('recv', {'kind': 'newer', 'pick': [0.9] * 6, 'delta': [2] * 6}), ('advance', 'past'), ('idle', 400), ('recv', older), ('wall-clock-step', step_), ('idle', 600)]
            out.append({'nodes': nn, 'events': evs, 'last_used': 3, 'publish_in_callback': False, 'template': True})
    return out


def gen_history(rng):
    nn = rng.randint(1, 4)
    nodes = NODES[:nn]
    evs = []
    for _ in range(rng.randint(3, 14)):
        k = rng.random()
        if k < 0.5:
            evs.append(('recv', gen_vector_spec(rng, nodes)))
        elif k < 0.62:
            evs.append(('pub',))
        elif k < 0.65:
            evs.append(('pub-send-fault',))

        else:
            evs.append(('advance', rng.choice(['before', 'past', 'past', 'small', 'at'])))
    evs.append(('advance', 'past'))
    if rng.random() < 0.15:
        evs.append(('recv-then-stop',))          # (last event of its history)
    elif rng.random() < 0.2:
        eq = {'kind': 'equal', 'pick': [0.9] * 6, 'delta': [1] * 6, 'unknown': None}
        evs += [('restart',) if rng.random() < 0.5 else ('restart', 'at-once'), ('recv', eq), ('idle', 400), ('pub',), ('recv', gen_vector_spec(rng, nodes)), ('advance', 'past')]
    return {'nodes': nn, 'events': evs, 'last_used': rng.choice([0, 0, 0, 3, 3, 254, 65535, 2**32 - 2, 2**32 - 1, 2**32, 2**40 + 1]), 'publish_in_callback': rng.random() < 0.25,
            'pre_start_pubs': rng.choice([0, 0, 0, 1, 2]), 'bystander': rng.random() < 0.3, 'start_again': rng.random() < 0.3}


def gen_vector_spec(rng, nodes):
    """A vector described relative to the current local vector (resolved at run time)."""
    kind = rng.choice(['newer', 'newer', 'older', 'equal', 'identical', 'incomparable', 'unknown-node', 'many-nodes', 'self-too-much', 'self-too-much-twice', 'self-ok',
                       'no-seq', 'no-id', 'undecodable', 'undecodable-inner', 'undecodable-inner', 'wrong-length', 'empty'])
    big = rng.random() < 0.12       # sequence numbers are 64-bit: some vectors jump across the 2**16 / 2**32 width boundaries
    return {'kind': kind, 'pick': [rng.random() for _ in range(6)], 'unknown': [rng.random() < 0.5 for _ in range(4)] if rng.random() < 0.2 else None,
            'delta': [rng.choice([2**16 - 1, 2**16, 2**31, 2**32 - 1, 2**32, 2**32 + 7, 2**48, 2**63 - 1, 2**63, 2**63 + 9, 2**64 - 2]) if big and rng.random() < 0.6 else rng.randint(1, 3) for _ in range(6)]}


def resolve_vector(spec, local, self_seq, nodes):
    """-> (entries list for the wire, accepted-claims dict or None if to be ignored entirely, flags)"""
    kind = spec['kind']
    ents = []
    flags = {'partial_ok': False, 'extra_comp': False}
    known = list(nodes)

    def cur(n):
        return local.get(nid(n), 0)
    if kind == 'identical':
        # entry for entry the local vector (own entry included): heard during a suppression period it covers everything local
        ents = [(n, cur(n)) for n in known if cur(n)] + ([(SELF, self_seq)] if self_seq else [])
        if not ents:
            ents = [(known[0], cur(known[0]) + 1)]
    elif kind in ('newer', 'older', 'equal', 'incomparable'):
        for i, n in enumerate(known):
            if spec['pick'][i] < 0.25:
                continue
            c = cur(n)
            if kind == 'newer':
                ents.append((n, min(c + spec['delta'][i], 2**64 - 1)))      # sequence numbers are unsigned 64-bit
            elif kind == 'older':
                ents.append((n, max(0, c - spec['delta'][i])))
            elif kind == 'equal':
                ents.append((n, c))
            else:
                ents.append((n, min(c + spec['delta'][i], 2**64 - 1) if i % 2 == 0 else max(0, c - spec['delta'][i])))
        if not ents:
            ents.append((known[0], cur(known[0]) + 1))
    elif kind == 'unknown-node':
        ents = [([C(b'n'), C(b'new%d' % spec['delta'][0])], spec['delta'][1]), (known[0], cur(known[0]))]
    elif kind == 'many-nodes':
        # a large group: the encoded vector is longer than 252 octets (its length takes the three-octet form)
        ents = [([C(b'n'), C(b'peer%02d' % j)], 1 + (j + spec['delta'][1]) % 3) for j in range(14 + spec['delta'][0] % 8)]
        ents.insert(int(spec['pick'][0] * len(ents)), (known[0], min(cur(known[0]) + 1, 2**64 - 1)))
    elif kind == 'self-too-much':
        ents = [(known[0], min(cur(known[0]) + 2, 2**64 - 1)), (SELF, min(self_seq + spec['delta'][0], 2**64 - 1))]
        if spec['pick'][0] < 0.5:
            ents.reverse()
    elif kind == 'self-too-much-twice':
        # the own node is listed twice, one entry claiming too much and one that does not (in either order), among entries worth merging
        ents = [(SELF, min(self_seq + spec['delta'][0], 2**64 - 1)), (SELF, max(0, self_seq - (1 if spec['pick'][1] < 0.5 else 0))),
                (known[0], min(cur(known[0]) + 2, 2**64 - 1)), ([C(b'n'), C(b'dup%d' % (spec['delta'][1] % 7))], 4)]
        if spec['pick'][0] < 0.5:
            ents[0], ents[1] = ents[1], ents[0]
        if spec['pick'][2] < 0.4:
            ents = ents[2:] + ents[:2]
    elif kind == 'self-ok':
        ents = [(SELF, max(0, self_seq - (spec['delta'][0] if spec['pick'][0] < 0.5 else 0))), (known[0], cur(known[0]) + 1)]
    elif kind == 'no-seq':
        ents = [(known[0], cur(known[0]) + 2), (known[-1] if len(known) > 1 else [C(b'n'), C(b'zz')], None)]
        if spec['pick'][0] < 0.5:
            ents.reverse()
        flags['partial_ok'] = True
    elif kind == 'no-id':
        ents = [(known[0], cur(known[0]) + 1), (None, 7)]
        if spec['pick'][0] < 0.5:
            ents.reverse()
        flags['partial_ok'] = True
    elif kind == 'undecodable-inner':
        # one entry whose node name is internally inconsistent (last component runs past the Name element but stays inside the entry)
        # among well-formed entries that would raise the vector: the vector is not decodable, hence not an accepted vector
        bad = rc.enc_tlv(0xca, b'\x07\x04\x08\x05ab' + rc.enc_tlv(0xcc, b'\x05'))
        v = int(spec['pick'][1] * 6)
        nm_ = rc.enc_name([C(b'n'), C(b'odd')])
        if v == 4:
            bad = rc.enc_tlv(0xca, nm_ + b'\xcc\x04\x00\x01')             # the sequence number declares 4 octets, 2 are left in the entry
        elif v == 5:
            bad = rc.enc_tlv(0xca, nm_ + rc.enc_tlv(0xcc, b'\x00\x00\x01'))   # a sequence number of 3 octets (no legal integer width)
        if v == 1:
            bad = rc.enc_tlv(0xca, rc.enc_tlv(0xcc, b'\x09') + nm_)                                  # the (critical) node name after the sequence number
        elif v == 2:
            bad = rc.enc_tlv(0xca, nm_ + rc.enc_name([C(b'n'), C(b'twice')]) + rc.enc_tlv(0xcc, b'\x09'))   # a second node name
        elif v == 3:
            bad = rc.enc_tlv(0xca, nm_ + rc.enc_tlv(0xcd, b'x') + rc.enc_tlv(0xcc, b'\x09'))            # an unknown critical element inside the entry
        ents = [(known[0], cur(known[0]) + 4), ('raw', bad), (known[-1], cur(known[-1]) + 2)]
        if spec['pick'][0] < 0.5:
            ents = ents[1:] + ents[:1]
    elif kind == 'undecodable':
        ents = [(known[0], cur(known[0]) + 5)]
    elif kind == 'wrong-length':
        ents = [(known[0], cur(known[0]) + 5)]
        flags['extra_comp'] = True
    elif kind == 'empty':
        ents = []
    # sequence numbers are unsigned 64-bit integers
    ents = [(n, (min(s_, 2**64 - 1) if isinstance(s_, int) else s_)) for n, s_ in ents]
    return ents, flags


def execute(ctx, hist, rng):
    R = {'viol': [], 'pattern': [], 'expiries': 0, 'handled': 0}
    nodes = NODES[:hist['nodes']]

    async def main(S):
        svs_sync.secrets.randbits = lambda k: rng.getrandbits(k)
        face = RecFace()
        the_app = appv2.NDNApp(face=face)
        main_task = asyncio.ensure_future(the_app.main_loop())
        await asyncio.sleep(0)
        missing = []

        slow = [False]

        async def pass_validator(n, s, c):
            if slow[0]:
                await asyncio.sleep(0.001)      # (a validator that has to look something up)
            return types.ValidResult.PASS
        cb_pubs = []

        def on_missing(i):
            missing.append(S.now_ms())
            if hist.get('publish_in_callback'):
                cb_pubs.append(i.new_data())       # non-blocking: an application may publish in reaction to missing data
        inst = SvsInst(BASE_PREFIX, SELF, on_missing, DigestSha256Signer(for_interest=True),
                       pass_validator, sync_interval=30, suppression_interval=0.2, last_used_seq_num=hist['last_used'])
        # publishing before start() is supported (new_data only skips waking the timer): the sequence number continues from
        # the restored last_used_seq_num
        pre = hist.get('pre_start_pubs', 0)
        pre_seq = hist['last_used']
        for _ in range(pre):
            got_seq = inst.new_data()
            pre_seq += 1
            ctx.event('publication-before-start')
            if got_seq != pre_seq:
                R['viol'].append(('publish-seq:before-start', f'new_data() before start() returned {got_seq}, expected {pre_seq} (last used {hist["last_used"]})', {'history': hist}))
        inst.start(the_app)
        await asyncio.sleep(0)
        # a second sync group on the same application (same node names, other group prefix): its vectors are no input of the first
        by = None
        by_model = {}
        by_missing = []
        if hist.get('bystander'):
            by = SvsInst(BY_PREFIX, BY_SELF, lambda i: by_missing.append(S.now_ms()), DigestSha256Signer(for_interest=True), pass_validator,
                         sync_interval=30, suppression_interval=0.2)
            by.start(the_app)
            await asyncio.sleep(0)

        async def bystander_traffic(w):
            ents_ = [(n_, by_model.get(nid(n_), 0) + rng.randint(0, 3)) for n_ in nodes + [SELF] if rng.random() < 0.7]
            ents_ = [(n_, s_) for n_, s_ in ents_ if s_] or [(nodes[0], by_model.get(nid(nodes[0]), 0) + 1)]
            wire_ = bytes(make_interest(BY_PREFIX + [sv_component(ents_)], InterestParam(nonce=77, lifetime=1000), b'', DigestSha256Signer(for_interest=True)))
            main_before = dict(inst.local_sv)
            fired_before = len(missing)
            nb = len(by_missing)
            try:
                await face.deliver(wire_)
            except Exception as e:   # noqa
                R['viol'].append((f'reception-raises:{type(e).__name__}@{raising_site(e)[0]}', f'(second group) {e!r}', w))
            for _ in range(4):
                await asyncio.sleep(0)
            raised_ = False
            for n_, s_ in ents_:
                if s_ > by_model.get(nid(n_), 0):
                    by_model[nid(n_)] = s_
                    raised_ = True
            ctx.event('vector-for-a-second-group-on-the-same-application')
            nz_ = lambda d: {k: v for k, v in d.items() if v}   # noqa
            if nz_(dict(inst.local_sv)) != nz_(main_before) or len(missing) != fired_before:
                R['viol'].append(('second-group-vector-changed-first-group', 'a state vector received for ANOTHER sync group on the same application changed the '
                                  'local vector of this group / fired its missing-data callback', dict(w, before={k.hex(): v for k, v in main_before.items()},
                                                                                                          after={k.hex(): v for k, v in inst.local_sv.items()})))
            if nz_(dict(by.local_sv)) != nz_(by_model) or (len(by_missing) > nb) != raised_:
                R['viol'].append(('second-group-merge-wrong', 'the second sync group on the application did not merge its own vector entry-wise / fire its own callback',
                                  dict(w, local={k.hex(): v for k, v in by.local_sv.items()}, expected={k.hex(): v for k, v in by_model.items()})))
        if pre:
            # publications made before start() are announced as soon as the instance runs (promptly, not one sync interval later)
            await asyncio.sleep(0.05)
            early = [b for t, b in face.sent if True]
            n_sync = 0
            for b in early:
                try:
                    p_ = rc.strict_interest(b)
                    if p_['name'][:len(BASE_PREFIX)] == BASE_PREFIX:
                        n_sync += 1
                except rc.Reject:
                    pass
            ctx.event('publication-before-start-announcement-checked')
            if n_sync == 0:
                R['viol'].append(('publish-not-announced-promptly:before-start', 'publications made before start() were not announced within 50 ms (virtual) of start()', {'history': hist}))

        def due_ms():
            return (inst.next_sync_timing - vtime.BASE - vtime.EPS - S.wall_offset) * 1000.0

        model_local = {nid(SELF): pre_seq}
        self_seq = pre_seq
        heard = None           # list of accepted vectors heard in the current suppression period
        sent_idx = len(face.sent)

        def take_emissions():
            nonlocal sent_idx
            out = []
            for t, b in face.sent[sent_idx:]:
                try:
                    p = rc.strict_interest(b)
                    if p['name'][:len(BASE_PREFIX)] == BASE_PREFIX:
                        out.append((t, p))
                except rc.Reject:
                    R['viol'].append(('emitted-undecodable-interest', 'sync Interest is not decodable', {'wire': b[:200]}))
            sent_idx = len(face.sent)
            return out

        obligations = []        # independent bounded-progress monitor: [recv index in face.sent, virtual ms, witness]
        recv_times = []

        def sync_emitted_since(idx):
            for t, b in face.sent[idx:]:
                try:
                    if rc.strict_interest(b)['name'][:len(BASE_PREFIX)] == BASE_PREFIX:
                        return True
                except rc.Reject:
                    pass
            return False

        def check_obligations(final=False):
            now = S.now_ms()
            for ob in list(obligations):
                idx, t, wob = ob
                if sync_emitted_since(idx):
                    obligations.remove(ob)
                    ctx.event('outdated-vector-answered')
                elif now > t + SUP_MAX_MS + 60:
                    obligations.remove(ob)
                    R['viol'].append(('outdated-vector-not-answered', f'an isolated outdated vector received at {t} ms was not followed by any sync Interest within '
                                      f'{SUP_MAX_MS + 60} ms (longest suppression period {SUP_MAX_MS} ms) although the local vector is newer', wob))

        def check_emission_content(p, w):
            try:
                vec = decode_sv_component(p['name'][len(BASE_PREFIX)])
            except (rc.Reject, IndexError, KeyError) as e:
                R['viol'].append(('emission-vector-undecodable', f'{e!r}', w))
                return
            if {k: v for k, v in vec.items() if v} != {k: v for k, v in model_local.items() if v}:
                R['viol'].append(('emission-not-full-vector', f'emitted vector {len(vec)} entries differs from the local vector', dict(w, emitted={k.hex(): v for k, v in vec.items()}, local={k.hex(): v for k, v in model_local.items()})))
            if not rc.params_digest_ok(p) or p['sig_info'] is None:
                R['viol'].append(('emission-not-signed', 'sync Interest lacks a valid parameters digest / signature', w))

        # the first periodic timer: start() leaves next_sync_timing = 0 -> an immediate announcement is allowed
        await asyncio.sleep(0.001)
        take_emissions()
        for ei, ev in enumerate(hist['events']):
            w = {'history': hist, 'event_index': ei, 'event': ev}
            if by is not None and rng.random() < 0.5:
                await bystander_traffic(w)
            nerr = len(S.sentinel.all())
            if ev[0] in ('recv', 'pub-recv'):
                ents, flags = resolve_vector(ev[1], model_local, self_seq, nodes)
                comp = sv_component(ents, ev[1]['kind'], ev[1].get('unknown'))
                if len(comp) > 255 and ev[1]['kind'] == 'many-nodes':
                    ctx.event('vector-longer-than-252-octets')
                if ev[1].get('unknown') and any(ev[1]['unknown']) and len(ents) > 1:
                    ctx.event('vector-with-unknown-elements-between-entries')
                name = BASE_PREFIX + [comp] + ([C(b'extra')] if flags['extra_comp'] else [])
                wire = bytes(make_interest(name, InterestParam(nonce=ei + 1, lifetime=1000), b'', DigestSha256Signer(for_interest=True)))
                before_real = dict(inst.local_sv)
                state_before = inst.state
                n_missing = len(missing)
                recv_idx = len(face.sent)
                if ev[0] == 'pub-recv':
                    # a publication and an incoming vector within a few loop iterations of each other (no idling in between)
                    k_ = ev[2]
                    if k_ < 0:
                        dt = face.deliver_task(wire)
                        for _ in range(-k_ - 1):
                            await asyncio.sleep(0)
                    seq = inst.new_data()
                    self_seq += 1
                    model_local[nid(SELF)] = self_seq
                    before_real[nid(SELF)] = self_seq
                    if seq != self_seq:
                        R['viol'].append(('publish-seq', f'new_data returned {seq}, expected {self_seq}', w))
                    if k_ >= 0:
                        for _ in range(k_):
                            await asyncio.sleep(0)
                    ctx.event('publication-next-to-reception')
                try:
                    if ev[0] == 'pub-recv' and ev[2] < 0:
                        await dt
                    else:
                        await face.deliver(wire)
                except Exception as e:   # noqa
                    R['viol'].append((f'reception-raises:{type(e).__name__}@{raising_site(e)[0]}', f'{e!r}', w))
                for _ in range(4):
                    await asyncio.sleep(0)
                for le in S.sentinel.all()[nerr:]:
                    ex = le.get('exception')
                    site = raising_site(ex)[0] if ex is not None else '?'
                    mech = f'handler-raises:{type(ex).__name__ if ex else "?"}@{site}'
                    if ev[1]['kind'] == 'no-seq':
                        mech = 'svs-malformed-entry-partial-merge'
                    R['viol'].append((mech, f'sync handler ended with an unhandled error: {le.get("repr")}', w))
                after_real = dict(inst.local_sv)
                fired = len(missing) - n_missing
                pubs_now = len(cb_pubs)
                if pubs_now > R.get('cb_pubs_seen', 0):
                    # the callback published: own sequence number +1 per publication, announced promptly with the full vector
                    npub = pubs_now - R.get('cb_pubs_seen', 0)
                    R['cb_pubs_seen'] = pubs_now
                    self_seq += npub
                    if cb_pubs[-1] != self_seq or after_real.get(nid(SELF)) != self_seq:
                        R['viol'].append(('publish-seq', f'new_data() in the callback returned {cb_pubs[-1]}, expected {self_seq}', w))
                    after_real = dict(after_real)
                    after_real_wo_self = dict(after_real)
                    before_real = dict(before_real)
                    before_real[nid(SELF)] = self_seq        # the publication is not part of the merge being judged
                    model_local[nid(SELF)] = self_seq
                    await asyncio.sleep(0.05)
                    em_cb = take_emissions()
                    ctx.event('publication-from-callback')
                    if not em_cb:
                        R['viol'].append(('publish-not-announced-promptly', 'a publication made inside the missing-data callback was not announced within 50 ms (virtual)', w))
                    heard = None
                kind = ev[1]['kind']
                wellformed = {nid(n): s for n, s in ents if n is not None and s is not None and not isinstance(n, str)}
                ignore = kind in ('undecodable', 'undecodable-inner', 'wrong-length', 'empty') or \
                    any(n is not None and s is not None and not isinstance(n, str) and nid(n) == nid(SELF) and s > self_seq for n, s in ents)
                full = {k: max(model_local.get(k, 0), v) for k, v in wellformed.items()}
                exp_full = dict(model_local)
                exp_full.update(full)
                allowed = [dict(model_local)] if ignore else [exp_full]
                if flags['partial_ok'] and not ignore:
                    allowed.append(dict(model_local))      # a vector with a malformed entry may also be ignored entirely
                R['handled'] += 1
                # monotonic always
                for k, v in before_real.items():
                    if after_real.get(k, -1) < v:
                        R['viol'].append(('local-vector-decreased', f'entry {k.hex()} went from {v} to {after_real.get(k)}', w))
                nz = lambda d: {k: v for k, v in d.items() if v}   # noqa  (an entry with sequence number 0 == no entry)
                if nz(after_real) not in [nz(a) for a in allowed]:
                    mech = 'vector-claiming-too-much-not-ignored' if ignore and kind in ('self-too-much', 'self-too-much-twice') else \
                        'ignored-vector-merged' if ignore else 'merge-not-entrywise-max'
                    if kind == 'no-seq':
                        mech = 'svs-malformed-entry-partial-merge'
                    R['viol'].append((mech, f'after a {kind} vector the local vector is not an allowed result',
                                      dict(w, before={k.hex(): v for k, v in before_real.items()}, after={k.hex(): v for k, v in after_real.items()},
                                           vector=[(None if n is None else ('raw-entry' if isinstance(n, str) else nid(n).hex()), s if not isinstance(s, bytes) else s.hex()) for n, s in ents])))
                    model_local = dict(after_real)
                else:
                    model_local = dict(after_real)
                raised = any(after_real.get(k, 0) > before_real.get(k, 0) for k in after_real)
                if (fired > 0) != raised or fired > 1:
                    mech = 'missing-data-callback-mismatch'
                    if kind == 'no-seq':
                        mech = 'svs-malformed-entry-partial-merge'
                    R['viol'].append((mech, f'callback fired {fired}x but the vector {"raised" if raised else "did not raise"} an entry', w))
                ctx.event('vector-' + kind)
                t_now = S.now_ms()
                # another accepted vector close by makes the merge of "vectors heard during that period" depend on the period's
                # (randomised) length: such obligations are dropped, only isolated outdated vectors are judged
                if True:
                    for ob in list(obligations):
                        if t_now - ob[1] <= SUP_MAX_MS + 60:
                            obligations.remove(ob)
                    isolated = not recv_times or t_now - recv_times[-1] > SUP_MAX_MS + 60
                    recv_times.append(t_now)        # every reception counts, also ignored / partially accepted vectors
                    if isolated and not ignore and not flags['partial_ok'] and pubs_now == R.get('cb_pubs_seen', 0) and not hist.get('publish_in_callback') and \
                            any(k in wellformed and v > wellformed[k] for k, v in model_local.items()):
                        # (entries the vector does not mention at all are left out: the statement does not say whether that counts as outdated)
                        obligations.append([recv_idx, t_now, w])
                        ctx.event('outdated-vector-obligation')
                accepted_vec = wellformed if (after_real != before_real or not ignore) and not ignore else None
                if inst.state == SvsState.SyncSuppression:
                    if state_before == SvsState.SyncSteady:
                        heard = [accepted_vec] if accepted_vec is not None else []
                        ctx.event('suppression-entered')
                        # the period armed now lasts 0.5 .. 1.5 suppression intervals, however soon the periodic timer was due
                        R['sup_start'] = S.now_ms()
                        d_ = due_ms() - S.now_ms()
                        if d_ < SUP_MIN_MS - 1.5 or d_ > SUP_MAX_MS + 1.5:
                            R['viol'].append(('suppression-period-length', f'the suppression timer was armed for {d_:.1f} ms, outside {SUP_MIN_MS}..{SUP_MAX_MS} ms', w))
                    elif accepted_vec is not None and heard is not None:
                        heard.append(accepted_vec)
                        ctx.event('vector-heard-during-suppression')
                else:
                    heard = None
                R['pattern'].append('r')
                if ev[0] == 'pub-recv':
                    # the outdated vector may legitimately start a suppression period that swallows the immediate announcement:
                    # the publication must be announced by the end of that period at the latest
                    await asyncio.sleep((SUP_MAX_MS + 60) / 1000.0)
                    em = take_emissions()
                    if not em:
                        R['viol'].append(('publish-not-announced', f'no sync Interest within {SUP_MAX_MS + 60} ms (virtual) of new_data() next to a reception', w))
                    for t, p in em[-1:]:
                        check_emission_content(p, w)
                    obligations.clear()
                    heard = None
            elif ev[0] == 'wall-clock-step':
                # the wall clock is set back / forth while a timer is armed (only at the end of a history: the harness reads armed
                # deadlines off the instance in wall-clock terms)
                S.step_wall(ev[1])
                ctx.event('wall-clock-stepped-while-a-timer-is-armed')
                R['pattern'].append('w')
            elif ev[0] == 'recv-then-stop':
                # a vector is still with its (slow) validator when the application stops the instance: whatever the instance does with
                # it, "an entry was raised" and "the callback fired" go together; the instance is then started again
                slow[0] = True
                before_real = dict(inst.local_sv)
                n_missing = len(missing)
                ents = [(nodes[0], min(model_local.get(nid(nodes[0]), 0) + 2, 2**64 - 1))]
                wire = bytes(make_interest(BASE_PREFIX + [sv_component(ents)], InterestParam(nonce=ei + 1, lifetime=1000), b'', DigestSha256Signer(for_interest=True)))
                dt_ = face.deliver_task(wire)
                await asyncio.sleep(0.0005)
                inst.stop()
                slow[0] = False
                await asyncio.gather(dt_, return_exceptions=True)
                await asyncio.sleep(0.01)
                after_real = dict(inst.local_sv)
                raised_ = any(after_real.get(k, 0) > before_real.get(k, 0) for k in after_real)
                fired_ = len(missing) - n_missing
                ctx.event('vector-with-its-validator-when-the-instance-is-stopped')
                if raised_ != (fired_ > 0):
                    R['viol'].append(('missing-data-callback-mismatch:stopped-during-validation', f'the instance was stopped while a vector was being validated: an entry was '
                                      f'{"raised" if raised_ else "not raised"} but the callback fired {fired_}x', w))
                model_local = {k: v for k, v in after_real.items()}
                try:
                    inst.start(the_app)
                except Exception as e:   # noqa
                    R['viol'].append((f'restart-raises:{type(e).__name__}', f'{e!r}', w))
                await asyncio.sleep(0.001)
                take_emissions()
                obligations.clear()
                heard = None
                R['pattern'].append('S')
            elif ev[0] == 'restart':
                # the same instance stopped and started again: what it has learnt stays (the vector never decreases)
                inst.stop()
                if len(ev) > 1 and ev[1] == 'at-once':
                    ctx.event('instance-restarted-without-yielding')
                else:
                    await asyncio.sleep(0)
                try:
                    inst.start(the_app)
                except Exception as e:   # noqa
                    R['viol'].append((f'restart-raises:{type(e).__name__}', f'{e!r}', w))
                await asyncio.sleep(0.001)
                take_emissions()
                obligations.clear()
                heard = None if inst.state != SvsState.SyncSuppression else (heard or [])
                now_real = {k: v for k, v in inst.local_sv.items() if v}
                if now_real != {k: v for k, v in model_local.items() if v}:
                    R['viol'].append(('restart-changes-local-vector', 'after stop() and start() of the same instance the local state vector differs from what it was',
                                      dict(w, local={k.hex(): v for k, v in now_real.items()}, expected={k.hex(): v for k, v in model_local.items()})))
                ctx.event('instance-restarted')
                R['pattern'].append('R')
            elif ev[0] == 'idle':
                t_end = S.now_ms() + ev[1]
                while S.now_ms() < t_end:
                    await asyncio.sleep(0.02)
                    check_obligations()
                for t, p in take_emissions():
                    check_emission_content(p, w)
                    if R.get('sup_start') is not None and heard is not None and 0 <= t - R['sup_start'] < SUP_MIN_MS - 1.5:
                        R['viol'].append(('suppression-ended-early', f'a sync Interest went out {t - R["sup_start"]:.0f} ms after a suppression period began (nothing was published)', w))
                if inst.state != SvsState.SyncSuppression:
                    R['sup_start'] = None
                heard = None if inst.state != SvsState.SyncSuppression else heard
                R['pattern'].append('i')
            elif ev[0] == 'pub-send-fault':
                # the transport fails transiently while the announcement of this publication is being sent (send() raises): the
                # publication counts, and the instance goes on announcing afterwards
                face.fail_next = OSError(105, 'No buffer space available')
                seq = inst.new_data()
                self_seq += 1
                model_local[nid(SELF)] = self_seq
                heard = None
                await asyncio.sleep(0.05)
                face.fail_next = None
                take_emissions()
                ctx.event('publication-whose-announcement-failed-in-the-transport')
                if seq != self_seq:
                    R['viol'].append(('publish-seq', f'new_data returned {seq}, expected {self_seq}', w))
                t0 = S.now_ms()
                seq = inst.new_data()
                self_seq += 1
                model_local[nid(SELF)] = self_seq
                await asyncio.sleep(0.05)
                em = take_emissions()
                if not em:
                    R['viol'].append(('publish-not-announced-promptly:after-a-transport-fault', 'after one announcement failed in the transport (send() raised), the next publication was not announced within 50 ms (virtual)', w))
                else:
                    check_emission_content(em[0][1], w)
                R['pattern'].append('f')
            elif ev[0] == 'pub':
                t0 = S.now_ms()
                if hist.get('start_again') and ei % 2 == 0:
                    # the application calls start() on the running instance once more: refused (documented RuntimeError) - and a refused
                    # call changes nothing
                    try:
                        inst.start(the_app)
                        R['viol'].append(('second-start-not-refused', 'start() on a running instance did not raise', w))
                    except RuntimeError:
                        ctx.event('second-start-refused')
                    except Exception as e:   # noqa
                        R['viol'].append((f'second-start-raises:{type(e).__name__}', f'{e!r}', w))
                seq = inst.new_data()
                self_seq += 1
                model_local[nid(SELF)] = self_seq
                heard = None
                if seq != self_seq or inst.local_sv.get(nid(SELF)) != self_seq:
                    R['viol'].append(('publish-seq', f'new_data returned {seq}, expected {self_seq}', w))
                await asyncio.sleep(0.05)
                em = take_emissions()
                ctx.event('publication')
                if len(em) < 1:
                    R['viol'].append(('publish-not-announced-promptly', 'no sync Interest within 50 ms (virtual) of new_data()', w))
                else:
                    check_emission_content(em[0][1], w)
                if len(em) > 1:
                    R['viol'].append(('publish-announced-more-than-once', f'{len(em)} sync Interests after one publication', w))
                R['pattern'].append('p')
            elif ev[0] == 'advance':
                due = due_ms()
                now = S.now_ms()
                mode = ev[1]
                if mode == 'before':
                    target = max(now, int(due) - 2)
                elif mode == 'at':
                    target = max(now, int(due))
                elif mode == 'small':
                    target = now + 7
                else:
                    target = max(now, int(due) + 3)
                state_at = inst.state
                local_at = dict(model_local)
                heard_at = None if heard is None else list(heard)
                await S.sleep_until_ms(target)
                for _ in range(3):
                    await asyncio.sleep(0)
                em = take_emissions()
                expired = due < S.now_ms() - 0.5 and due >= now - 1.0
                ambiguous = abs(due - S.now_ms()) <= 1.0 or mode == 'at'
                if expired or (ambiguous and inst.state != state_at):
                    R['expiries'] += 1
                    if state_at == SvsState.SyncSuppression:
                        merged = {}
                        for v in (heard_at or []):
                            for k, s in v.items():
                                merged[k] = max(merged.get(k, 0), s)
                        needed = any(s > merged.get(k, 0) for k, s in local_at.items())
                        ctx.event('suppression-expiry-needed' if needed else 'suppression-expiry-not-needed')
                        if needed and not em:
                            R['viol'].append(('svs-suppressed-although-newer', 'after the suppression period no sync Interest was emitted although the local vector is newer than the merge of the vectors heard',
                                              dict(w, local={k.hex(): v for k, v in local_at.items()}, heard=[{k.hex(): s for k, s in v.items()} for v in (heard_at or [])])))
                        if not needed and em:
                            R['viol'].append(('svs-emitted-although-not-newer', 'a sync Interest was emitted after the suppression period although nothing local is newer than what was heard', w))
                        if inst.state != SvsState.SyncSteady:
                            R['viol'].append(('suppression-not-left', 'state is still suppression after its timer fired', w))
                        heard = None
                    else:
                        ctx.event('periodic-expiry')
                        if not em:
                            R['viol'].append(('periodic-sync-missing', 'periodic timer fired without a sync Interest', w))
                    for t, p in em:
                        check_emission_content(p, w)
                    R['pattern'].append('X' if em else 'x')
                elif not ambiguous:
                    if em:
                        R['viol'].append(('unexpected-emission', f'sync Interest emitted at {em[0][0]} ms although no timer was due (due {due:.1f}) and nothing was published', w))
                    R['pattern'].append('a')
            check_obligations()
        if obligations:
            await asyncio.sleep((SUP_MAX_MS + 80) / 1000.0)
            check_obligations()
        if by is not None:
            # stopping the second group does not stop the first: one more vector for the first group is still merged
            by.stop()
            await asyncio.sleep(0)
            ents_ = [(nodes[0], min(model_local.get(nid(nodes[0]), 0) + 1, 2**64 - 1))]
            await face.deliver(bytes(make_interest(BASE_PREFIX + [sv_component(ents_)], InterestParam(nonce=78, lifetime=1000), b'', DigestSha256Signer(for_interest=True))))
            for _ in range(4):
                await asyncio.sleep(0)
            ctx.event('second-group-stopped-first-goes-on')
            if inst.local_sv.get(nid(nodes[0]), 0) != ents_[0][1]:
                R['viol'].append(('first-group-dead-after-second-stopped', 'after stop() of another sync group on the same application this group no longer merges the vectors it receives', {'history': hist}))
        inst.stop()
        the_app.shutdown()
        await asyncio.wait_for(main_task, 5)

    S = vtime.run(main)
    return R, S


def check_second_loop(ctx, rng):
    """One application and one sync instance live through two sessions, each under its OWN event loop (asyncio.run() per session):
    connect, start, publish, stop, disconnect.  In the second session a publication is announced promptly like in the first."""
    for rep in range(ctx.n(3, 40)):
        face = RecFace()
        the_app = appv2.NDNApp(face=face)

        async def pv(n, s_, c):
            return types.ValidResult.PASS
        inst = SvsInst(BASE_PREFIX, SELF, lambda i: None, DigestSha256Signer(for_interest=True), pv, sync_interval=30, suppression_interval=0.2)
        for session in (1, 2, 3):
            res = {}

            async def main(S):
                main_task = asyncio.ensure_future(the_app.main_loop())
                await asyncio.sleep(0.001)
                inst.start(the_app)
                await asyncio.sleep(0.4)
                n0 = len(face.sent)
                seq = inst.new_data()
                await asyncio.sleep(0.05)
                res['emitted'] = len(face.sent) - n0
                res['seq'] = seq
                inst.stop()
                await asyncio.sleep(0)
                the_app.shutdown()
                await asyncio.wait_for(main_task, 5)
            S = vtime.run(main)
            ctx.case(('second-loop', session, rep % 2), nontrivial=True)
            ctx.event(f'sync-session-{session}-under-its-own-event-loop')
            w = {'session': session}
            if S.result != 'ok':
                ctx.report(f'second-loop-scenario-{S.result}', f'{S.error!r}', w)
                break
            if res.get('emitted', 0) < 1:
                ctx.report('publish-not-announced-promptly:session-under-another-event-loop', f'in session {session} of one instance (each session under its own event loop) a publication was not announced within 50 ms (virtual)', w)
            for le in S.sentinel.all():
                ctx.report('second-loop-background-error', f'session {session}: {le.get("repr")}', w)


def run(ctx):
    ctx.rule = RULE
    rng = ctx.rng
    orig = svs_sync.secrets.randbits
    if ctx.shard == 0:
        check_second_loop(ctx, rng)
        ctx.need_event('sync-session-2-under-its-own-event-loop')
    try:
        templates = template_histories(rng) if ctx.shard == 0 else []
        for i in range(ctx.n(700, 300000) + len(templates)):
            hist = templates[i] if i < len(templates) else gen_history(rng)
            R, S = execute(ctx, hist, rng)
            for v in R['viol']:
                ctx.report(*v)
            if S.result != 'ok':
                ctx.report(f'scenario-{S.result}', f'{S.error!r}', {'history': hist})
            for le in S.sentinel.all():
                pass    # attributed per event above
            ctx.case((tuple(e[0] if e[0] not in ('recv', 'pub-recv') else e[1]['kind'] for e in hist['events']), ''.join(R['pattern'])),
                     nontrivial=R['handled'] > 0 and R['expiries'] > 0, sample=hist if i % 250 == 0 else None)
    finally:
        svs_sync.secrets.randbits = orig
    for k in ('suppression-entered', 'vector-heard-during-suppression', 'suppression-expiry-needed', 'suppression-expiry-not-needed',
              'periodic-expiry', 'publication', 'vector-newer', 'vector-self-too-much', 'vector-self-too-much-twice', 'vector-no-seq', 'outdated-vector-answered',
              'publication-next-to-reception', 'publication-before-start', 'instance-restarted', 'vector-with-unknown-elements-between-entries',
              'vector-for-a-second-group-on-the-same-application', 'second-group-stopped-first-goes-on', 'instance-restarted-without-yielding',
              'publication-whose-announcement-failed-in-the-transport',
              'second-start-refused', 'vector-longer-than-252-octets', 'wall-clock-stepped-while-a-timer-is-armed', 'vector-with-its-validator-when-the-instance-is-stopped'):
        ctx.need_event(k)
    ctx.assumptions = ['when suppression is entered is read from the instance (not part of the statement)',
                       'a vector containing a malformed entry may be merged without that entry or ignored entirely',
                       'timer jitter source (secrets.randbits) replaced by the seeded generator for reproducibility']
