"""Independent strict TLV codec, written from the NDN packet format v0.3, NDNLPv2 and
certificate v2 documents.  Shares no code with ndn.encoding (imports nothing from it).

Conventions
-----------
* ``Reject(reason)`` is raised for anything a strict reading does not accept.  Reasons are
  short stable strings; the ones the properties *state* are listed in STATED_REASONS.
* "critical" follows the rule the library documents (DecodeError docstring): Type is odd.
* Evolvability: inside a known container elements are matched against the expected field
  order; an element whose type matches a field at or after the current position is taken
  (non-repeatable fields advance the position past it); any other element is rejected when
  critical and ignored otherwise.
"""
import hashlib

STATED_REASONS = {'name-missing', 'overrun', 'bad-int-width', 'critical', 'outer-length', 'outer-type',
                  'truncated'}


class Reject(Exception):
    def __init__(self, reason, detail='', where='model'):
        super().__init__(f'{reason}: {detail}' if detail else reason)
        self.reason = reason
        self.detail = detail
        self.where = where     # 'model' (field of a TLV container) | 'name' (component of a Name)


# ---------------------------------------------------------------- primitives
def enc_var(n):
    if n < 0:
        raise ValueError('negative var-number')
    if n < 253:
        return bytes([n])
    if n <= 0xFFFF:
        return b'\xfd' + n.to_bytes(2, 'big')
    if n <= 0xFFFFFFFF:
        return b'\xfe' + n.to_bytes(4, 'big')
    return b'\xff' + n.to_bytes(8, 'big')


def var_size(n):
    return 1 if n < 253 else 3 if n <= 0xFFFF else 5 if n <= 0xFFFFFFFF else 9


def enc_tlv(t, v=b''):
    v = bytes(v)
    return enc_var(t) + enc_var(len(v)) + v


WIDEN = [0]      # 0: shortest legal width; k > 0: at least the k-th wider legal width (legal but not shortest NonNegativeIntegers)


class widened:
    """with widened(k): every NonNegativeInteger written by the reference encoder uses a wider (still legal) width."""
    def __init__(self, k):
        self.k = k

    def __enter__(self):
        self.old = WIDEN[0]
        WIDEN[0] = self.k

    def __exit__(self, *a):
        WIDEN[0] = self.old


def enc_nni(n):
    if n < 0:
        raise ValueError('negative')
    w = 1 if n <= 0xFF else 2 if n <= 0xFFFF else 4 if n <= 0xFFFFFFFF else 8
    if WIDEN[0]:
        w = max(w, (1, 2, 4, 8)[min(3, WIDEN[0])])
    return n.to_bytes(w, 'big')


def read_var(buf, off, end):
    if off >= end:
        raise Reject('truncated', 'var-number')
    b = buf[off]
    if b < 253:
        return b, off + 1
    w = {253: 2, 254: 4, 255: 8}[b]
    if off + 1 + w > end:
        raise Reject('truncated', 'var-number body')
    return int.from_bytes(buf[off + 1:off + 1 + w], 'big'), off + 1 + w


def read_tlv(buf, off, end):
    """-> (type, tlv_start, value_start, value_end); the element must lie inside [off,end)."""
    t, p = read_var(buf, off, end)
    ln, p = read_var(buf, p, end)
    if p + ln > end:
        raise Reject('overrun', f'type {t} at {off} length {ln} exceeds parent end {end}')
    return t, off, p, p + ln


def children(buf, start, end, where='model'):
    out = []
    off = start
    while off < end:
        try:
            t, ts, vs, ve = read_tlv(buf, off, end)
        except Reject as e:
            e.where = where
            raise
        out.append((t, ts, vs, ve))
        off = ve
    return out


def read_nni(buf, vs, ve):
    w = ve - vs
    if w not in (1, 2, 4, 8):
        raise Reject('bad-int-width', f'width {w}')
    return int.from_bytes(buf[vs:ve], 'big')


def is_critical(t):
    return (t & 1) == 1


def outer(buf, expected_type):
    """Exactly one element of the expected type filling the whole buffer."""
    buf = bytes(buf)
    try:
        t, p = read_var(buf, 0, len(buf))
        ln, p = read_var(buf, p, len(buf))
    except Reject:
        raise
    if t != expected_type:
        raise Reject('outer-type', f'{t} != {expected_type}')
    if p + ln != len(buf):
        raise Reject('outer-length', f'declared {ln}, have {len(buf) - p}')
    return buf, p, p + ln


def single_tlv_exact(buf):
    """Check that buf is exactly one TLV element whose nested declared lengths are exact
    as far as a generic reader can tell (outer only).  -> (type, vs, ve)"""
    buf = bytes(buf)
    t, p = read_var(buf, 0, len(buf))
    ln, p = read_var(buf, p, len(buf))
    if p + ln != len(buf):
        raise Reject('outer-length', f'declared {ln}, have {len(buf) - p}')
    return t, p, p + ln


def scan(buf, start, end, spec, ignore_critical=False):
    """Match the children of a container against ``spec``.

    spec: list of (type, repeatable).  Returns dict type -> list of (ts, vs, ve) in order of
    occurrence, plus the raw child list under key None.
    """
    found = {}
    pos = 0
    kids = children(buf, start, end)
    for (t, ts, vs, ve) in kids:
        i = pos
        while i < len(spec) and spec[i][0] != t:
            i += 1
        if i < len(spec):
            found.setdefault(t, []).append((ts, vs, ve))
            pos = i if spec[i][1] else i + 1
        else:
            if is_critical(t) and not ignore_critical:
                raise Reject('critical', f'type {t} unrecognised, repeated or out of order at {ts}')
    found[None] = kids
    return found


# ---------------------------------------------------------------- names
T_NAME = 7
T_IMPLICIT = 1
T_PARAMS = 2
T_GENERIC = 8


def read_name(buf, ts, vs, ve):
    """Components as bytes (full TLV).  Each component must lie inside the Name."""
    comps = []
    for (t, cts, cvs, cve) in children(buf, vs, ve, where='name'):
        comps.append(bytes(buf[cts:cve]))
    return comps


def enc_name(comps):
    return enc_tlv(T_NAME, b''.join(bytes(c) for c in comps))


def comp(t, v=b''):
    return enc_tlv(t, v)


def comp_parts(c):
    c = bytes(c)
    t, p = read_var(c, 0, len(c))
    ln, p = read_var(c, p, len(c))
    if p + ln != len(c):
        raise Reject('overrun', 'component')
    return t, c[p:]


def canonical_key(c):
    """NDN canonical order key of one component: type, then length, then bytes."""
    t, v = comp_parts(c)
    return (t, len(v), v)


def name_canonical_key(comps):
    return [canonical_key(c) for c in comps]


# URI forms (python-ndn documents: no extra-period convention; '=' and '%' are escaped in
# values; alternate forms seg= off= v= t= seq= for the typed numbers, sha256digest= and
# params-sha256= in lowercase hex).
_UNRESERVED = set(b'ABCDEFGHIJKLMNOPQRSTUVWXYZabcdefghijklmnopqrstuvwxyz0123456789-._~')
_ALT = {0x32: 'seg', 0x34: 'off', 0x36: 'v', 0x38: 't', 0x3A: 'seq'}
_ALT_REV = {v: k for k, v in _ALT.items()}


def _esc(v):
    return ''.join(chr(b) if b in _UNRESERVED else '%%%02X' % b for b in v)


def comp_to_canonical_uri(c):
    t, v = comp_parts(c)
    return (_esc(v) if t == T_GENERIC else f'{t}=' + _esc(v))


def comp_to_uri(c):
    t, v = comp_parts(c)
    if t == T_IMPLICIT:
        return 'sha256digest=' + v.hex()
    if t == T_PARAMS:
        return 'params-sha256=' + v.hex()
    if t in _ALT:
        return f'{_ALT[t]}={int.from_bytes(v, "big")}'
    return comp_to_canonical_uri(c)


def _unesc(s):
    out = bytearray()
    i = 0
    while i < len(s):
        ch = s[i]
        if ch == '%':
            out.append(int(s[i + 1:i + 3], 16))
            i += 3
        else:
            out += ch.encode('utf-8')
            i += 1
    return bytes(out)


def comp_from_uri(s):
    if '=' in s:
        k, _, rest = s.partition('=')
        if k == 'sha256digest':
            return comp(T_IMPLICIT, bytes.fromhex(rest))
        if k == 'params-sha256':
            return comp(T_PARAMS, bytes.fromhex(rest))
        if k in _ALT_REV:
            return comp(_ALT_REV[k], enc_nni(int(rest)))
        return comp(int(k), _unesc(rest))
    return comp(T_GENERIC, _unesc(s))


def name_to_uri(comps, canonical=False):
    f = comp_to_canonical_uri if canonical else comp_to_uri
    s = '/' + '/'.join(f(c) for c in comps)
    if comps and bytes(comps[-1]) == b'\x08\x00':
        s += '/'
    return s


# ---------------------------------------------------------------- Interest / Data
I = dict(INTEREST=5, DATA=6, CAN_BE_PREFIX=0x21, MUST_BE_FRESH=0x12, FWD_HINT=0x1e, NONCE=0x0a,
         LIFETIME=0x0c, HOP_LIMIT=0x22, APP_PARAM=0x24, ISIG_INFO=0x2c, ISIG_VALUE=0x2e,
         META_INFO=0x14, CONTENT=0x15, SIG_INFO=0x16, SIG_VALUE=0x17, CONTENT_TYPE=0x18,
         FRESHNESS=0x19, FINAL_BLOCK=0x1a, SIG_TYPE=0x1b, KEY_LOCATOR=0x1c, KEY_DIGEST=0x1d,
         SIG_NONCE=0x26, SIG_TIME=0x28, SIG_SEQ=0x2a,
         VALIDITY=0xfd, NOT_BEFORE=0xfe, NOT_AFTER=0xff, ADD_DESC=0x0102)

_SIGINFO_SPEC = [(I['SIG_TYPE'], False), (I['KEY_LOCATOR'], False), (I['SIG_NONCE'], False),
                 (I['SIG_TIME'], False), (I['SIG_SEQ'], False)]
_CERT_SIGINFO_SPEC = _SIGINFO_SPEC + [(I['VALIDITY'], False), (I['ADD_DESC'], False)]


def _one(found, t):
    lst = found.get(t)
    return lst[0] if lst else None


def read_siginfo(buf, vs, ve, ignore_critical, cert=False):
    f = scan(buf, vs, ve, _CERT_SIGINFO_SPEC if cert else _SIGINFO_SPEC, ignore_critical)
    out = {'type': None, 'key_name': None, 'key_digest': None, 'nonce': None, 'time': None, 'seq': None,
           'has_key_locator': False}
    e = _one(f, I['SIG_TYPE'])
    if e:
        out['type'] = read_nni(buf, e[1], e[2])
    e = _one(f, I['KEY_LOCATOR'])
    if e:
        out['has_key_locator'] = True
        kf = scan(buf, e[1], e[2], [(T_NAME, False), (I['KEY_DIGEST'], False)])
        n = _one(kf, T_NAME)
        if n:
            out['key_name'] = read_name(buf, *n)
        d = _one(kf, I['KEY_DIGEST'])
        if d:
            out['key_digest'] = bytes(buf[d[1]:d[2]])
    for key, t in (('nonce', 'SIG_NONCE'), ('time', 'SIG_TIME'), ('seq', 'SIG_SEQ')):
        e = _one(f, I[t])
        if e:
            out[key] = read_nni(buf, e[1], e[2])
    if cert:
        out['not_before'] = out['not_after'] = None
        e = _one(f, I['VALIDITY'])
        if e:
            vf = scan(buf, e[1], e[2], [(I['NOT_BEFORE'], False), (I['NOT_AFTER'], False)])
            a = _one(vf, I['NOT_BEFORE'])
            b = _one(vf, I['NOT_AFTER'])
            out['not_before'] = bytes(buf[a[1]:a[2]]) if a else None
            out['not_after'] = bytes(buf[b[1]:b[2]]) if b else None
        out['add_desc'] = None
        e = _one(f, I['ADD_DESC'])
        if e:
            # AdditionalDescription = 1*DescriptionEntry(0x0200) { DescriptionKey(0x0201) DescriptionValue(0x0202) }
            ents = []
            regular = True
            for (t2, ts2, vs2, ve2) in children(buf, e[1], e[2]):
                if t2 == 0x0200:
                    kids2 = children(buf, vs2, ve2)
                    if [k[0] for k in kids2] != [0x0201, 0x0202]:
                        regular = False       # repeated / missing / foreign elements inside an entry: which one counts is not stated
                    kv = {k[0]: bytes(buf[k[2]:k[3]]) for k in kids2}
                    ents.append((kv.get(0x0201), kv.get(0x0202)))
                else:
                    regular = False
            out['add_desc'] = ents
            out['add_desc_regular'] = regular
    return out


_DATA_SPEC = [(T_NAME, False), (I['META_INFO'], False), (I['CONTENT'], False), (I['SIG_INFO'], False),
              (I['SIG_VALUE'], False)]


def strict_data(wire, with_tl=True, cert=False):
    buf = bytes(wire)
    if with_tl:
        buf, vs, ve = outer(buf, I['DATA'])
    else:
        vs, ve = 0, len(buf)
    f = scan(buf, vs, ve, _DATA_SPEC)
    n = _one(f, T_NAME)
    if n is None:
        raise Reject('name-missing')
    out = {'name': read_name(buf, *n), 'content_type': None, 'freshness': None, 'final_block': None,
           'has_meta': False, 'content': None, 'sig_info': None, 'sig_value': None,
           'signed_portion': None}
    m = _one(f, I['META_INFO'])
    if m:
        out['has_meta'] = True
        mf = scan(buf, m[1], m[2], [(I['CONTENT_TYPE'], False), (I['FRESHNESS'], False), (I['FINAL_BLOCK'], False)])
        e = _one(mf, I['CONTENT_TYPE'])
        if e:
            out['content_type'] = read_nni(buf, e[1], e[2])
        e = _one(mf, I['FRESHNESS'])
        if e:
            out['freshness'] = read_nni(buf, e[1], e[2])
        e = _one(mf, I['FINAL_BLOCK'])
        if e:
            out['final_block'] = bytes(buf[e[1]:e[2]])
    c = _one(f, I['CONTENT'])
    if c:
        out['content'] = bytes(buf[c[1]:c[2]])
    si = _one(f, I['SIG_INFO'])
    if si:
        out['sig_info'] = read_siginfo(buf, si[1], si[2], ignore_critical=True, cert=cert)
    sv = _one(f, I['SIG_VALUE'])
    if sv:
        out['sig_value'] = bytes(buf[sv[1]:sv[2]])
        # NDN spec: signature covers from the beginning of Name up to (excluding) SignatureValue
        out['signed_portion'] = bytes(buf[n[0]:sv[0]])
    return out


_INT_SPEC = [(T_NAME, False), (I['CAN_BE_PREFIX'], False), (I['MUST_BE_FRESH'], False), (I['FWD_HINT'], False),
             (I['NONCE'], False), (I['LIFETIME'], False), (I['HOP_LIMIT'], False), (I['APP_PARAM'], False),
             (I['ISIG_INFO'], False), (I['ISIG_VALUE'], False)]


def strict_interest(wire, with_tl=True):
    buf = bytes(wire)
    if with_tl:
        buf, vs, ve = outer(buf, I['INTEREST'])
    else:
        vs, ve = 0, len(buf)
    f = scan(buf, vs, ve, _INT_SPEC)
    n = _one(f, T_NAME)
    if n is None:
        raise Reject('name-missing')
    name = read_name(buf, *n)
    out = {'name': name, 'can_be_prefix': bool(f.get(I['CAN_BE_PREFIX'])),
           'must_be_fresh': bool(f.get(I['MUST_BE_FRESH'])), 'fwd_hint': [], 'nonce': None, 'lifetime': None,
           'hop_limit': None, 'app_param': None, 'sig_info': None, 'sig_value': None,
           'signed_portion': None, 'digest_portion': None, 'digest_value': None}
    e = _one(f, I['FWD_HINT'])
    if e:
        ff = scan(buf, e[1], e[2], [(T_NAME, True)])
        out['fwd_hint'] = [read_name(buf, *x) for x in ff.get(T_NAME, [])]
    for key, t in (('nonce', 'NONCE'), ('lifetime', 'LIFETIME'), ('hop_limit', 'HOP_LIMIT')):
        e = _one(f, I[t])
        if e:
            out[key] = read_nni(buf, e[1], e[2])
    ap = _one(f, I['APP_PARAM'])
    if ap:
        out['app_param'] = bytes(buf[ap[1]:ap[2]])
    si = _one(f, I['ISIG_INFO'])
    if si:
        out['sig_info'] = read_siginfo(buf, si[1], si[2], ignore_critical=False)
    sv = _one(f, I['ISIG_VALUE'])
    if sv:
        out['sig_value'] = bytes(buf[sv[1]:sv[2]])
    for c in name:
        if comp_parts(c)[0] == T_PARAMS:
            out['digest_value'] = comp_parts(c)[1]     # the last one wins in the library too
    # Spec (signed Interest): all name components except ParametersSha256Digest, then everything
    # from ApplicationParameters up to but excluding InterestSignatureValue.
    first_after = ap or si
    if sv and first_after:
        out['signed_portion'] = b''.join(c for c in name if comp_parts(c)[0] != T_PARAMS) \
            + bytes(buf[first_after[0]:sv[0]])
    # Spec (parameters digest): SHA-256 over ApplicationParameters through the end of the Interest.
    if ap:
        out['digest_portion'] = bytes(buf[ap[0]:ve])
    return out


def params_digest_ok(parsed):
    """digest component equals SHA-256(ApplicationParameters..end).  parsed = strict_interest()."""
    if parsed['digest_portion'] is None or parsed['digest_value'] is None:
        return False
    return hashlib.sha256(parsed['digest_portion']).digest() == parsed['digest_value']


# ---------------------------------------------------------------- NDNLPv2
L = dict(FRAGMENT=0x50, SEQUENCE=0x51, FRAG_INDEX=0x52, FRAG_COUNT=0x53, PIT_TOKEN=0x62, LP_PACKET=0x64,
         NACK=0x0320, NACK_REASON=0x0321, INCOMING_FACE_ID=0x032C, NEXT_HOP_FACE_ID=0x0330,
         CACHE_POLICY=0x0334, CACHE_POLICY_TYPE=0x0335, CONGESTION_MARK=0x0340, ACK=0x0344,
         TX_SEQUENCE=0x0348, NON_DISCOVERY=0x034C, PREFIX_ANNOUNCEMENT=0x0350)


LP_PLAIN_HEADERS = {0x032C: 'incoming_face_id', 0x0330: 'next_hop_face_id', 0x0340: 'congestion_mark', 0x0344: 'ack', 0x0348: 'tx_sequence',
                    0x034C: 'non_discovery', 0x0350: 'prefix_announcement'}


def strict_lp(wire, with_tl=True):
    """Reads what the application layer uses: fragmentation fields, PIT token, Nack, fragment.
    Header fields are located by type anywhere in the envelope (headers precede the fragment in
    NDNLPv2, but the properties only state that unknown headers are ignored)."""
    buf = bytes(wire)
    if with_tl:
        buf, vs, ve = outer(buf, L['LP_PACKET'])
    else:
        vs, ve = 0, len(buf)
    kids = children(buf, vs, ve)
    out = {'fragmented': False, 'pit_token': None, 'nack': False, 'nack_reason': None, 'fragment': None,
           'types': [k[0] for k in kids]}
    for (t, ts, cvs, cve) in kids:
        if t in (L['FRAG_INDEX'], L['FRAG_COUNT']):
            out['fragmented'] = True
        elif t == L['PIT_TOKEN'] and out['pit_token'] is None:
            out['pit_token'] = bytes(buf[cvs:cve])
        elif t == L['NACK'] and not out['nack']:
            out['nack'] = True
            for (t2, ts2, vs2, ve2) in children(buf, cvs, cve):
                if t2 == L['NACK_REASON'] and out['nack_reason'] is None:
                    out['nack_reason'] = read_nni(buf, vs2, ve2)
            if out['nack_reason'] is None:
                # NDNLPv2: the NackReason element is optional; a Nack header without it is a Nack without a stated reason (None = 0)
                out['nack_reason'] = 0
                out['nack_reason_omitted'] = True
        elif t == L['FRAGMENT'] and out['fragment'] is None:
            out['fragment'] = bytes(buf[cvs:cve])
        elif t in LP_PLAIN_HEADERS and LP_PLAIN_HEADERS[t] not in out:
            # the remaining headers the format defines: value octets as they stand (integers are read by the caller)
            out[LP_PLAIN_HEADERS[t]] = bytes(buf[cvs:cve])
    return out


def make_lp(fragment=None, pit_token=None, nack_reason=None, nack=False, headers=(), frag_index=None,
            frag_count=None, ordered=True):
    """headers: extra (type, value-bytes) pairs.  ordered=True (NDNLPv2: header fields appear in increasing type order) merges
    them with the named fields by type number; ordered=False keeps the named fields first and the extra ones as given."""
    fields = []
    if frag_index is not None:
        fields.append((L['FRAG_INDEX'], enc_nni(frag_index)))
    if frag_count is not None:
        fields.append((L['FRAG_COUNT'], enc_nni(frag_count)))
    if pit_token is not None:
        fields.append((L['PIT_TOKEN'], pit_token))
    if nack or nack_reason is not None:
        inner = enc_tlv(L['NACK_REASON'], enc_nni(nack_reason)) if nack_reason is not None else b''
        fields.append((L['NACK'], inner))
    fields += list(headers)
    if ordered:
        fields = [f for _, f in sorted(enumerate(fields), key=lambda x: (x[1][0], x[0]))]
    body = b''.join(enc_tlv(t, v) for t, v in fields)
    if fragment is not None:
        body += enc_tlv(L['FRAGMENT'], fragment)
    return enc_tlv(L['LP_PACKET'], body)


# ---------------------------------------------------------------- builders (reference encoder)
def make_siginfo_value(sig_type, key_name=None, nonce=None, time=None, seq=None, extra=b''):
    v = enc_tlv(I['SIG_TYPE'], enc_nni(sig_type))
    if key_name is not None:
        v += enc_tlv(I['KEY_LOCATOR'], enc_name(key_name))
    if nonce is not None:
        v += enc_tlv(I['SIG_NONCE'], enc_nni(nonce))
    if time is not None:
        v += enc_tlv(I['SIG_TIME'], enc_nni(time))
    if seq is not None:
        v += enc_tlv(I['SIG_SEQ'], enc_nni(seq))
    return v + extra


def make_data(name, content=None, content_type=None, freshness=None, final_block=None, meta=True,
              sig_type=None, key_name=None, sig_value=None, sign=None):
    """sign: callable(signed_portion bytes) -> signature bytes."""
    v = enc_name(name)
    if meta:
        m = b''
        if content_type is not None:
            m += enc_tlv(I['CONTENT_TYPE'], enc_nni(content_type))
        if freshness is not None:
            m += enc_tlv(I['FRESHNESS'], enc_nni(freshness))
        if final_block is not None:
            m += enc_tlv(I['FINAL_BLOCK'], final_block)
        v += enc_tlv(I['META_INFO'], m)
    if content is not None:
        v += enc_tlv(I['CONTENT'], content)
    if sig_type is not None:
        v += enc_tlv(I['SIG_INFO'], make_siginfo_value(sig_type, key_name))
        if sign is not None:
            sig_value = sign(v)
        v += enc_tlv(I['SIG_VALUE'], sig_value if sig_value is not None else b'')
    return enc_tlv(I['DATA'], v)


def make_interest(name, can_be_prefix=False, must_be_fresh=False, fwd_hint=(), nonce=None, lifetime=None,
                  hop_limit=None, app_param=None, sig_info_value=None, sign=None, sig_value=None,
                  fix_digest=True):
    """name: list of components; when app_param is given and fix_digest, a ParametersSha256Digest
    component is appended (or the existing placeholder filled in)."""
    name = [bytes(c) for c in name]
    tail = b''
    if can_be_prefix:
        tail += enc_tlv(I['CAN_BE_PREFIX'])
    if must_be_fresh:
        tail += enc_tlv(I['MUST_BE_FRESH'])
    if fwd_hint:
        tail += enc_tlv(I['FWD_HINT'], b''.join(enc_name(n) for n in fwd_hint))
    if nonce is not None:
        tail += enc_tlv(I['NONCE'], nonce.to_bytes(4, 'big'))
    if lifetime is not None:
        tail += enc_tlv(I['LIFETIME'], enc_nni(lifetime))
    if hop_limit is not None:
        tail += enc_tlv(I['HOP_LIMIT'], bytes([hop_limit]))
    params = b''
    if app_param is not None:
        params += enc_tlv(I['APP_PARAM'], app_param)
        if sig_info_value is not None:
            params += enc_tlv(I['ISIG_INFO'], sig_info_value)
            if sign is not None:
                covered = b''.join(c for c in name if comp_parts(c)[0] != T_PARAMS) + params
                sig_value = sign(covered)
            params += enc_tlv(I['ISIG_VALUE'], sig_value if sig_value is not None else b'')
        if fix_digest:
            d = comp(T_PARAMS, hashlib.sha256(params).digest())
            idx = [i for i, c in enumerate(name) if comp_parts(c)[0] == T_PARAMS]
            if idx:
                name[idx[0]] = d
            else:
                name.append(d)
    return enc_tlv(I['INTEREST'], enc_name(name) + tail + params), name
