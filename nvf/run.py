"""Runner: ``/venv/bin/python -m nvf.run <Cxx> <quick|thorough> [--shard i/n] [--shards n]``.

quick  : one process.
thorough: the same check sharded over subprocesses (one per core), merged by the parent.
Every child is a fresh interpreter with PYTHONPATH=/repo/src, so the code under test is
always the current working tree of /repo.
"""
import faulthandler
import importlib
import json
import os
import subprocess
import sys
import tempfile
import time

from . import common

REPO_SRC = os.environ.get('NVF_REPO_SRC', '/repo/src')
QUICK_WATCHDOG_S = 900
THOROUGH_SHARD_TIMEOUT_S = 3600


def child_env():
    env = dict(os.environ)
    env['PYTHONPATH'] = REPO_SRC + os.pathsep + common.ROOT
    env['PYTHONHASHSEED'] = '0'
    env['PYTHONDONTWRITEBYTECODE'] = '1'
    env['PYTHON_NDN_VERIF'] = '1'
    return env


def run_one(prop, tier, seed, shard, nshards):
    sys.dont_write_bytecode = True
    if REPO_SRC not in sys.path:
        sys.path.insert(0, REPO_SRC)
    import logging
    logging.disable(logging.CRITICAL)     # the library logs every dropped packet
    mod = importlib.import_module(f'nvf.{prop.lower()}')
    ctx = common.Ctx(prop, tier, seed, shard, nshards, level=getattr(mod, 'LEVEL', 'exploration'))
    try:
        mod.run(ctx)
    except Exception as e:   # noqa
        # the harness itself failed (typically because the code under test returned something the harness could not
        # digest): that is neither "held" nor a witnessed violation
        import traceback
        tb = traceback.format_exc()
        ctx.inconclusive(f'harness exception {type(e).__name__}: {e!s:.200} @ {tb.strip().splitlines()[-3].strip() if len(tb.splitlines()) > 3 else ""}')
    return ctx


def main(argv):
    if len(argv) < 2:
        print(__doc__)
        return 64
    prop, tier = argv[0].upper(), argv[1]
    tier = os.environ.get('VERIF_TIER', tier) if tier not in ('quick', 'thorough') else tier
    seed = int(os.environ.get('VERIF_SEED', '0') or 0)
    shard = None
    nshards = None
    out = None
    i = 2
    while i < len(argv):
        if argv[i] == '--shard':
            a, b = argv[i + 1].split('/')
            shard, nshards = int(a), int(b)
            i += 2
        elif argv[i] == '--shards':
            nshards = int(argv[i + 1])
            i += 2
        elif argv[i] == '--out':
            out = argv[i + 1]
            i += 2
        else:
            print('unknown argument', argv[i])
            return 64

    if os.environ.get('PYTHONHASHSEED') != '0' or REPO_SRC not in os.environ.get('PYTHONPATH', ''):
        # re-exec in the pinned environment
        return subprocess.call([sys.executable, '-m', 'nvf.run'] + argv, env=child_env(), cwd=common.ROOT)

    if shard is not None:
        # shard child: run, dump partial result
        faulthandler.dump_traceback_later(THOROUGH_SHARD_TIMEOUT_S, exit=True)
        ctx = run_one(prop, tier, seed, shard, nshards)
        with open(out, 'w') as f:
            json.dump(ctx.dump(), f)
        return 0

    if tier == 'quick':
        faulthandler.dump_traceback_later(QUICK_WATCHDOG_S, exit=True)
        ctx = run_one(prop, tier, seed, 0, 1)
        return ctx.finish()

    # thorough: shard
    nshards = nshards or int(os.environ.get('NVF_SHARDS', '0') or 0) or min(16, os.cpu_count() or 4)
    mod = importlib.import_module(f'nvf.{prop.lower()}')
    parent = common.Ctx(prop, tier, seed, 0, nshards, level=getattr(mod, 'LEVEL', 'exploration'))
    tmpd = tempfile.mkdtemp(prefix='nvf-')
    procs = []
    try:
        for s in range(nshards):
            o = os.path.join(tmpd, f'shard{s}.json')
            log = open(os.path.join(tmpd, f'shard{s}.log'), 'w')
            p = subprocess.Popen([sys.executable, '-m', 'nvf.run', prop, tier, '--shard', f'{s}/{nshards}',
                                  '--out', o], env=child_env(), cwd=common.ROOT, stdout=log, stderr=subprocess.STDOUT)
            procs.append((s, p, o, log))
        deadline = time.time() + THOROUGH_SHARD_TIMEOUT_S + 60
        for s, p, o, log in procs:
            try:
                rc = p.wait(timeout=max(1, deadline - time.time()))
            except subprocess.TimeoutExpired:
                p.kill()
                rc = -9
            log.close()
            if rc != 0 or not os.path.exists(o):
                tail = open(log.name).read()[-1500:]
                parent.inconclusive(f'shard {s} ended rc={rc}: {tail!r}')
                continue
            with open(o) as f:
                parent.merge(json.load(f))
    finally:
        for s, p, o, log in procs:
            if p.poll() is None:
                p.kill()
        import shutil
        shutil.rmtree(tmpd, ignore_errors=True)
    parent.extra['shards'] = nshards
    return parent.finish()


if __name__ == '__main__':
    sys.exit(main(sys.argv[1:]))
