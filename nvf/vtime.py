"""Virtual-time asyncio loop + exception sentinel.

* Loop time starts at 0.0; wall clock (time.time) = BASE + loop time + 10us, patched for the
  duration of a scenario, so utils.timestamp() is an exact integer number of milliseconds
  whenever the scenario keeps to a millisecond grid.
* When nothing is ready the clock jumps to the next timer.  When nothing is ready and nothing is
  scheduled the loop raises Stalled instead of blocking in select(): that is an observation
  ("this awaitable can never complete"), not a harness error.
* The ready queue is never reordered.
"""
import asyncio
import logging
import gc
import heapq
import sys
import time as _time

BASE = 1_000_000_000.0
EPS = 1e-5


class Stalled(Exception):
    pass


class VLoop(asyncio.SelectorEventLoop):
    def __init__(self):
        super().__init__()
        self._vt = 0.0
        self.max_vt = 3600.0 * 24
        self.steps = 0

    def time(self):
        return self._vt

    def _run_once(self):
        self.steps += 1
        while self._scheduled and self._scheduled[0]._cancelled:
            h = heapq.heappop(self._scheduled)
            h._scheduled = False
            self._timer_cancelled_count = max(0, self._timer_cancelled_count - 1)
        if not self._ready and not self._stopping:
            if self._scheduled:
                when = self._scheduled[0]._when
                if when > self._vt:
                    self._vt = when
                if self._vt > self.max_vt:
                    raise Stalled('virtual time limit exceeded')
            else:
                raise Stalled('nothing ready and nothing scheduled')
        super()._run_once()


class Sentinel:
    """Collects everything that would surface as an unhandled error in a real program."""
    def __init__(self):
        self.loop_errors = []      # dicts from loop.call_exception_handler
        self.unraisable = []

    def handler(self, loop, context):
        exc = context.get('exception')
        self.loop_errors.append({'message': context.get('message'), 'exception': exc,
                                 'repr': repr(exc) if exc is not None else None})

    def hook(self, unraisable):
        self.unraisable.append({'exc': unraisable.exc_value, 'msg': unraisable.err_msg,
                                'repr': repr(unraisable.exc_value)})

    def all(self):
        return self.loop_errors + self.unraisable


# The application's log level is no input of any property: every DEBUG_EVERY-th scenario runs with the library's loggers at
# DEBUG (into a NullHandler), so that code guarded by logger.isEnabledFor(DEBUG) is part of what the monitors observe.
DEBUG_EVERY = 4
SCENARIOS = {'total': 0, 'debug_logging': 0}


class Scenario:
    """Runs one coroutine on a fresh virtual loop.

    result: 'ok' | 'stalled' | 'raised'; .value / .error; .sentinel has the background errors.
    """
    def __init__(self):
        self.loop = None
        self.sentinel = Sentinel()
        self.result = None
        self.value = None
        self.error = None
        self.wall_offset = 0.0      # what the wall clock (time.time) has been stepped by; the loop's monotonic time is unaffected

    def step_wall(self, seconds):
        """The wall clock is set forwards / backwards (NTP step, operator correction, resume): time.time() jumps, timers do not."""
        self.wall_offset += seconds

    def now_ms(self):
        return int(round(self.loop.time() * 1000))

    async def sleep_until_ms(self, t_ms):
        dt = t_ms / 1000.0 - self.loop.time()
        if dt > 0:
            await asyncio.sleep(dt)
        else:
            await asyncio.sleep(0)

    def run(self, coro_fn, settle_s=0.0):
        loop = VLoop()
        self.loop = loop
        old_time = _time.time
        old_hook = sys.unraisablehook
        loop.set_exception_handler(self.sentinel.handler)
        sys.unraisablehook = self.sentinel.hook
        SCENARIOS['total'] += 1
        self.debug_logging = DEBUG_EVERY and SCENARIOS['total'] % DEBUG_EVERY == DEBUG_EVERY - 1
        lib_logger = logging.getLogger('ndn')
        old_log = (lib_logger.level, lib_logger.propagate, logging.root.manager.disable)
        if self.debug_logging:
            SCENARIOS['debug_logging'] += 1
            if not any(isinstance(h, logging.NullHandler) for h in lib_logger.handlers):
                lib_logger.addHandler(logging.NullHandler())
            lib_logger.propagate = False
            lib_logger.setLevel(logging.DEBUG)
            logging.disable(logging.NOTSET)
        _time.time = lambda: BASE + loop._vt + EPS + self.wall_offset
        asyncio.set_event_loop(loop)
        main = None
        try:
            main = loop.create_task(coro_fn(self))
            try:
                loop.run_until_complete(main)
                self.result = 'ok'
                self.value = main.result()
            except Stalled as e:
                self.result = 'stalled'
                self.error = e
            except BaseException as e:   # noqa
                if isinstance(e, (KeyboardInterrupt, SystemExit)):
                    raise
                self.result = 'raised'
                self.error = e
            # drain: cancel whatever is left, let the cancellations run
            for _ in range(3):
                pending = [t for t in asyncio.all_tasks(loop) if not t.done()]
                if not pending:
                    break
                for t in pending:
                    t.cancel()
                try:
                    loop.run_until_complete(asyncio.gather(*pending, return_exceptions=True))
                except Stalled:
                    break
                except BaseException:   # noqa
                    pass
            main = None
            pending = None
            gc.collect()
            try:
                loop.run_until_complete(asyncio.sleep(0))
            except BaseException:   # noqa
                pass
        finally:
            _time.time = old_time
            if self.debug_logging:
                lib_logger.setLevel(old_log[0])
                lib_logger.propagate = old_log[1]
                logging.disable(old_log[2])
            asyncio.set_event_loop(None)
            try:
                loop.close()
            except BaseException:   # noqa
                pass
            gc.collect()
            sys.unraisablehook = old_hook
        return self


def run(coro_fn):
    return Scenario().run(coro_fn)


def selftest():
    async def a(sc):
        t0 = sc.loop.time()
        await asyncio.sleep(5)
        assert abs(sc.loop.time() - t0 - 5) < 1e-9
        assert int(_time.time() * 1000) == int(BASE * 1000) + 5000, _time.time()
        await sc.sleep_until_ms(7001)
        assert int(_time.time() * 1000) == int(BASE * 1000) + 7001
        return 7
    w0 = _time.time()
    s = run(a)
    assert s.result == 'ok' and s.value == 7 and _time.time() - w0 < 2

    async def b(sc):
        await sc.loop.create_future()
    s = run(b)
    assert s.result == 'stalled'

    async def c(sc):
        async def boom():
            raise KeyError('x')
        asyncio.ensure_future(boom())
        await asyncio.sleep(1)
    s = run(c)
    assert s.result == 'ok' and any(isinstance(e['exception'], KeyError) for e in s.sentinel.loop_errors), s.sentinel.all()
