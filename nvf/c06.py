"""C06 - receive path: exact stream framing, and no failure on any delivered bytes.

(a) framing: a real TcpFace/UnixFace object's run() is fed chunk by chunk through an
    asyncio.StreamReader (thorough: also through real unix / TCP loopback sockets); the sequence
    of (type, bytes) handed to the callback must equal the packets in the stream.
(b) robustness: every kind of valid packet and its mutants are delivered to both NDNApp
    front-ends (awaited, so an escaping exception is seen; background errors via the sentinel)
    in an empty and in a busy state; bystanders (pending Interests, attached handlers) must still
    complete normally afterwards.
(c) UDP: datagrams into a real UdpFace over loopback.
"""
import asyncio
import os
import shutil
import socket
import tempfile

from . import gen, pkts, vtime, refcodec as rc
from .boundary import RecFace
from .common import raising_site
from . import c07

from ndn import appv2, app as appv1, types
from ndn.encoding import make_data, make_interest, MetaInfo, InterestParam
from ndn.security import DigestSha256Signer, KeychainDigest
from ndn.transport.stream_face import TcpFace, UnixFace
from ndn.transport.udp_face import UdpFace

LEVEL = 'fault_enumeration'

RULE = ('(a) packet sequences with 1/3/5/9-byte type and length numbers and empty values, cut at every single position, '
        'random multi-cuts, EOF at every offset, through a real StreamFace.run(); (b) corpus of every packet kind x '
        '{byte substitution, truncation, structural mutation, random strings} delivered with consistent outer framing '
        'and as-is, to both front-ends in empty and busy states, followed by bystander completion; (c) UDP datagrams; '
        'distinct = (sub-check, front-end, state, packet kind, mutation kind, framing mode) resp. (stream id, cut set); '
        'non-trivial = every case'
        '; finished-window scenarios (Nack/Data in the loop step in which the Interest was cancelled / timed out); handler invocations judged per delivered packet; chunks and EOF made readable with and without the loop running in between (burst / EOF with the last chunk)')

P1 = [rc.comp(8, b'p'), rc.comp(8, b'one')]
P2 = [rc.comp(8, b'p'), rc.comp(8, b'two')]
P3 = P1 + [rc.comp(1, b'\x5a' * 32)]
H = [rc.comp(8, b'h')]
HS = [rc.comp(8, b'h'), rc.comp(8, b'signed')]


# ------------------------------------------------------------------ (a) framing
def framing_streams(rng, n):
    out = []
    fixed = [
        [rc.enc_tlv(5, b'\x07\x03\x08\x01a'), rc.enc_tlv(6, b''), rc.enc_tlv(0x64, b'\x50\x00')],
        [rc.enc_tlv(0xFD, b'x' * 3), rc.enc_tlv(0x320, b''), rc.enc_tlv(0x10000, b'yy'), rc.enc_tlv(6, b'z' * 253)],
        [b'\xff' + (2**33).to_bytes(8, 'big') + b'\x01q', b'\x06\xff' + (3).to_bytes(8, 'big') + b'abc', b'\x05\xfe\x00\x00\x00\x02hi'],
        [b'\x05\xfd\x00\x01Z', b'\xfd\x00\x06\x00', b'\x06\x00'],
    ]
    out.extend(fixed)
    for _ in range(n):
        pk = []
        for _ in range(rng.randint(1, 4)):
            t = rng.choice([5, 6, 0x64, 0xFC, 0xFD, 0xFFFF, 0x10000, 2**32, 2**40])
            L = rng.choice([0, 0, 1, 2, 5, 20, 252, 253, 300]) if rng.random() < 0.95 else 66000
            body = gen.rand_bytes(rng, L)
            if rng.random() < 0.15:
                # non-minimal length number
                w = rng.choice([3, 5, 9] if L < 65536 else [5, 9])
                ln = (b'\xfd' + L.to_bytes(2, 'big')) if w == 3 else (b'\xfe' + L.to_bytes(4, 'big')) if w == 5 else (b'\xff' + L.to_bytes(8, 'big'))
                pk.append(rc.enc_var(t) + ln + body)
            else:
                pk.append(rc.enc_tlv(t, body))
        out.append(pk)
    return out


PAUSES = (0.2, 1.5, 0.999, 1.0, 30.0, 1.001, 61.0, 0.05, 2.0, 5.0)
PAUSE_I = [0]


OSERR_I = [0]


async def run_stream_face(face_cls, chunks, eof=True, gap='yield', face=None, ret_face=False):
    """gap: 'yield' - the loop runs between chunks and before EOF; 'eof-with-last' - the last chunk and EOF become readable in the
    same loop turn; 'burst' - everything (and EOF) is buffered before run() gets to read at all (peer wrote and closed at once)."""
    got = []
    if face is None:
        face = face_cls()
    face.reader = asyncio.StreamReader()          # what open() does on every (re)connection
    face.running = True

    async def cb(typ, buf):
        got.append((typ, bytes(buf)))
    face.callback = cb
    task = asyncio.ensure_future(face.run())
    for ci, ch in enumerate(chunks):
        if ch:
            face.reader.feed_data(ch)
        if gap == 'yield' or (gap == 'eof-with-last' and ci < len(chunks) - 1):
            await asyncio.sleep(0)
        elif gap == 'pause':
            # the peer (or the network) pauses between two reads - in the middle of a packet, for a fraction of a second up to minutes
            PAUSE_I[0] += 1
            await asyncio.sleep(PAUSES[PAUSE_I[0] % len(PAUSES)])
    if eof == 'oserror':
        # the connection ends with an error of the operating system other than a reset (timed out, host unreachable, aborted):
        # an end of the stream like any other
        OSERR_I[0] += 1
        face.reader.set_exception([TimeoutError(110, 'Connection timed out'), OSError(113, 'No route to host'), ConnectionAbortedError(103, 'Software caused connection abort'),
                                   BrokenPipeError(32, 'Broken pipe')][OSERR_I[0] % 4])
    elif eof:
        face.reader.feed_eof()
    for _ in range(6):
        await asyncio.sleep(0)
        if task.done():
            break
    done = task.done()
    for _ in range(3):
        await asyncio.sleep(0)
    err = None
    if done:
        try:
            task.result()
        except BaseException as e:   # noqa
            err = e
    else:
        task.cancel()
    if ret_face:
        return got, done, face.running, err, face
    return got, done, face.running, err


def expected_packets(packets, upto):
    out = []
    off = 0
    for p in packets:
        if off + len(p) <= upto:
            t, _ = rc.read_var(p, 0, len(p))
            out.append((t, p))
        off += len(p)
    return out


def check_framing(ctx, rng):
    streams = framing_streams(rng, 25 if ctx.quick else 1600)
    if not ctx.quick:
        streams = [s for i, s in enumerate(streams) if i % ctx.nshards == ctx.shard or i < 4]

    GAPS = ['yield', 'pause', 'yield', 'eof-with-last', 'burst']
    gap_i = [0]

    async def body(S):
        S.loop.max_vt = 3600.0 * 24 * 3650      # (the pauses between reads add up to weeks of virtual time)
        for si, packets in enumerate(streams):
            data = b''.join(packets)
            n = len(data)
            cutsets = []
            small = n <= 200
            if small:
                cutsets += [(c,) for c in range(1, n)]                      # every single cut
            else:
                cutsets += [(c,) for c in sorted(rng.sample(range(1, n), 40))]
                # cuts inside every type/length number
                off = 0
                for p in packets:
                    for d in range(1, min(len(p), 20)):
                        cutsets.append((off + d,))
                    off += len(p)
            if n <= 64 or (not ctx.quick and n <= 120):
                cutsets += [(a, b) for a in range(1, n) for b in range(a + 1, n)]   # every double cut
                ctx.extra['exhaustive_double_cut_streams'] = ctx.extra.get('exhaustive_double_cut_streams', 0) + 1
            for _ in range(20):
                k = rng.randint(2, min(12, max(2, n - 1)))
                if n > k + 1:
                    cutsets.append(tuple(sorted(rng.sample(range(1, n), k))))
            cutsets.append(tuple(range(1, n)) if n <= 400 else (1,))            # byte by byte
            for cuts in cutsets:
                chunks = []
                prev = 0
                for c in cuts:
                    chunks.append(data[prev:c])
                    prev = c
                chunks.append(data[prev:])
                for cls in ((TcpFace,) if (len(cuts) > 1 and len(cuts) != n - 1) else (TcpFace, UnixFace)):
                    gap = GAPS[gap_i[0] % len(GAPS)]
                    gap_i[0] += 1
                    got, done, running, err = await run_stream_face(cls, chunks, gap=gap)
                    ctx.event('framing-gap-' + gap)
                    judge_framing(ctx, packets, n, got, done, running, err, {'stream': si, 'cuts': cuts[:20], 'face': cls.__name__, 'gap': gap})
                ctx.case(('framing', si, cuts[:6], len(cuts)))
            if si == 0:
                # long bursts: hundreds / thousands of complete packets available to the reader at once (one read, or two)
                for count in (300, 700, 3000):
                    many = [bytes(make_data([rc.comp(8, b'burst'), rc.comp(8, b'%05d' % j)], MetaInfo(), b'x' * (j % 5), None)) for j in range(count)]
                    blob = b''.join(many)
                    for chunks in ([blob], [blob[:len(blob) // 2 + 3], blob[len(blob) // 2 + 3:]]):
                        got, done, running, err = await run_stream_face(TcpFace, chunks, gap='burst')
                        judge_framing(ctx, many, len(blob), got, done, running, err, {'stream': f'burst-{count}', 'reads': len(chunks)})
                        ctx.event('framing-long-burst')
                        ctx.case(('framing-burst', count, len(chunks)))
            # the same face object used for a second connection after a stream that ended in the middle of a packet
            for k in sorted(set(rng.sample(range(1, n), min(6, n - 1)))) if n > 2 else []:
                cut = rng.randint(0, k)
                got1, done1, running1, err1, fobj = await run_stream_face(TcpFace, [data[:cut], data[cut:k]], ret_face=True)
                judge_framing(ctx, packets, k, got1, done1, running1, err1, {'stream': si, 'eof_at': k, 'connection': 1})
                got2, done2, running2, err2 = await run_stream_face(TcpFace, [data[:n // 2], data[n // 2:]], face=fobj)
                judge_framing(ctx, packets, n, got2, done2, running2, err2, {'stream': si, 'connection': 2, 'previous_stream_ended_at': k})
                ctx.event('framing-second-connection-on-one-face')
                ctx.case(('reconnect', si, k))
            # EOF at every offset (stream ends mid-packet)
            offs = range(0, n + 1) if small else sorted(set(rng.sample(range(0, n + 1), 40)) | {0, n})
            for k in offs:
                cut = rng.randint(0, k) if k else 0
                gap = GAPS[gap_i[0] % len(GAPS)]
                gap_i[0] += 1
                ends_with = 'oserror' if ((k + si) % 4 == 0 and gap in ('yield', 'pause')) else True      # (data and error in ONE loop turn leave asyncio's StreamReader itself waiting: not the library's)
                got, done, running, err = await run_stream_face(TcpFace, [data[:cut], data[cut:k]], gap=gap, eof=ends_with)
                judge_framing(ctx, packets, k, got, done, running, err, {'stream': si, 'eof_at': k, 'gap': gap, 'stream_ends_with': 'an operating-system error' if ends_with == 'oserror' else 'EOF'})
                ctx.case(('eof', si, k))
                ctx.event('framing-eof')
                if ends_with == 'oserror':
                    ctx.event('framing-stream-ended-by-an-os-error')
    S = vtime.run(body)
    if S.result != 'ok':
        ctx.report(f'framing-scenario-{S.result}', f'framing scenario ended with {S.error!r}', None)
    for le in S.sentinel.all():
        ctx.report('framing-background-error', f'unhandled error during framing: {le.get("repr")}', None)


def judge_framing(ctx, packets, upto, got, done, running, err, w):
    exp = expected_packets(packets, upto)
    ctx.event('framing-run')
    w = dict(w, packets=[p[:40] for p in packets])
    if w.get('stream_ends_with') == 'an operating-system error' and got == exp[:len(got)]:
        pass        # (what was buffered in front of a connection error is the event loop's to drop: a prefix of the packets is fine)
    elif got != exp:
        kind = 'partial-delivered' if len(got) > len(exp) else 'lost-or-wrong'
        ctx.report(f'framing:{kind}', f'callback received {len(got)} packets, stream contains {len(exp)} complete ones',
                   dict(w, got=[(t, b[:40]) for t, b in got]))
    if not done:
        ctx.report('framing:run-does-not-return-at-eof', 'StreamFace.run() still running after EOF', w)
    elif err is not None:
        ctx.report(f'framing:run-raised:{type(err).__name__}', f'StreamFace.run() raised {err!r}', w)
    if running:
        ctx.report('framing:still-running-after-eof', 'face.running is still True after EOF', w)


# ------------------------------------------------------------------ real sockets (thorough)
def check_real_sockets(ctx, rng):
    streams = framing_streams(rng, 30)
    tmpd = tempfile.mkdtemp(prefix='nvf-sock-')

    async def one(kind, packets, cuts):
        data = b''.join(packets)
        chunks = []
        prev = 0
        for c in cuts:
            chunks.append(data[prev:c])
            prev = c
        chunks.append(data[prev:])
        got = []

        async def serve(reader, writer):
            for ch in chunks:
                if ch:
                    writer.write(ch)
                    await writer.drain()
                await asyncio.sleep(0.0005)
            writer.close()

        if kind == 'unix':
            path = os.path.join(tmpd, 's.sock')
            if os.path.exists(path):
                os.remove(path)
            server = await asyncio.start_unix_server(serve, path)
            face = UnixFace(path)
        else:
            server = await asyncio.start_server(serve, '127.0.0.1', 0)
            port = server.sockets[0].getsockname()[1]
            face = TcpFace('127.0.0.1', port)

        async def cb(typ, buf):
            got.append((typ, bytes(buf)))
        face.callback = cb
        await face.open()
        try:
            await asyncio.wait_for(face.run(), 10)
            done = True
        except asyncio.TimeoutError:
            done = False
        await asyncio.sleep(0.01)
        server.close()
        await server.wait_closed()
        return got, done, face.running

    loop = asyncio.new_event_loop()
    try:
        for si, packets in enumerate(streams):
            data = b''.join(packets)
            if len(data) > 3000:
                continue
            for kind in ('unix', 'tcp'):
                for _ in range(3):
                    n = len(data)
                    cuts = tuple(sorted(rng.sample(range(1, n), min(n - 1, rng.randint(1, 6))))) if n > 2 else ()
                    upto = n
                    pk = packets
                    if rng.random() < 0.3 and n > 3:
                        upto = rng.randint(1, n - 1)
                        cuts = tuple(c for c in cuts if c < upto)
                        pk = packets
                        datacut = data[:upto]
                        got, done, running = loop.run_until_complete(one(kind, [datacut], cuts))
                    else:
                        got, done, running = loop.run_until_complete(one(kind, packets, cuts))
                    judge_framing(ctx, pk, upto, got, done, running, None, {'stream': si, 'socket': kind, 'cuts': cuts})
                    ctx.case(('socket', kind, si, cuts))
                    ctx.event('framing-real-socket')
    finally:
        loop.close()
        shutil.rmtree(tmpd, ignore_errors=True)


# ------------------------------------------------------------------ (b) robustness
def robustness_corpus(ctx, rng):
    out = [(k, w) for k, w in c07.corpus(ctx, rng) if k != 'name']
    sd = DigestSha256Signer()
    # packets aimed at the busy state's names
    for nm in (P1, P2, P2 + [rc.comp(8, b'x')], P1 + [rc.comp(8, b'x')], P1 + [rc.comp(8, b'x'), rc.comp(8, b'y')], H, H + [rc.comp(8, b'q')], HS, [rc.comp(8, b'p')], [rc.comp(8, b'zz')]):
        out.append(('data', bytes(make_data(nm, MetaInfo(), b'payload', sd))))
        out.append(('interest', bytes(make_interest(nm, InterestParam(nonce=5, lifetime=500)))))
        out.append(('interest', bytes(make_interest(nm, InterestParam(nonce=6), b'params', DigestSha256Signer(for_interest=True)))))
        out.append(('interest', bytes(make_interest(nm, InterestParam(nonce=7), b'params'))))
        i = bytes(make_interest(nm, InterestParam(nonce=8, can_be_prefix=True)))
        out.append(('lp', rc.make_lp(fragment=i, nack_reason=rng.choice([0, 50, 150]))))
        out.append(('lp', rc.make_lp(fragment=i, nack=True)))
        out.append(('lp', rc.make_lp(fragment=i, nack_reason=rng.choice([0, 50, 150]), pit_token=b'\x0a\x0b')))
        out.append(('lp', rc.make_lp(fragment=i, pit_token=b'\x01\x02')))
        out.append(('lp', rc.make_lp(fragment=bytes(make_data(nm, MetaInfo(), b'w', sd)), headers=[(0x340, b'\x01')])))
        out.append(('lp', rc.make_lp(fragment=bytes(make_data(nm, MetaInfo(), b'w', sd)), nack_reason=100)))
    # Nacks and Data whose name is a pending Interest's name plus a digest component of the wrong size (none of them is that name)
    for nm in (P1, P2):
        for tail in (b'\x01\x00', b'\x01\x01\x07', b'\x01\x1f' + bytes(31), b'\x02\x00', b'\x01\x21' + bytes(33)):
            iw = rc.enc_tlv(5, rc.enc_name(list(nm) + [tail]) + rc.enc_tlv(0x0a, b'\x00\x00\x00\x09'))
            out.append(('lp', rc.make_lp(fragment=iw, nack_reason=rng.choice([50, 150]))))
            out.append(('lp', rc.make_lp(fragment=iw, nack=True, pit_token=b'\x07')))
            ctx.event('nack-naming-a-pending-name-plus-an-odd-sized-digest-component')
    # well-formed packets whose names are awkward to PRINT (typed components that hold no number: 2000 / 3 / 0 octets) - whether and how the
    # application logs is no input of reception
    for nm in ([rc.comp(8, b'h'), rc.comp(50, b'\x01' * 2000)], [rc.comp(8, b'p'), rc.comp(54, b'\x01\x02\x03')], [rc.comp(8, b'h'), rc.comp(58, b'')]):
        out.append(('data', bytes(make_data(nm, MetaInfo(), b'payload', sd))))
        out.append(('interest', bytes(make_interest(nm, InterestParam(nonce=5, lifetime=500)))))
        out.append(('lp', rc.make_lp(fragment=bytes(make_interest(nm, InterestParam(nonce=8))), nack_reason=150)))
    for frag in (b'\xfd', b'\xfd\x00', b'\xfe', b'\xfe\x00\x00\x00', b'\xff', b'\xff' + bytes(7), b'\x05\xfd', b'\x06\xfe\x00', b'\xfd\x00\x05',
                 b'\x05\x03\x07', b'\x06'):
        # link-layer packets whose fragment is too short to carry a complete Type / Length number
        out.append(('lp', rc.make_lp(fragment=frag)))
        out.append(('lp', rc.make_lp(fragment=frag, pit_token=b'\x01\x02')))
        out.append(('lp', rc.make_lp(fragment=frag, nack_reason=150)))
    out += [('lp', b'\x64\x00'), ('lp', rc.make_lp(fragment=b'')), ('lp', rc.make_lp(nack_reason=50)), ('lp', rc.make_lp(pit_token=b'abcd')),
            ('lp', rc.make_lp(fragment=b'\x05')), ('lp', rc.make_lp(fragment=b'\x09\x00')),
            ('lp', rc.make_lp(fragment=bytes(make_interest(P1, InterestParam())), frag_index=0, frag_count=2)),
            ('other', rc.enc_tlv(0x09, b'abc')), ('other', rc.enc_tlv(0x320, b'')), ('other', b'\x05\x00'), ('other', b'\x06\x00'),
            ('other', rc.enc_tlv(5, rc.enc_tlv(0x21, b''))), ('other', rc.enc_tlv(6, rc.enc_tlv(0x15, b'zz')))]
    return out


def legit_target(wire):
    """What a strict reading says the bytes legitimately address: ('data', name) / ('nack', name) / None,
    or ('inner-overrun', None) when the strict reading fails only because a field of a TLV container
    overruns its parent (the open C07 finding: the library then reads a truncated value)."""
    try:
        return _legit_target(wire)
    except rc.Reject as e:
        if e.reason == 'overrun' and e.where == 'model':
            return ('inner-overrun', None)
        return None
    except (KeyError, IndexError):
        return None


def _legit_target(wire):
    if True:
        b = bytes(wire)
        t = rc.read_var(b, 0, len(b))[0]
        nack = False
        if t == 0x64:
            b0, vs0, ve0 = rc.outer(b, 0x64)
            if not c07.lp_in_order([k[0] for k in rc.children(b0, vs0, ve0)]):
                return ('ambiguous', None)    # header fields repeated / out of order: not stated which one counts
            lp = rc.strict_lp(b)
            if lp['fragmented'] or lp['fragment'] is None:
                return None
            nack = lp['nack']
            if not c07.lp_in_order(lp['types']):
                return ('ambiguous', None)    # header fields repeated / out of order: not stated which one counts
            b = lp['fragment']
            t = rc.read_var(b, 0, len(b))[0]
        if nack:
            return ('nack', rc.strict_interest(b)['name'])
        if t == 6:
            return ('data', rc.strict_data(b)['name'])
        if t == 5:
            return ('interest', rc.strict_interest(b)['name'])
    return None


def is_prefix(a, b):
    return len(a) <= len(b) and list(b[:len(a)]) == list(a)


def check_robustness(ctx, rng):
    corp = robustness_corpus(ctx, rng)
    per = 120 if ctx.quick else 1500
    deliveries = []     # (kind, label, bytes, mode)
    for kind, wire in corp:
        deliveries.append((kind, 'valid', wire, 'framed'))
        muts = list(gen.structural_mutants(rng, wire, limit=per // 2))
        muts += list(gen.byte_mutants(rng, wire, per_pos=1, max_positions=per // 3))
        tr = list(gen.truncations(wire))
        muts += tr if len(tr) <= per // 5 else rng.sample(tr, per // 5)
        for label, m in muts:
            fx = gen.fix_outer(m)
            if fx is not None:
                deliveries.append((kind, label.split('@')[0], fx, 'framed'))
            if rng.random() < 0.35:
                deliveries.append((kind, label.split('@')[0], m, 'as-is'))
    for _ in range(ctx.n(300, 400000)):
        L = rng.choice([1, 2, 3, 5, 9, 20, 60])
        t = rng.choice([5, 6, 0x64, 0x64, rng.randrange(256)])
        body = gen.rand_bytes(rng, L)
        deliveries.append(('random', 'random', rc.enc_tlv(t, body), 'framed'))
        deliveries.append(('random', 'random-fragment', rc.make_lp(fragment=gen.rand_bytes(rng, rng.choice([1, 2, 3, 4, 8])) if rng.random() < 0.5 else
                                                                  bytes([rng.choice([0xfd, 0xfe, 0xff, 5, 6])]) + gen.rand_bytes(rng, rng.choice([0, 1, 2, 3, 7])),
                                                                  pit_token=rng.choice([None, b'\x01']), nack_reason=rng.choice([None, None, 50])), 'framed'))
        deliveries.append(('random', 'random', rc.enc_var(t) + body, 'as-is'))
    rng.shuffle(deliveries)
    if not ctx.quick:
        pass
    batch = 150
    for fe in ('v2', 'v1'):
        for state in ('busy', 'empty'):
            items = deliveries if state == 'busy' else deliveries[::3]
            for b0 in range(0, len(items), batch):
                run_batch(ctx, fe, state, items[b0:b0 + batch])


BATCHES = [0]


def run_batch(ctx, fe, state, items):
    res = {'viol': []}

    async def main(S):
        face = RecFace()
        if fe == 'v2':
            the_app = appv2.NDNApp(face=face)
        else:
            the_app = appv1.NDNApp(face=face, keychain=KeychainDigest())
        main_task = asyncio.ensure_future(the_app.main_loop())
        await asyncio.sleep(0)
        handler_log = []
        pend = {}

        async def v2_validator(name, sig, c):
            return types.ValidResult.PASS

        def express(key, nm, cbp):
            if fe == 'v2':
                coro = the_app.express(nm, v2_validator, lifetime=3_600_000, can_be_prefix=cbp, nonce=1)
            else:
                coro = the_app.express_interest(nm, lifetime=3_600_000, can_be_prefix=cbp, nonce=1)
            pend[key] = asyncio.ensure_future(coro)

        if state == 'busy':
            express('P1', P1, False)
            express('P2', P2, True)
            express('P3', P3, True)        # names ONE packet by its hash (which no packet of the batch has); CanBePrefix set on top of it
            if fe == 'v2':
                the_app.attach_handler(H, lambda n, p, reply, c: handler_log.append(('H', [bytes(x) for x in n])))
                the_app.attach_handler(HS, lambda n, p, reply, c: handler_log.append(('HS', [bytes(x) for x in n])), v2_validator)
            else:
                the_app.set_interest_filter(H, lambda n, p, a: handler_log.append(('H', [bytes(x) for x in n])))
                the_app.set_interest_filter(HS, lambda n, p, a: handler_log.append(('HS', [bytes(x) for x in n])))
        await asyncio.sleep(0)
        BATCHES[0] += 1
        if state == 'busy' and BATCHES[0] % 2:
            # the wall clock is set forwards by two hours while the bystanders (both front-ends) are pending (their lifetime, one hour, is a duration:
            # the waiting coroutines run on the loop's clock and have not timed out)
            S.step_wall(7200)
            ctx.event('batch-after-a-forward-step-of-the-wall-clock')
        for (kind, label, wire, mode) in items:
            try:
                typ = rc.read_var(wire, 0, len(wire))[0]
            except (rc.Reject, KeyError):
                continue
            nerr = len(S.sentinel.all())
            nh = len(handler_log)
            w = {'frontend': fe, 'state': state, 'kind': kind, 'mutation': label, 'mode': mode,
                 'wire': wire if len(wire) < 500 else wire[:250]}
            try:
                # the transport's buffer: immutable bytes, a bytearray, or a writable view of one (same octets)
                k_ = ctx.evaluations % 3
                await the_app._receive(typ, wire if k_ == 0 else bytearray(wire) if k_ == 1 else memoryview(bytearray(wire)))
            except Exception as e:   # noqa
                site = raising_site(e)
                res['viol'].append((f'uncaught:{type(e).__name__}@{site[0]}<-{fe}', f'packet reception raised {e!r}', w))
            for _ in range(3):
                await asyncio.sleep(0)
            for le in S.sentinel.all()[nerr:]:
                ex = le.get('exception') or le.get('exc')
                site = raising_site(ex) if ex is not None else ('?', '?')
                res['viol'].append((f'background:{type(ex).__name__ if ex else "?"}@{site[0]}<-{fe}',
                                    f'a background task ended with an unhandled error after this packet: {le.get("repr")}', w))
            ctx.case(('rob', fe, state, kind, label, mode))
            ctx.event('delivered')
            if state == 'busy':
                tgt = legit_target(wire) if mode == 'framed' or True else None
                if len(handler_log) > nh and tgt is not None and tgt[0] in ('nack', 'data'):
                    # a strictly well-formed Nack / Data never addresses an Interest handler
                    res['viol'].append((f'handler-invoked-by-{tgt[0]}:{fe}', f'handler {handler_log[-1][0]} was invoked by a well-formed {tgt[0]} packet', w))
                elif len(handler_log) > nh:
                    ctx.event('handler-invoked-during-batch')
                for key, nm, cbp in (('P1', P1, False), ('P2', P2, True), ('P3', P3, True)):
                    t = pend[key]
                    if t.done():
                        legit = False
                        if tgt is not None and tgt[0] == 'data':
                            legit = (tgt[1] == nm) or (cbp and is_prefix(nm, tgt[1]))
                        if tgt is not None and tgt[0] == 'nack':
                            legit = tgt[1] == nm
                        exc = t.exception() if not t.cancelled() else 'cancelled'
                        if not legit and tgt is not None and tgt[0] == 'ambiguous':
                            ctx.event('observation:ambiguous-envelope-completed-interest')
                        elif not legit and tgt is not None and tgt[0] == 'inner-overrun':
                            res['viol'].append(('bystander-finished-by-inner-overrun-packet',
                                                f'pending Interest {key} finished ({exc!r}) by a packet in which a field overruns its parent', w))
                        elif not legit:
                            res['viol'].append((f'bystander-finished:{fe}:{type(exc).__name__ if exc else "data"}',
                                                f'pending Interest {key} finished ({exc!r}) by a packet that does not legitimately address it', w))
                        else:
                            ctx.event('pending-legitimately-completed')
                        express(key, nm, cbp)
                        await asyncio.sleep(0)
        # bystanders complete normally afterwards
        if state == 'busy':
            sd = DigestSha256Signer()
            await the_app._receive(6, bytes(make_data(P1, MetaInfo(), b'ok1', sd)))
            await the_app._receive(6, bytes(make_data(P2 + [rc.comp(8, b'more')], MetaInfo(), b'ok2', sd)))
            n0 = len(handler_log)
            await the_app._receive(5, bytes(make_interest(H + [rc.comp(8, b'final')], InterestParam(nonce=9))))
            for _ in range(4):
                await asyncio.sleep(0)
            if pend['P3'].done():
                res['viol'].append((f'bystander-finished:{fe}:by-final-data', 'the pending Interest that names a packet by a hash nobody sent was finished by the closing Data',
                                    {'frontend': fe}))
            else:
                ctx.event('bystander-by-hash-still-pending')
                pend['P3'].cancel()
            for key in ('P1', 'P2'):
                t = pend[key]
                if not t.done() or t.cancelled() or t.exception() is not None:
                    res['viol'].append((f'bystander-starved:{fe}:{key}', f'pending Interest {key} did not complete with its Data after the batch: '
                                        f'{t!r}', {'frontend': fe, 'batch_first': items[0][2][:60]}))
                else:
                    ctx.event('bystander-pending-ok')
            if len(handler_log) != n0 + 1 or handler_log[-1][0] != 'H':
                res['viol'].append((f'bystander-handler:{fe}', 'attached handler did not receive a plain Interest after the batch',
                                    {'frontend': fe}))
            else:
                ctx.event('bystander-handler-ok')
        the_app.shutdown()
        await asyncio.wait_for(main_task, 5)

    S = vtime.run(main)
    for mech, what, w in res['viol']:
        ctx.report(mech, what, w)
    if S.result != 'ok':
        ctx.report(f'robustness-scenario-{S.result}:{fe}', f'batch did not complete: {S.error!r}', {'frontend': fe, 'state': state})


def check_finished_window(ctx, rng):
    """A Nack / Data for an Interest that has *just* finished (caller cancelled it, or its lifetime timer fired) in the very
    same loop step - before the waiting coroutine has run its cleanup - is a packet nobody is waiting for."""
    for fe in ('v2', 'v1'):
        for how in ('cancel', 'timeout'):
            for pkt in ('nack', 'data'):
                res = {}

                async def main(S):
                    face = RecFace()
                    the_app = appv2.NDNApp(face=face) if fe == 'v2' else appv1.NDNApp(face=face, keychain=KeychainDigest())
                    main_task = asyncio.ensure_future(the_app.main_loop())
                    await asyncio.sleep(0)
                    name = [rc.comp(8, b'w'), rc.comp(8, how.encode()), rc.comp(8, pkt.encode())]

                    async def v2v(n, s_, c):
                        return types.ValidResult.PASS

                    def ex(lifetime):
                        n0 = len(face.sent)
                        if fe == 'v2':
                            coro = the_app.express(name, v2v, lifetime=lifetime, nonce=len(face.sent) + 1)
                        else:
                            coro = the_app.express_interest(name, lifetime=lifetime, nonce=len(face.sent) + 1)
                        return asyncio.ensure_future(coro), face.sent[n0][1]
                    t1, iw = ex(100)
                    t2, _ = ex(5000)
                    await asyncio.sleep(0.02)
                    wire = rc.make_lp(fragment=iw, nack_reason=150) if pkt == 'nack' else bytes(make_data(name, MetaInfo(), b'x', DigestSha256Signer()))
                    if how == 'cancel':
                        t1.cancel()                      # no await between the cancellation and the delivery
                    else:
                        # arrange for the delivery to run in the loop step in which the lifetime timer fires
                        await S.sleep_until_ms(100 - 1)
                        loop = asyncio.get_running_loop()
                        done = loop.create_future()

                        def deliver_now():
                            async def go():
                                try:
                                    await face.deliver(wire)
                                    done.set_result(None)
                                except Exception as e:   # noqa
                                    done.set_result(e)
                            asyncio.ensure_future(go())
                        loop.call_at(0.1, deliver_now)
                        res['raised'] = await done
                    if how == 'cancel':
                        try:
                            await face.deliver(wire)
                            res['raised'] = None
                        except Exception as e:   # noqa
                            res['raised'] = e
                    await asyncio.sleep(0.05)
                    if t1.done() and not t1.cancelled():
                        t1.exception()
                    res['t2_done'] = t2.done()
                    res['t2_exc'] = (t2.exception() if t2.done() and not t2.cancelled() else None)
                    if not t2.done():
                        t2.cancel()
                    the_app.shutdown()
                    await asyncio.wait_for(main_task, 5)
                S = vtime.run(main)
                w = {'frontend': fe, 'finished_by': how, 'packet': pkt}
                ctx.case(('window', fe, how, pkt))
                ctx.event('finished-window')
                if S.result != 'ok':
                    ctx.report(f'window-scenario-{S.result}:{fe}', f'{S.error!r}', w)
                    continue
                e = res.get('raised')
                if e is not None:
                    ctx.report(f'uncaught:{type(e).__name__}@{raising_site(e)[0]}<-{fe}:just-finished-interest',
                               f'packet reception raised {e!r} for a {pkt} whose Interest had just been finished by {how}', w)
                for le in S.sentinel.all():
                    ex_ = le.get('exception')
                    ctx.report(f'background:{type(ex_).__name__ if ex_ else "?"}<-{fe}:just-finished-interest', f'{le.get("repr")}', w)
                # the other Interest on the same name is legitimately addressed: it must get the Nack / the Data
                if not res.get('t2_done'):
                    ctx.report(f'bystander-starved:{fe}:same-name-sibling', f'the other pending Interest on that name did not receive the {pkt}', w)
                elif pkt == 'nack' and not isinstance(res.get('t2_exc'), types.InterestNack):
                    ctx.report(f'bystander-starved:{fe}:same-name-sibling', f'the other pending Interest ended with {res.get("t2_exc")!r} instead of the Nack', w)


# ------------------------------------------------------------------ (c) UDP
def check_udp(ctx, rng):
    errors = []
    got = []

    async def main():
        loop = asyncio.get_running_loop()
        loop.set_exception_handler(lambda l, c: errors.append(c))
        peer = socket.socket(socket.AF_INET, socket.SOCK_DGRAM)
        peer.bind(('127.0.0.1', 0))
        peer.setblocking(False)
        face = UdpFace('127.0.0.1', peer.getsockname()[1])

        async def cb(typ, buf):
            got.append((typ, bytes(buf)))
        face.callback = cb
        await face.open()
        local = face.transport.get_extra_info('sockname')
        valid = bytes(make_data(P1, MetaInfo(), b'udp', DigestSha256Signer()))
        grams = [b'', b'\xfd', b'\xfd\x00', b'\xfe\x00\x00', b'\xff' + b'\x00' * 3, b'\x05', b'\x06\x00', b'\x64\x00', valid[:5], valid]
        for _ in range(ctx.n(20, 200)):
            grams.append(gen.rand_bytes(rng, rng.choice([1, 2, 3, 9, 30])))
        n_ok = 0
        for g in grams:
            nerr = len(errors)
            peer.sendto(g, local)
            await asyncio.sleep(0.003)
            ctx.event('udp-datagram')
            ctx.case(('udp', g[:6]))
            if len(errors) > nerr:
                ex = errors[-1].get('exception')
                ctx.report(f'udp-datagram-received-raises:{type(ex).__name__ if ex else "?"}',
                           f'UdpFace datagram handler raised into the transport: {ex!r}', {'datagram': g})
        k = len(got)
        peer.sendto(valid, local)
        await asyncio.sleep(0.02)
        if len(got) != k + 1 or got[-1] != (6, valid):
            ctx.report('udp-face-dead-after-bad-datagrams', 'a valid datagram is no longer delivered after the malformed ones', None)
        if face.close.done() or face.transport.is_closing():
            ctx.report('udp-transport-closed', 'transport closed by malformed datagrams', None)
        # the operating system reports two errors for the socket (two ICMP "port unreachable" in a row): the protocol callback returns
        proto = getattr(face.transport, '_protocol', None) or getattr(face.transport, 'get_protocol', lambda: None)()
        if proto is not None and hasattr(proto, 'error_received'):
            for k_ in range(2):
                try:
                    proto.error_received(ConnectionRefusedError(111, 'Connection refused'))
                    ctx.event('udp-error-reported-by-the-socket')
                except Exception as e:   # noqa
                    ctx.report(f'udp-error-received-raises:{type(e).__name__}', f'the {k_ + 1}. error reported for the socket made the protocol callback raise {e!r}', None)
        face.shutdown()
        peer.close()
        await asyncio.sleep(0.01)

    loop = asyncio.new_event_loop()
    try:
        loop.run_until_complete(asyncio.wait_for(main(), 60))
    except Exception as e:   # noqa
        ctx.report(f'udp-scenario-raised:{type(e).__name__}', f'UDP sub-check raised {e!r}', None)
    finally:
        loop.close()


def check_handler_table_states(ctx, rng):
    """Reachable states of the handler table that only callbacks produce: a handler (or an Interest validator) that detaches its own
    prefix / another prefix / attaches a new one from inside its invocation, while further VALID Interests - already received in the
    same turn of the loop, or waiting for their validator - are on their way to a handler.  Judged here: reception returns normally
    and no background task ends with an unhandled error (who receives those Interests is C04's business)."""
    for fe in ('v2', 'v1'):
        for rep in range(ctx.n(40, 3000)):
            res = {'viol': []}
            plan = [rng.choice(['detach-self', 'detach-other', 'attach-new', 'detach-self', 'reattach-self']) for _ in range(3)]
            n_int = rng.randint(2, 5)
            signed = rng.random() < 0.5
            outside_detach = rng.random() < 0.4

            async def main(S):
                face = RecFace()
                the_app = appv2.NDNApp(face=face) if fe == 'v2' else appv1.NDNApp(face=face, keychain=KeychainDigest())
                main_task = asyncio.ensure_future(the_app.main_loop())
                await asyncio.sleep(0)
                calls = []
                A, B, N = [rc.comp(8, b'svc')], [rc.comp(8, b'svc'), rc.comp(8, b'deep')], [rc.comp(8, b'fresh')]

                async def val2(name, sig, c):
                    await asyncio.sleep(0.001)
                    return types.ValidResult.PASS

                async def val1(name, sig):
                    await asyncio.sleep(0.001)
                    return True

                def attach(pre, fn):
                    if fe == 'v2':
                        the_app.attach_handler(pre, fn, val2)
                    else:
                        the_app.set_interest_filter(pre, fn, val1)

                def detach(pre):
                    try:
                        if fe == 'v2':
                            the_app.detach_handler(pre)
                        else:
                            the_app.unset_interest_filter(pre)
                    except KeyError:
                        pass        # (not attached any more: detaching what is not attached is outside the statement)

                def act(own):
                    if not plan:
                        return
                    op = plan.pop(0)
                    ctx.event('table-edited-inside-a-callback:' + op)
                    if op == 'detach-self':
                        detach(own)
                    elif op == 'detach-other':
                        detach(B if own == A else A)
                    elif op == 'attach-new':
                        try:
                            attach(N, make(N))
                        except ValueError:
                            pass
                    else:
                        detach(own)
                        attach(own, make(own))

                def make(own):
                    if fe == 'v2':
                        def h(name, app_param, reply, context):
                            calls.append(own)
                            act(own)
                            reply(bytes(make_data(name, MetaInfo(), b'ok', DigestSha256Signer())))
                    else:
                        def h(name, param, app_param):
                            calls.append(own)
                            act(own)
                            the_app.put_data(name, b'ok', signer=DigestSha256Signer())
                    return h
                attach(A, make(A))
                attach(B, make(B))
                tasks = []
                for j in range(n_int):
                    nm = (A if j % 2 == 0 else B) + [rc.comp(8, b'%d' % j)]
                    if signed:
                        wire = bytes(make_interest(nm, InterestParam(nonce=j + 1, lifetime=4000), b'prm', DigestSha256Signer(for_interest=True)))
                    else:
                        wire = bytes(make_interest(nm, InterestParam(nonce=j + 1, lifetime=4000)))
                    tasks.append(face.deliver_task(wire))         # all within one turn of the loop (one read from the stream)
                if outside_detach:
                    await asyncio.sleep(0.0005)                   # the validators are waiting: the application detaches meanwhile
                    detach(A)
                    ctx.event('detach-while-a-validator-is-waiting')
                for t in tasks:
                    try:
                        await t
                    except Exception as e:   # noqa
                        res['viol'].append((f'uncaught:{type(e).__name__}@{raising_site(e)[0]}<-{fe}', f'packet reception raised {e!r} (handlers edit the table from inside)', None))
                await asyncio.sleep(0.05)
                res['calls'] = len(calls)
                the_app.shutdown()
                await asyncio.wait_for(main_task, 5)

            S = vtime.run(main)
            w = {'frontend': fe, 'signed_interests': signed, 'interests_in_one_turn': n_int, 'detach_from_outside_during_validation': outside_detach}
            ctx.case(('handler-table-states', fe, signed, n_int, outside_detach, rep % 7), nontrivial=True)
            ctx.event('burst-to-table-editing-handlers')
            for m, what, _ in res['viol']:
                ctx.report(m, what, w)
            if S.result != 'ok':
                ctx.report(f'handler-table-scenario-{S.result}:{fe}', f'{S.error!r}', w)
            for le in S.sentinel.all():
                ex = le.get('exception') or le.get('exc')
                site = raising_site(ex) if ex is not None else ('?', '?')
                ctx.report(f'background:{type(ex).__name__ if ex else "?"}@{site[0]}<-{fe}:handlers-edit-the-table',
                           f'valid Interests to handlers that edit the handler table from inside: a background task ended with an unhandled error: {le.get("repr")}', w)


def check_slow_interest_validators(ctx, rng):
    """A signed Interest whose validator is still busy when the InterestLifetime runs out (lifetime 100 ms, validator 300 ms): whatever
    becomes of the Interest, no background task ends with an unhandled error; later Interests are handled normally."""
    for fe in ('v2', 'v1'):
        for L_, lat_ in ((100, 300), (10, 11), (100, 100), (50, 5000), (1, 2)):
            res = {}

            async def main(S):
                face = RecFace()
                the_app = appv2.NDNApp(face=face) if fe == 'v2' else appv1.NDNApp(face=face, keychain=KeychainDigest())
                main_task = asyncio.ensure_future(the_app.main_loop())
                await asyncio.sleep(0)
                calls = []

                async def v2(name, sig, c):
                    await asyncio.sleep(lat_ / 1000.0)
                    return types.ValidResult.PASS

                async def v1(name, sig):
                    await asyncio.sleep(lat_ / 1000.0)
                    return True
                if fe == 'v2':
                    the_app.attach_handler(HS, lambda n, p, reply, c: calls.extend(bytes(x) for x in n), v2)
                else:
                    the_app.set_interest_filter(HS, lambda n, p, a: calls.extend(bytes(x) for x in n), v1)
                for j in range(3):
                    await face.deliver(bytes(make_interest(HS + [rc.comp(8, b'%d' % j)], InterestParam(nonce=j + 1, lifetime=L_), b'prm', DigestSha256Signer(for_interest=True))))
                    await asyncio.sleep(0.004)
                await asyncio.sleep(lat_ / 1000.0 + 0.2)
                await face.deliver(bytes(make_interest(HS + [rc.comp(8, b'after')], InterestParam(nonce=9, lifetime=60000), b'prm', DigestSha256Signer(for_interest=True))))
                await asyncio.sleep(lat_ / 1000.0 + 0.05)
                res['calls'] = list(calls)
                the_app.shutdown()
                await asyncio.wait_for(main_task, 5)
            S = vtime.run(main)
            w = {'frontend': fe, 'interest_lifetime_ms': L_, 'validator_needs_ms': lat_}
            ctx.case(('slow-interest-validator', fe, L_, lat_), nontrivial=True)
            ctx.event('signed-interest-whose-validator-outlives-its-lifetime')
            if S.result != 'ok':
                ctx.report(f'slow-validator-scenario-{S.result}:{fe}', f'{S.error!r}', w)
                continue
            for le in S.sentinel.all():
                ex = le.get('exception') or le.get('exc')
                site = raising_site(ex) if ex is not None else ('?', '?')
                ctx.report(f'background:{type(ex).__name__ if ex else "?"}@{site[0]}<-{fe}:validator-outlives-the-lifetime',
                           f'a signed Interest whose validator needs longer than the InterestLifetime: a background task ended with an unhandled error: {le.get("repr")}', w)
            if rc.comp(8, b'after') not in res.get('calls', []):
                ctx.report(f'bystander-handler:{fe}:after-slow-validations', 'a later signed Interest (ample lifetime) did not reach its handler', w)


def run(ctx):
    ctx.rule = RULE
    rng = ctx.rng
    check_framing(ctx, rng)
    check_robustness(ctx, rng)
    check_handler_table_states(ctx, rng)
    if ctx.shard == 0:
        check_slow_interest_validators(ctx, rng)
    else:
        ctx.event('signed-interest-whose-validator-outlives-its-lifetime', 0)
    if ctx.shard == 0:
        check_finished_window(ctx, rng)
    if ctx.shard == 0:
        check_udp(ctx, rng)
    if not ctx.quick and ctx.shard in (1 % ctx.nshards, 2 % ctx.nshards):
        check_real_sockets(ctx, rng)
    for k in ('framing-run', 'framing-eof', 'delivered', 'bystander-pending-ok', 'bystander-handler-ok'):
        ctx.need_event(k)
    ctx.need_event('udp-datagram')
    ctx.need_event('framing-gap-burst')
    ctx.need_event('framing-second-connection-on-one-face')
    ctx.need_event('framing-gap-eof-with-last')
    ctx.need_event('finished-window')
    ctx.need_event('framing-stream-ended-by-an-os-error')
    ctx.need_event('udp-error-reported-by-the-socket')
    ctx.need_event('bystander-by-hash-still-pending')
    ctx.need_event('batch-after-a-forward-step-of-the-wall-clock')
    ctx.need_event('signed-interest-whose-validator-outlives-its-lifetime')
    ctx.need_event('burst-to-table-editing-handlers')
    ctx.need_event('table-edited-inside-a-callback:detach-self')
    ctx.need_event('detach-while-a-validator-is-waiting')
    ctx.need_event('nack-naming-a-pending-name-plus-an-odd-sized-digest-component')
    ctx.assumptions = ['handler exceptions and validator exceptions of user code are outside the statement (harness handlers never raise)',
                       '"legitimately addressed" = the bytes strictly decode (refcodec) to a Data/Nack matching the pending Interest']
