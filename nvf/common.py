"""Verdict / evidence / known-findings plumbing shared by every check.

A check module exposes ``run(ctx)``.  It calls

* ``ctx.case(signature, sample=None, nontrivial=True)`` for every execution it observed,
* ``ctx.event(kind, n=1)`` for monitor-side event counts,
* ``ctx.report(mechanism, what, witness)`` for every refuting observation.  The
  *mechanism* is a structural key computed by the check's classifier (never a hash or a
  random value); if an ``open`` entry of known_findings.json carries the same property and
  mechanism the report becomes a KNOWN-FINDING line, otherwise it is a violation,
* ``ctx.inconclusive(reason)`` when the deciding monitor was not reached.

Three-valued outcome: exit 0 held / exit 1 VIOLATION / exit 2 INCONCLUSIVE.
"""
import collections
import hashlib
import json
import os
import random
import sys
import time
import traceback

ROOT = os.path.dirname(os.path.dirname(os.path.abspath(__file__)))
EVIDENCE_DIR = os.environ.get('NVF_EVIDENCE_DIR') or os.path.join(ROOT, 'evidence')   # redirected when a check is pointed at a scratch tree
REPLAY_DIR = os.path.join(EVIDENCE_DIR, 'replays')
KNOWN_FILE = os.path.join(ROOT, 'known_findings.json')

MAX_SAMPLES = 6
MAX_WITNESSES = 12


def jsonable(x, depth=0):
    """Best-effort conversion of arbitrary harness values into JSON."""
    if depth > 12:
        return repr(x)
    if x is None or isinstance(x, (bool, int, float, str)):
        return x
    if isinstance(x, (bytes, bytearray, memoryview)):
        b = bytes(x)
        if len(b) > 4096:
            return {'hex_prefix': b[:256].hex(), 'len': len(b),
                    'sha256': hashlib.sha256(b).hexdigest()}
        return {'hex': b.hex()}
    if isinstance(x, dict):
        return {str(k) if not isinstance(k, (bytes, bytearray, memoryview)) else bytes(k).hex():
                jsonable(v, depth + 1) for k, v in x.items()}
    if isinstance(x, (list, tuple, set, frozenset)):
        return [jsonable(v, depth + 1) for v in x]
    if isinstance(x, BaseException):
        return {'exc': type(x).__name__, 'msg': str(x)[:300]}
    return repr(x)[:400]


def load_known():
    try:
        with open(KNOWN_FILE) as f:
            data = json.load(f)
    except FileNotFoundError:
        return []
    return data.get('findings', [])


class Ctx:
    def __init__(self, prop, tier, seed, shard=0, nshards=1, level='exploration'):
        self.prop = prop
        self.tier = tier
        self.seed = seed
        self.shard = shard
        self.nshards = nshards
        self.level = level
        self.rng = random.Random((seed * 1000003 + shard * 7919) & 0xFFFFFFFF)
        self.t0 = time.time()
        self.evaluations = 0
        self.signatures = set()
        self.samples = []
        self.events = collections.Counter()
        self.reach = collections.Counter()
        self.classes = collections.Counter()
        self.violations = []       # list of dict(mechanism, what, witness)
        self.known_hits = collections.OrderedDict()   # mechanism -> dict(what, count)
        self.inconclusive_reasons = []
        self.requirements = []     # (kind, name, minimum): evaluated on the merged counters in finish()
        self.extra = {}
        self.rule = ''
        self.assumptions = []
        self.exhaustive = None
        self._known = [k for k in load_known()
                       if k.get('property') == prop and k.get('status') == 'open']
        self._known_keys = {k['mechanism'] for k in self._known}

    # ---- scale helpers -------------------------------------------------
    @property
    def quick(self):
        return self.tier == 'quick'

    def n(self, quick, thorough):
        """Number of cases for this shard."""
        if self.quick:
            return quick
        return max(1, thorough // self.nshards)

    # ---- recording -----------------------------------------------------
    def case(self, signature=None, sample=None, nontrivial=True, count=1):
        self.evaluations += count
        if nontrivial and signature is not None:
            if not isinstance(signature, (str, bytes)):
                signature = repr(signature)
            if isinstance(signature, str):
                signature = signature.encode()
            self.signatures.add(hashlib.blake2b(signature, digest_size=8).hexdigest())
        if sample is not None and len(self.samples) < MAX_SAMPLES:
            self.samples.append(jsonable(sample))

    def event(self, kind, n=1):
        self.events[kind] += n

    def klass(self, name, n=1):
        self.classes[name] += n

    def report(self, mechanism, what, witness=None):
        if mechanism in self._known_keys:
            ent = self.known_hits.setdefault(mechanism, {'what': what, 'count': 0,
                                                         'witness': jsonable(witness)})
            ent['count'] += 1
            return False
        if len(self.violations) < MAX_WITNESSES:
            self.violations.append({'mechanism': mechanism, 'what': what,
                                    'witness': jsonable(witness)})
        else:
            self.violations.append({'mechanism': mechanism, 'what': what})
        return True

    def inconclusive(self, reason):
        self.inconclusive_reasons.append(reason)

    def require_reach(self, name, minimum=1):
        self._need('reach', name, minimum)

    def need_event(self, name, minimum=1):
        self._need('event', name, minimum)

    def need_class(self, name, minimum=1):
        self._need('class', name, minimum)

    def need_class_prefix(self, prefix, minimum=1):
        """at least `minimum` distinct boundary classes whose name starts with prefix"""
        self._need('class-prefix', prefix, minimum)

    def _need(self, kind, name, minimum):
        req = [kind, name, minimum]
        if req not in self.requirements:
            self.requirements.append(req)

    def _check_requirements(self):
        for kind, name, minimum in self.requirements:
            if kind == 'event':
                have = self.events.get(name, 0)
            elif kind == 'reach':
                have = self.reach.get(name, 0)
            elif kind == 'class':
                have = self.classes.get(name, 0)
            else:
                have = sum(1 for k in self.classes if k.startswith(name))
            if have < minimum:
                self.inconclusive(f'{kind} "{name}" observed {have} < {minimum}: the deciding monitor was not reached')

    # ---- (de)serialisation for shards ---------------------------------------
    def dump(self):
        return {
            'evaluations': self.evaluations, 'signatures': sorted(self.signatures),
            'samples': self.samples, 'events': dict(self.events), 'reach': dict(self.reach),
            'classes': dict(self.classes), 'violations': self.violations,
            'known_hits': self.known_hits, 'inconclusive': self.inconclusive_reasons,
            'requirements': self.requirements, 'extra': jsonable(self.extra), 'rule': self.rule, 'assumptions': self.assumptions,
            'exhaustive': self.exhaustive,
        }

    def merge(self, d):
        self.evaluations += d['evaluations']
        self.signatures.update(d['signatures'])
        for s in d['samples']:
            if len(self.samples) < MAX_SAMPLES:
                self.samples.append(s)
        self.events.update(d['events'])
        self.reach.update(d['reach'])
        self.classes.update(d['classes'])
        self.violations.extend(d['violations'])
        for k, v in d['known_hits'].items():
            ent = self.known_hits.setdefault(k, {'what': v['what'], 'count': 0,
                                                 'witness': v.get('witness')})
            ent['count'] += v['count']
        self.inconclusive_reasons.extend(d['inconclusive'])
        for r in d.get('requirements', []):
            if r not in self.requirements:
                self.requirements.append(r)
        for k, v in (d.get('extra') or {}).items():
            if isinstance(v, (int, float)) and isinstance(self.extra.get(k, 0), (int, float)):
                self.extra[k] = self.extra.get(k, 0) + v
            elif isinstance(v, dict) and isinstance(self.extra.get(k, {}), dict):
                cur = self.extra.setdefault(k, {})
                for kk, vv in v.items():
                    if isinstance(vv, (int, float)) and isinstance(cur.get(kk, 0), (int, float)):
                        cur[kk] = cur.get(kk, 0) + vv
                    else:
                        cur.setdefault(kk, vv)
            else:
                self.extra.setdefault(k, v)
        self.rule = self.rule or d['rule']
        for a in d['assumptions']:
            if a not in self.assumptions:
                self.assumptions.append(a)
        if d.get('exhaustive') is not None:
            self.exhaustive = d['exhaustive'] if self.exhaustive is None \
                else (self.exhaustive and d['exhaustive'])

    # ---- finish ----------------------------------------------------------
    def finish(self):
        """Write evidence + replay, print the verdict lines, return the exit code."""
        os.makedirs(REPLAY_DIR, exist_ok=True)
        wall = time.time() - self.t0
        self._check_requirements()
        if self.evaluations == 0:
            self.inconclusive('no case was evaluated')
        if len(self.signatures) < 2:
            self.inconclusive(f'only {len(self.signatures)} distinct non-trivial cases observed')
        coverage = {
            'evaluations': int(self.evaluations),
            'distinct_nontrivial': len(self.signatures),
            'rule': self.rule or 'see DESIGN.md',
            'samples': self.samples or ['<none>'],
            'events': dict(self.events),
            'reach': dict(self.reach),
            'boundary_classes': dict(self.classes),
            'known_findings_hit': {k: v['count'] for k, v in self.known_hits.items()},
            'inconclusive': self.inconclusive_reasons,
        }
        if self.exhaustive is not None:
            coverage['exhaustive'] = bool(self.exhaustive)
        coverage.update(jsonable(self.extra))
        try:
            from . import vtime
            if vtime.SCENARIOS['total']:
                coverage['virtual_loop_scenarios'] = dict(vtime.SCENARIOS)
        except Exception:   # noqa
            pass
        ev = {
            'property_id': self.prop, 'tier': self.tier, 'seed': int(self.seed),
            'level': self.level, 'coverage': coverage,
            'assumptions': self.assumptions, 'wall_s': round(wall, 3),
            'violations': len(self.violations),
        }
        os.makedirs(EVIDENCE_DIR, exist_ok=True)
        path = os.path.join(EVIDENCE_DIR, f'{self.prop}.json')
        tmp = path + '.tmp'
        with open(tmp, 'w') as f:
            json.dump(ev, f, indent=1, sort_keys=True)
        os.replace(tmp, path)

        for mech, v in self.known_hits.items():
            print(f'KNOWN-FINDING: property={self.prop} {mech} {v["what"]} (seen {v["count"]}x)')
        code = 0
        if self.violations:
            rp = os.path.join(REPLAY_DIR, f'{self.prop}-{self.tier}-{self.seed}.json')
            with open(rp, 'w') as f:
                json.dump({'property': self.prop, 'tier': self.tier, 'seed': self.seed,
                           'violations': self.violations[:MAX_WITNESSES],
                           'total': len(self.violations)}, f, indent=1)
            mechs = collections.Counter(v['mechanism'] for v in self.violations)
            for m, c in mechs.most_common(10):
                first = next(v for v in self.violations if v['mechanism'] == m)
                print(f'  violated: {m} x{c}: {first["what"]}')
            print(f'VIOLATION property={self.prop} replay={os.path.relpath(rp, ROOT)}')
            code = 1
        elif self.inconclusive_reasons:
            print(f'INCONCLUSIVE property={self.prop} reason={"; ".join(self.inconclusive_reasons[:5])}')
            code = 2
        print(f'[{self.prop}/{self.tier}] seed={self.seed} evaluations={self.evaluations} '
              f'distinct={len(self.signatures)} known={sum(v["count"] for v in self.known_hits.values())} '
              f'violations={len(self.violations)} wall={wall:.1f}s -> '
              f'{"VIOLATED" if code == 1 else "INCONCLUSIVE" if code == 2 else "held on what was observed"}')
        return code


def short_tb(exc, limit=6):
    """Frames (function@file) of an exception, innermost last; used by classifiers."""
    frames = traceback.extract_tb(exc.__traceback__)
    return [f'{fr.name}@{os.path.basename(fr.filename)}' for fr in frames][-limit:]


def raising_site(exc, under=None):
    """(innermost repo function, outermost repo function) of an exception's traceback."""
    if under is None:
        under = os.environ.get('NVF_REPO_SRC', '/repo/src')
    frames = [fr for fr in traceback.extract_tb(exc.__traceback__) if under in fr.filename]
    if not frames:
        return ('?', '?')
    return (frames[-1].name, frames[0].name)


_LOG_STATE = {'on': False, 'saved': None}


def set_debug_logging(on):
    """The application's log level is no input of any property: switch the library's loggers to DEBUG (into a NullHandler) or back."""
    import logging
    lib = logging.getLogger('ndn')
    if on and not _LOG_STATE['on']:
        _LOG_STATE['saved'] = (lib.level, lib.propagate, logging.root.manager.disable)
        if not any(isinstance(h, logging.NullHandler) for h in lib.handlers):
            lib.addHandler(logging.NullHandler())
        lib.propagate = False
        lib.setLevel(logging.DEBUG)
        logging.disable(logging.NOTSET)
        _LOG_STATE['on'] = True
    elif not on and _LOG_STATE['on']:
        lvl, prop, dis = _LOG_STATE['saved']
        lib.setLevel(lvl)
        lib.propagate = prop
        logging.disable(dis)
        _LOG_STATE['on'] = False


class OddStr(str):
    """A str subclass whose str() differs from its characters (what `class Topic(str, Enum)` members are on Python 3.11+): as a name
    or component it is the characters it consists of."""
    def __str__(self):
        return 'OddStr<' + str.__str__(self)[::-1] + '>'

    __repr__ = __str__
