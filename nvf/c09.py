"""C09 - Name representations (URI, component list, wire) are mutually consistent.

Oracle: refcodec's own URI escaper / canonical-order comparator / wire encoder.
"""
from . import gen, refcodec as rc
from .common import raising_site, set_debug_logging, OddStr

from ndn.encoding import Name, Component

RULE = ('names of 0..8 components from a boundary-biased generator (types 1,2,3,8,9,32,50..58,252..256,1000,65535; '
        'values empty/one byte/reserved URI chars/dots/digests/typed numbers at width boundaries); conversion histories (results '
        'handed out earlier are edited in place, then the conversion is repeated); a case is '
        'distinct by its encoded name; non-trivial = at least one component')

ALT_TYPES = (0x32, 0x34, 0x36, 0x38, 0x3A)


def canonical_number(c):
    t, v = rc.comp_parts(c)
    if t not in ALT_TYPES:
        return True
    if len(v) not in (1, 2, 4, 8):
        return False
    return rc.enc_nni(int.from_bytes(v, 'big')) == v


def as_list(n):
    return [bytes(c) for c in n]


def check_name(ctx, comps):
    enc = rc.enc_name(comps)
    w = {'name': [c.hex() for c in comps]}

    def bad(mech, what, **kw):
        d = dict(w)
        d.update(kw)
        ctx.report(mech, what, d)

    # --- wire
    try:
        got = Name.to_bytes(comps)
        if bytes(got) != enc:
            bad('wire-encode-differs', 'Name.to_bytes != reference encoding', got=bytes(got).hex())
        back = as_list(Name.from_bytes(enc))
        if back != comps:
            bad('wire-roundtrip', 'from_bytes(to_bytes(n)) != n', got=[c.hex() for c in back])
        buf = bytearray(len(enc) + 5)
        Name.encode(comps, buf, 3)
        if bytes(buf[3:3 + len(enc)]) != enc or Name.encoded_length(comps) != len(enc):
            bad('wire-encode-offset', 'Name.encode at offset / encoded_length disagree with reference')
        dec, used = Name.decode(b'\xaa\xbb' + enc + b'\xcc', 2)
        if as_list(dec) != comps or used != len(enc):
            bad('wire-decode-offset', 'Name.decode at offset disagrees')
        ctx.event('wire')
    except Exception as e:   # noqa
        bad(f'wire-raises:{type(e).__name__}@{raising_site(e)[0]}', f'wire conversion raised {e!r}')

    # --- canonical URI (demanded for every name)
    try:
        cu = Name.to_canonical_uri(comps)
        exp = rc.name_to_uri(comps, canonical=True)
        if cu != exp:
            bad('canonical-uri-differs', 'to_canonical_uri != reference', got=cu, expected=exp)
        back = as_list(Name.from_str(cu))
        if back != comps:
            bad('canonical-uri-roundtrip', 'from_str(to_canonical_uri(n)) != n', uri=cu,
                got=[c.hex() for c in back])
        ctx.event('canonical-uri')
    except Exception as e:   # noqa
        bad(f'canonical-uri-raises:{type(e).__name__}@{raising_site(e)[0]}', f'canonical URI conversion raised {e!r}')

    # --- URI with shorthands (demanded when the typed numbers are canonically encoded)
    if all(canonical_number(c) for c in comps):
        try:
            u = Name.to_str(comps)
            exp = rc.name_to_uri(comps)
            if u != exp:
                bad('uri-differs', 'to_str != reference', got=u, expected=exp)
            back = as_list(Name.from_str(u))
            if back != comps:
                bad('uri-roundtrip', 'from_str(to_str(n)) != n', uri=u, got=[c.hex() for c in back])
            # the reference's own reading of the library's URI
            if u.strip('/') or comps:
                pass
            ctx.event('uri')
        except Exception as e:   # noqa
            bad(f'uri-raises:{type(e).__name__}@{raising_site(e)[0]}', f'URI conversion raised {e!r}')
    elif all(canonical_number(c) or len(rc.comp_parts(c)[1]) not in (1, 2, 4, 8) for c in comps):
        # typed components whose value is no NonNegativeInteger at all (3, 5, 0, 9, 2000 octets): there is no number to print -
        # whatever text to_str chooses, it is produced without failing and denotes this name
        try:
            u = Name.to_str(comps)
            back = as_list(Name.from_str(u))
            ctx.event('uri-of-typed-component-that-is-no-number')
            if back != comps:
                bad('uri-roundtrip:typed-component-that-is-no-number', 'from_str(to_str(n)) != n for a typed component whose value has no NonNegativeInteger width', uri=u[:200], got=[c.hex()[:80] for c in back])
        except Exception as e:   # noqa
            bad(f'uri-raises:{type(e).__name__}@{raising_site(e)[0]}:typed-component-that-is-no-number', f'URI conversion raised {e!r}'[:300])
    else:
        ctx.event('uri-skipped-noncanonical-number')

    # --- every accepted input form normalises to the same components
    rng = ctx.rng
    forms = {
        'list-bytes': list(comps),
        'list-bytearray': [bytearray(c) for c in comps],
        'list-memoryview': [memoryview(c) for c in comps],
        'tuple': tuple(comps),
        'iterator': (c for c in comps),
        'encoded-bytes': enc,
        'encoded-bytearray': bytearray(enc),
        'encoded-memoryview': memoryview(enc),
        'canonical-uri': rc.name_to_uri(comps, canonical=True),
        'canonical-uri-noslash': rc.name_to_uri(comps, canonical=True)[1:] if comps and comps[0] != b'\x08\x00' else None,
        'mixed': [rc.comp_to_canonical_uri(c) if rng.random() < 0.5 else (bytearray(c) if rng.random() < 0.5 else c)
                  for c in comps],
        'list-str': [rc.comp_to_canonical_uri(c) for c in comps],
        # text given as instances of a str SUBCLASS whose str() is another text than its characters
        'list-str-subclass': [OddStr(rc.comp_to_canonical_uri(c)) for c in comps],
        'uri-str-subclass': OddStr(rc.name_to_uri(comps, canonical=True)),
    }
    if comps and all(canonical_number(c) for c in comps):
        forms['uri'] = rc.name_to_uri(comps)
    for label, form in forms.items():
        if form is None:
            continue
        if label in ('list-str', 'mixed') and any(isinstance(x, str) and x == '' for x in form):
            # a str component '' means the empty generic component; fine
            pass
        try:
            got = as_list(Name.normalize(form))
            if got != comps:
                bad(f'normalize-differs:{label}', f'normalize({label}) != components',
                    got=[c.hex() for c in got])
            ctx.event('normalize')
        except Exception as e:   # noqa
            bad(f'normalize-raises:{label}:{type(e).__name__}', f'normalize({label}) raised {e!r}')


def alt_comp_uri(rng, c):
    """Another legal URI spelling of the same component: explicit type number for generic components, every octet (or a random
    share of them) percent-encoded with upper- or lower-case hex digits, raw UTF-8 for non-ASCII text, T=%.. instead of a shorthand."""
    t, v = rc.comp_parts(c)
    k = rng.randrange(5)
    hexfmt = '%%%02X' if rng.random() < 0.5 else '%%%02x'
    if k == 0:
        body = ''.join(hexfmt % b for b in v)
    elif k == 1:
        body = ''.join((hexfmt % b) if (rng.random() < 0.5 or not (chr(b).isalnum() and b < 128)) else chr(b) for b in v)
    elif k == 2:
        try:
            txt = v.decode('utf-8')
            body = txt if all(ord(ch) > 127 or ch.isalnum() for ch in txt) and txt else rc.comp_to_canonical_uri(c).split('=', 1)[-1] if t != 8 else rc.comp_to_canonical_uri(c)
        except UnicodeDecodeError:
            body = ''.join(hexfmt % b for b in v)
        if t == 8 and body == rc.comp_to_canonical_uri(c):
            return '8=' + body if body else rc.comp_to_canonical_uri(c)
    else:
        body = rc.comp_to_canonical_uri(c).split('=', 1)[-1] if t != 8 else rc.comp_to_canonical_uri(c)
        if t == 8:
            return ('8=' + body) if body and set(body) != {'.'} else body
    if not body:
        return rc.comp_to_canonical_uri(c)
    return f'{t}={body}' if (t != 8 or rng.random() < 0.5) else body


def alt_name_uri(rng, comps):
    return '/' + '/'.join(alt_comp_uri(rng, c) for c in comps) if comps else '/'


def check_pair(ctx, a, b):
    exp = len(a) <= len(b) and [bytes(x) for x in b[:len(a)]] == [bytes(x) for x in a]
    forms_a = [a, rc.enc_name(a), rc.name_to_uri(a, canonical=True), alt_name_uri(ctx.rng, a), alt_name_uri(ctx.rng, a),
               tuple(a), [memoryview(bytes(x)) for x in a], (x for x in list(a)), memoryview(rc.enc_name(a))]
    forms_b = [b, rc.enc_name(b), rc.name_to_uri(b, canonical=True), alt_name_uri(ctx.rng, b), alt_name_uri(ctx.rng, b),
               tuple(b), [memoryview(bytes(x)) for x in b], (x for x in list(b)), memoryview(rc.enc_name(b))]
    ia, ib = ctx.rng.randrange(9), ctx.rng.randrange(9)
    if 5 in (ia, ib):
        ctx.event('is-prefix-with-a-tuple')
    fa, fb = forms_a[ia], forms_b[ib]
    if ia in (3, 4) and ib in (3, 4):
        ctx.event('is-prefix-both-uris-other-spelling')
    # an alternative spelling must denote the same name in the first place (else it is not judged: the spelling rules are the library's)
    for alt, comps in ((fa, a), (fb, b)):
        if isinstance(alt, str):
            try:
                if as_list(Name.from_str(alt)) != [bytes(x) for x in comps]:
                    ctx.event('alt-spelling-read-differently')
                    return
            except Exception:   # noqa
                ctx.event('alt-spelling-refused')
                return
    try:
        got = Name.is_prefix(fa, fb)
    except Exception as e:   # noqa
        ctx.report(f'is-prefix-raises:{type(e).__name__}', f'is_prefix raised {e!r}',
                   {'a': [c.hex() for c in a], 'b': [c.hex() for c in b]})
        return
    if bool(got) != exp:
        ctx.report('is-prefix-differs', 'is_prefix != component-wise prefix',
                   {'a': [c.hex() for c in a], 'b': [c.hex() for c in b], 'got': got, 'expected': exp})
    ctx.event('is-prefix')
    ctx.event('is-prefix-true' if exp else 'is-prefix-false')
    # ordering of library-produced names (lists of library-produced components)
    la = [Component.from_bytes(rc.comp_parts(c)[1], rc.comp_parts(c)[0]) for c in a]
    lb = [Component.from_bytes(rc.comp_parts(c)[1], rc.comp_parts(c)[0]) for c in b]
    if [bytes(x) for x in la] != [bytes(x) for x in a] or [bytes(x) for x in lb] != [bytes(x) for x in b]:
        ctx.report('component-from-bytes', 'Component.from_bytes does not produce the exact minimal encoding',
                   {'a': [c.hex() for c in a], 'got': [bytes(c).hex() for c in la][:4]})
        return
    ka, kb = rc.name_canonical_key(a), rc.name_canonical_key(b)
    for op, name_ in ((lambda x, y: x < y, '<'), (lambda x, y: x == y, '=='), (lambda x, y: x <= y, '<=')):
        if op(la, lb) != op(ka, kb):
            ctx.report('name-order-differs', f'name {name_} disagrees with canonical order',
                       {'a': [c.hex() for c in a], 'b': [c.hex() for c in b]})
    ctx.event('name-order')
    if a and b:
        ca, cb = la[ctx.rng.randrange(len(la))], lb[ctx.rng.randrange(len(lb))]
        if (ca < cb) != (rc.canonical_key(ca) < rc.canonical_key(cb)) or \
                (bytes(ca) < bytes(cb)) != (rc.canonical_key(ca) < rc.canonical_key(cb)):
            ctx.report('component-order-differs', 'component < disagrees with canonical order',
                       {'a': bytes(ca).hex(), 'b': bytes(cb).hex()})
        ctx.event('component-order')


def component_api(ctx, c):
    """Component-level conversions."""
    t, v = rc.comp_parts(c)
    try:
        made = Component.from_bytes(v, t)
        if bytes(made) != c:
            ctx.report('component-from-bytes', 'Component.from_bytes != reference', {'c': c.hex()})
        if Component.get_type(c) != t or bytes(Component.get_value(c)) != v:
            ctx.report('component-accessors', 'get_type/get_value differ', {'c': c.hex()})
        cu = Component.to_canonical_uri(c)
        if cu != rc.comp_to_canonical_uri(c) or bytes(Component.from_str(cu)) != c:
            ctx.report('component-canonical-uri', 'component canonical URI round trip', {'c': c.hex(), 'uri': cu})
        if canonical_number(c):
            u = Component.to_str(c)
            if u != rc.comp_to_uri(c) or bytes(Component.from_str(u)) != c:
                ctx.report('component-uri', 'component URI round trip', {'c': c.hex(), 'uri': u})
            if t in ALT_TYPES and Component.to_number(c) != int.from_bytes(v, 'big'):
                ctx.report('component-to-number', 'to_number differs', {'c': c.hex()})
        # escape_str of the raw text then from_str gives the utf-8 bytes
        ctx.event('component-api')
    except Exception as e:   # noqa
        ctx.report(f'component-raises:{type(e).__name__}@{raising_site(e)[0]}', f'component conversion raised {e!r}',
                   {'c': c.hex()})


TYPED_CTORS = ((0x32, 'from_segment', 'seg'), (0x34, 'from_byte_offset', 'off'), (0x36, 'from_version', 'v'), (0x38, 'from_timestamp', 't'), (0x3A, 'from_sequence_num', 'seq'))


def check_typed_constructors(ctx, rng):
    """The convenience constructors for typed numbers are one more input form: from_segment(n) etc., from_number(n, type), the
    shorthand URI 'seg=<n>' and the reference encoding (shortest of 1/2/4/8 octets) are the same component, for small and large n."""
    nums = [0, 1, 7, 252, 253, 255, 256, 65535, 65536, 2**31, 2**32 - 1, 2**32, 2**40, 1700000000000, 1700000000000000, 2**63, 2**64 - 1]
    nums += [rng.randrange(1 << rng.choice([8, 16, 24, 32, 48, 64])) for _ in range(ctx.n(40, 4000))]
    for n in nums:
        for t, ctor, short in TYPED_CTORS:
            ref = rc.comp(t, rc.enc_nni(n))
            w = {'number': n, 'type': t, 'constructor': ctor}
            try:
                forms = {ctor: bytes(getattr(Component, ctor)(n)), 'from_number': bytes(Component.from_number(n, t)), 'from_str(shorthand)': bytes(Component.from_str(f'{short}={n}')),
                         'from_str(canonical)': bytes(Component.from_str(rc.comp_to_canonical_uri(ref)))}
            except Exception as e:   # noqa
                ctx.report(f'typed-constructor-raises:{type(e).__name__}@{raising_site(e)[0]}', f'constructing a typed number component raised {e!r}', w)
                continue
            ctx.event('typed-number-constructors-compared')
            ctx.case(('typed-ctor', t, len(rc.enc_nni(n))), nontrivial=True)
            for k_, v_ in forms.items():
                if v_ != ref:
                    ctx.report(f'typed-constructor-differs:{k_ if not k_.startswith("from_str") else "from_str"}', f'{k_} gives {v_.hex()}, the component of that number is {ref.hex()}', dict(w, form=k_))
            try:
                back = Component.to_number(getattr(Component, ctor)(n))
                if back != n:
                    ctx.report('typed-constructor-number-differs', f'to_number({ctor}({n})) = {back}', w)
                nm = Name.to_str([getattr(Component, ctor)(n)])
                if nm != '/' + rc.comp_to_uri(ref) or [bytes(c) for c in Name.from_str(nm)] != [ref]:
                    ctx.report('typed-constructor-uri-differs', f'the name of {ctor}({n}) prints as {nm!r} / does not read back', w)
            except Exception as e:   # noqa
                ctx.report(f'typed-constructor-raises:{type(e).__name__}@{raising_site(e)[0]}', f'converting a constructed component raised {e!r}', w)


def scribble(x):
    """Edit in place whatever mutable byte strings a conversion handed out."""
    n = 0
    for c in (x if isinstance(x, list) else [x]):
        if isinstance(c, bytearray) and len(c):
            c[-1] ^= 0xFF
            c.append(0x41)
            n += 1
    return n


def check_history(ctx, comps):
    """A conversion is a function of its input: a result handed out earlier belongs to the caller, and editing it in place
    (component objects are documented as bytearray) must not change what the same conversion yields later, for any form."""
    if not comps or not all(canonical_number(c) for c in comps):
        return
    w = {'name': [c.hex() for c in comps]}
    cu = rc.name_to_uri(comps, canonical=True)
    u = rc.name_to_uri(comps, canonical=False)
    strs = [rc.comp_to_canonical_uri(c) for c in comps]
    steps = [('from_str(canonical-uri)', lambda: Name.from_str(cu)), ('from_str(uri)', lambda: Name.from_str(u)),
             ('normalize(uri)', lambda: Name.normalize(cu)), ('normalize(list-of-str)', lambda: Name.normalize(list(strs))),
             ('Component.from_str', lambda: [Component.from_str(x) for x in strs]),
             ('normalize(list-of-bytes)', lambda: Name.normalize([bytes(c) for c in comps])),
             ('Component.from_bytes', lambda: [Component.from_bytes(rc.comp_parts(c)[1], rc.comp_parts(c)[0]) for c in comps])]
    try:
        edited = 0
        for label, fn in steps:
            first = fn()
            edited += scribble(first)
            again = fn()
            if as_list(again) != comps:
                ctx.report(f'conversion-depends-on-history:{label.split("(")[0]}', f'{label} yields another name after a previously returned result was edited in place', dict(w, step=label, got=[bytes(c).hex() for c in again]))
        if bytes(Name.to_bytes(cu)) != rc.enc_name(comps) or not Name.is_prefix(cu, rc.enc_name(comps)) or Name.to_str(Name.from_str(cu)) != u:
            ctx.report('conversion-depends-on-history:later-use', 'after editing previously returned components in place, the URI form no longer denotes the same name', w)
        ctx.event('history')
        if edited:
            ctx.event('history-mutable-result-edited')
    except Exception as e:   # noqa
        ctx.report(f'history-raises:{type(e).__name__}@{raising_site(e)[0]}', f'{e!r}', w)


def check_argument_reuse(ctx, rng, comps, other):
    """The caller's own list object is an input only through its CONTENT: the same list is handed to a conversion, edited in place
    (a component replaced by one of the same length / appended / removed - a consumer stepping through segments), and handed over
    again; nothing else is converted in between."""
    if not comps or not all(canonical_number(c) for c in comps) or not canonical_number(other):
        return
    convs = [('to_bytes', lambda L: bytes(Name.to_bytes(L)), lambda cs: rc.enc_name(cs)),
             ('to_str', lambda L: Name.to_str(L), lambda cs: rc.name_to_uri(cs, canonical=False)),
             ('to_canonical_uri', lambda L: Name.to_canonical_uri(L), lambda cs: rc.name_to_uri(cs, canonical=True)),
             ('normalize', lambda L: [bytes(c) for c in Name.normalize(L)], lambda cs: list(cs)),
             ('encoded_length', lambda L: Name.encoded_length(L), lambda cs: len(rc.enc_name(cs))),
             ('is_prefix-of-itself-extended', lambda L: Name.is_prefix(L, rc.enc_name(list(comps) + [other])), None)]
    for kind in ('bytes', 'bytearray', 'str'):
        def mk(c):
            return bytes(c) if kind == 'bytes' else bytearray(c) if kind == 'bytearray' else rc.comp_to_canonical_uri(c)
        for label, fn, ref in convs:
            if label == 'encoded_length' and kind == 'str':
                continue        # (takes names in component form only)
            L = [mk(c) for c in comps]
            cur = list(comps)
            try:
                fn(L)
                for edit in ('replace-last', 'append', 'pop', 'replace-first'):
                    if edit == 'replace-last':
                        L[-1] = mk(other)
                        cur[-1] = other
                    elif edit == 'append':
                        L.append(mk(other))
                        cur.append(other)
                    elif edit == 'pop':
                        L.pop()
                        cur.pop()
                    else:
                        L[0] = mk(other)
                        cur[0] = other
                    got = fn(L)
                    exp = ref(cur) if ref is not None else (cur == (list(comps) + [other])[:len(cur)])
                    ctx.event('same-list-object-converted-again-after-an-in-place-edit')
                    if got != exp:
                        ctx.report(f'conversion-remembers-the-list-object:{label}', f'{label} of a list that was edited in place ({edit}) since it was last converted '
                                   f'does not reflect the edit', {'name_now': [c.hex() for c in cur], 'form': kind, 'edit': edit, 'got': got if not isinstance(got, bytes) else got.hex()})
                        break
            except Exception as e:   # noqa
                ctx.report(f'argument-reuse-raises:{label}:{type(e).__name__}@{raising_site(e)[0]}', f'{e!r}', {'name': [c.hex() for c in comps], 'form': kind})



RAW_TEXTS = ['cafe\u0301', 'e\u0301cole', 'A\u030angstro\u0308m', '\u212b', '\u2126', '\ufb01n', '\u1112\u1161\u11ab', '\uf900', 'stra\u00dfe', '\u0130stanbul',
             # text that looks like a URI scheme / host:port at the start of a relative name (no scheme is stripped)
             'sensor:1', 'localhost:6363', 'urn:isbn:0451450523', 'ndn:x', 'http:', 'a+b.c-d:e',
             'na\u00efve', '\u65e5\u672c\u8a9e', '\U0001f600', 'Z\u0301\u0323', '\u00c5', 'I\u0307']


def check_raw_text(ctx):
    """Names given as TEXT with raw (unescaped) non-ASCII characters - among them sequences that are not in a Unicode normal form:
    the component is the UTF-8 octets of exactly the text given, in every text input form."""
    for t in RAW_TEXTS:
        exp = [rc.comp(8, b'pre'), rc.comp(8, t.encode('utf-8')), rc.comp(8, b'x')]
        forms = {'uri': lambda: Name.from_str('/pre/' + t + '/x'), 'uri-no-slash': lambda: Name.from_str('pre/' + t + '/x'),
                 'normalize-uri': lambda: Name.normalize('/pre/' + t + '/x'), 'normalize-list': lambda: Name.normalize(['pre', t, 'x']),
                 'normalize-mixed': lambda: Name.normalize([rc.comp(8, b'pre'), t, b'\x08\x01x']),
                 'to-bytes': lambda: Name.from_bytes(Name.to_bytes('/pre/' + t + '/x'))}
        forms['uri-first-component-no-slash'] = lambda: [rc.comp(8, b'pre')] + list(Name.from_str(t + '/x'))
        forms['normalize-first-component-no-slash'] = lambda: [rc.comp(8, b'pre')] + list(Name.normalize(t + '/x'))
        for label, fn in forms.items():
            w = {'text': t, 'codepoints': [hex(ord(ch)) for ch in t], 'form': label}
            try:
                got = [bytes(c) for c in fn()]
            except Exception as e:   # noqa
                ctx.report(f'raw-text-name-raises:{label}:{type(e).__name__}', f'{e!r}', w)
                continue
            ctx.case(('raw-text', t, label), nontrivial=True)
            ctx.event('raw-text-name')
            if got != exp:
                ctx.report(f'raw-text-name-differs:{label}', 'a name given as text is not the UTF-8 octets of the text given', dict(w, got=[c.hex() for c in got]))
        if not Name.is_prefix(['pre', t], '/pre/' + t + '/x') or Name.to_bytes(['pre', t, 'x']) != rc.enc_name(exp):
            ctx.report('raw-text-name-differs:cross-form', 'text forms of one name disagree', {'text': t})


def run(ctx):
    ctx.rule = RULE
    rng = ctx.rng
    check_raw_text(ctx)
    check_typed_constructors(ctx, rng)
    pool = []
    n_names = ctx.n(12000, 1600000)
    # fixed boundary corpus
    corpus = [[], [b'\x08\x00'], [b'\x08\x00', b'\x08\x00'], [rc.comp(8, b'a'), b'\x08\x00'],
              [b'\x08\x00', rc.comp(8, b'a')], [rc.comp(8, b'.')], [rc.comp(8, b'..')], [rc.comp(8, b'...')],
              [rc.comp(32, b'')], [rc.comp(1, bytes(32))], [rc.comp(2, b'\xff' * 32)], [rc.comp(1, b'')],
              [rc.comp(8, b'%')], [rc.comp(8, b'=')], [rc.comp(8, b'8=x')], [rc.comp(8, b'seg=3')],
              [rc.comp(8, b'sha256digest=00')], [rc.comp(65535, b'\x00')], [rc.comp(253, b'')],
              [rc.comp(252, b'\xfd')], [rc.comp(8, bytes(range(256)))], [rc.comp(8, b'/')],
              [rc.comp(8, 'Σπυρίδων'.encode())], [rc.comp(8, b'x' * 252)], [rc.comp(8, b'x' * 253)],
              [rc.comp(8, b'x' * 70000)]]
    for t in ALT_TYPES:
        for n in (0, 1, 255, 256, 65535, 65536, 2**32 - 1, 2**32, 2**64 - 1):
            corpus.append([rc.comp(t, rc.enc_nni(n))])
        corpus.append([rc.comp(t, b'\x00\x01')])      # non-canonical
        corpus.append([rc.comp(t, b'\x01\x02\x03')])  # illegal width
    if not ctx.quick and ctx.shard == 0:
        # exhaustive: every one-byte value x every listed type
        for t in sorted(set(gen.COMP_TYPES)):
            for b in range(256):
                corpus.append([rc.comp(t, bytes([b]))])
        ctx.exhaustive = False
        ctx.extra['exhaustive_subspace'] = 'all 256 one-byte values x all listed component types (shard 0)'
    corpus += [[rc.comp(50, b'\x01' * 2000)], [rc.comp(8, b'a'), rc.comp(54, b'\x01\x02\x03')], [rc.comp(58, b'')], [rc.comp(52, bytes(9))], [rc.comp(56, b'\x07' * 1900), rc.comp(50, b'\x00')]]
    for comps in corpus:
        check_name(ctx, comps)
        if len(rc.enc_name(comps)) < 1000:
            check_history(ctx, comps)
        for c in comps[:2]:
            if len(c) < 1000:
                component_api(ctx, c)
        ctx.case(rc.enc_name(comps)[:64], sample=None, nontrivial=bool(comps))
        if len(rc.enc_name(comps)) < 300:
            pool.append(comps)
    for i in range(n_names):
        comps = gen.name(rng)
        if i % 9 == 0:
            # components whose TYPE coincides with a packet-level element (Name 7, Interest 5, Data 6, MetaInfo 20, Content 21 ...) and
            # whose VALUE is empty or itself looks like TLV elements / an encoded name: still one opaque component each
            comps = list(comps)
            for _ in range(rng.randint(1, 2)):
                t = rng.choice([7, 7, 7, 5, 6, 20, 21, 22, 23, 10, 12])
                v = rng.choice([b'', b''.join(gen.name(rng, 0, 3, gen.BORING_TYPES)), rc.enc_name(gen.name(rng, 0, 2, gen.BORING_TYPES)), gen.comp_value(rng, 8)])
                comps.insert(rng.randint(0, len(comps)), rc.comp(t, v))
            ctx.event('component-typed-like-a-packet-element')
        elif i % 9 == 4:
            # type numbers next to / formerly used for the typed-number conventions (33-37 in an earlier revision, neighbours of
            # 50..58), with values that are canonical numbers or not: printed and read as plain <type>=<value>
            comps = list(comps)
            for _ in range(rng.randint(1, 2)):
                t = rng.choice([33, 34, 35, 36, 37, 31, 49, 51, 53, 55, 57, 59, 48, 60])
                v = rng.choice([rc.enc_nni(rng.choice([0, 5, 255, 256, 70000])), gen.comp_value(rng, 8), b''])
                comps.insert(rng.randint(0, len(comps)), rc.comp(t, v))
            ctx.event('component-typed-next-to-the-number-conventions')
        if i % 5 == 3:
            set_debug_logging(True)
            ctx.event('names-converted-while-the-application-logs-at-DEBUG')
        try:
            check_name(ctx, comps)
        finally:
            set_debug_logging(False)
        if i % 4 == 0:
            check_history(ctx, comps)
        if i % 6 == 1 and comps and len(rc.enc_name(comps)) < 2000:
            check_argument_reuse(ctx, rng, comps, rng.choice([rc.comp(50, rc.enc_nni(rng.choice([1, 7, 300]))), rc.comp(8, b'nxt'), rc.comp(8, bytes(comps[-1][2:])[::-1]) if len(comps[-1]) < 200 else rc.comp(8, b'r')]))
        if comps:
            component_api(ctx, comps[rng.randrange(len(comps))])
        ctx.case(rc.enc_name(comps)[:96], sample={'uri': rc.name_to_uri(comps, canonical=True)} if i % 1500 == 7 else None,
                 nontrivial=bool(comps))
        if len(pool) < 400:
            pool.append(comps)
        elif rng.random() < 0.05:
            pool[rng.randrange(len(pool))] = comps
    # pairs
    n_pairs = ctx.n(12000, 2400000)
    for i in range(n_pairs):
        k = rng.random()
        b = pool[rng.randrange(len(pool))]
        if k < 0.35:
            a = b[:rng.randint(0, len(b))]
        elif k < 0.55 and b:
            a = list(b[:rng.randint(1, len(b))])
            j = rng.randrange(len(a))
            a[j] = gen.component(rng)
        elif k < 0.65 and b:
            # same value bytes, different type / same type, value differing in length only
            a = list(b)
            j = rng.randrange(len(a))
            t, v = rc.comp_parts(a[j])
            a[j] = rc.comp(rng.choice(gen.COMP_TYPES), v) if rng.random() < 0.5 else rc.comp(t, v + b'\x00')
        else:
            a = pool[rng.randrange(len(pool))]
        check_pair(ctx, a, b)
        ctx.case(None, nontrivial=False)
    if not ctx.quick and ctx.shard == 1 % ctx.nshards:
        for a in pool:
            for b in pool:
                check_pair(ctx, a, b)
        ctx.case(None, nontrivial=False, count=len(pool) ** 2)
        ctx.extra['all_pairs_pool'] = len(pool)
    for k in ('wire', 'canonical-uri', 'uri', 'normalize', 'is-prefix-true', 'is-prefix-false', 'name-order',
              'component-order', 'history', 'history-mutable-result-edited', 'uri-of-typed-component-that-is-no-number', 'same-list-object-converted-again-after-an-in-place-edit', 'is-prefix-both-uris-other-spelling', 'is-prefix-with-a-tuple', 'names-converted-while-the-application-logs-at-DEBUG'):
        ctx.need_event(k)
    ctx.assumptions = ['URI convention is the one python-ndn documents (no extra-period rule; = and % escaped)',
                       'shorthand URI round trip is demanded only for canonically encoded typed numbers']
