"""C10 - link-layer envelopes are transparent: Nack, PIT token and wrapped packets.

Twin apps in lock-step: one is fed the bare network packet, the other the same packet inside an
NDNLPv2 envelope with a generated header set; their recorded effect logs (handler invocations,
pending-Interest outcomes, face output) must be equal.  Nack and PIT-token rules are checked with
refcodec on the recorded face output.
"""
import asyncio
import logging

from . import gen, pkts, vtime, refcodec as rc
from .boundary import RecFace
from .common import raising_site
from . import c06

from ndn import appv2, app as appv1, types
from ndn.encoding import make_interest, make_data, InterestParam, MetaInfo
from ndn.security import KeychainDigest, DigestSha256Signer

RULE = ('network packets (valid and mutated Interest/Data on names that hit / near-miss the pending Interests and handlers) '
        'x all subsets of optional envelope headers (incl. unknown critical / non-critical numbers) delivered to twin apps; '
        'Nack reasons 0,50,100,150,255,256,65535,2^32,2^64-1,random over several pending Interests; PIT tokens of length '
        '0..40 over 2-6 Interests answered in random order, some late; fragmented envelopes; distinct = (sub-check, '
        'front-end, packet kind, header set / reason / token length); non-trivial = every case'
        '; Nack envelopes with and without a PIT token while a handler covers the nacked names')

C = lambda s: rc.comp(8, s)   # noqa
OPT_HEADERS = [(0x32c, rc.enc_nni(256)), (0x330, b'\x07'), (0x334, rc.enc_tlv(0x335, b'\x01')), (0x340, b'\x01'),
               (0x344, bytes(8)), (0x348, b'\x00' * 7 + b'\x01'), (0x34c, b''), (0x350, b'\x06\x00'),
               (0x3E8, b'unk'), (0x3E9, b'crit'), (0x3EA, b''), (0x51, bytes(8))]


def header_set(rng):
    hs = [h for h in OPT_HEADERS if rng.random() < 0.3]
    if rng.random() < 0.25:
        # the same UNKNOWN header (a field of a newer protocol revision, repeatable for all this library knows) twice / three times
        t_ = rng.choice([0x3E8, 0x3EC, 0x0F01, 0x0330 + 0x60])
        hs += [(t_, bytes([j])) for j in range(rng.choice([2, 2, 3]))]
    hs.sort(key=lambda x: x[0])
    return hs


class Twin:
    def __init__(self, fe, S):
        self.fe = fe
        self.S = S
        # the forwarder may sit on this machine or on another one (isLocalFace): no input of how envelopes are processed
        Twin.count = getattr(Twin, 'count', 0) + 1
        self.face = RecFace(local=(Twin.count // 2) % 2 == 0)
        self.app = appv2.NDNApp(face=self.face) if fe == 'v2' else appv1.NDNApp(face=self.face, keychain=KeychainDigest())
        self.log = []
        self.pend = {}
        self.replies = []

    async def start(self):
        self.main = asyncio.ensure_future(self.app.main_loop())
        await asyncio.sleep(0)
        if self.fe == 'v2':
            def h(n, p, reply, c):
                self.log.append(('handler', tuple(bytes(x) for x in n), None if p is None else bytes(p),
                                 bytes(c['pit_token']) if isinstance(c.get('pit_token'), (bytes, bytearray, memoryview)) else c.get('pit_token')))
                d = bytes(make_data(n, MetaInfo(), b'reply', DigestSha256Signer()))
                reply(d)

            async def v(n, s, c):
                return types.ValidResult.PASS
            self.app.attach_handler([C(b'h')], h, v)
        else:
            def h(n, p, a):
                self.log.append(('handler', tuple(bytes(x) for x in n), None if a is None else bytes(a), None))
                self.app.put_raw_packet(bytes(make_data(n, MetaInfo(), b'reply', DigestSha256Signer())))
            self.app.set_interest_filter([C(b'h')], h)

    def express(self, key, name, cbp=False):
        if self.fe == 'v2':
            async def v(n, s, c):
                return types.ValidResult.PASS
            coro = self.app.express(name, v, lifetime=3_600_000, can_be_prefix=cbp, nonce=7)
        else:
            coro = self.app.express_interest(name, lifetime=3_600_000, can_be_prefix=cbp, nonce=7, need_raw_packet=True)

        async def waiter():
            try:
                r = await coro
                content = r[1] if self.fe == 'v2' else r[2]
                raw = r[2].get('raw_packet') if self.fe == 'v2' else (r[3] if len(r) > 3 else None)
                self.log.append(('completed', key, 'data', [bytes(c) for c in r[0]], None if content is None else bytes(content),
                                 None if raw is None else bytes(raw)))
            except types.InterestNack as e:
                self.log.append(('completed', key, 'nack', e.reason))
            except asyncio.CancelledError:
                raise
            except BaseException as e:   # noqa
                self.log.append(('completed', key, type(e).__name__))
        self.pend[key] = asyncio.ensure_future(waiter())

    def ensure_pending(self):
        for key, name, cbp in (('P1', [C(b'p'), C(b'one')], False), ('P2', [C(b'p'), C(b'two')], True),
                               ('P3', [C(b'p'), C(b'three'), rc.comp(1, D3_DIGEST)], False)):
            if key not in self.pend or self.pend[key].done():
                self.express(key, name, cbp)

    async def stop(self):
        self.app.shutdown()
        await asyncio.wait_for(self.main, 5)

    def snapshot(self):
        return len(self.log), len(self.face.sent)

    def since(self, snap):
        return self.log[snap[0]:], [b for t, b in self.face.sent[snap[1]:]]


D3 = bytes(make_data([C(b'p'), C(b'three')], MetaInfo(), b'digest-addressed', DigestSha256Signer()))
D3_DIGEST = __import__('hashlib').sha256(D3).digest()


def network_packets(ctx, rng):
    sd = DigestSha256Signer()
    out = [('data', D3), ('data', bytes(make_data([C(b'p'), C(b'three')], MetaInfo(), b'same name, other bytes', sd)))]
    for nm in ([C(b'p'), C(b'one')], [C(b'p'), C(b'two')], [C(b'p'), C(b'two'), C(b'x')], [C(b'p')], [C(b'h')],
               [C(b'h'), C(b'q')], [C(b'zz')]):
        out.append(('data', bytes(make_data(nm, MetaInfo(), b'payload', sd))))
        out.append(('interest', bytes(make_interest(nm, InterestParam(nonce=5, lifetime=500)))))
        out.append(('interest', bytes(make_interest(nm, InterestParam(nonce=6), b'params', DigestSha256Signer(for_interest=True)))))
    base = list(out)
    for kind, w in base:
        muts = list(gen.structural_mutants(rng, w, limit=6)) + list(gen.byte_mutants(rng, w, per_pos=1, max_positions=6))
        for label, m in muts:
            fx = gen.fix_outer(m)
            if fx is not None and fx[:1] in (b'\x05', b'\x06'):
                out.append((kind + '-mut', fx))
    out += [('other', rc.enc_tlv(9, b'abc')), ('other', b'\x05\x00'), ('other', b'\x06\x00')]
    return out


def check_transparency(ctx, rng, fe):
    pk = network_packets(ctx, rng)
    res = {'viol': []}
    reps = ctx.n(36, 2400)

    async def main(S):
        A, B = Twin(fe, S), Twin(fe, S)
        await A.start()
        await B.start()
        for rep in range(reps):
            for kind, wire in pk:
                A.ensure_pending()
                B.ensure_pending()
                await asyncio.sleep(0)
                hs = header_set(rng)
                # a Data packet may come back in an envelope that carries a PIT token (a forwarder echoing the token of the Interest
                # it answers): one more header that is of no concern to the consumer
                tok = rng.choice([None, b'\x01\x02\x03\x04', gen.rand_bytes(rng, 8), b'']) if wire[:1] == b'\x06' else None
                env = rc.make_lp(fragment=wire, headers=hs, pit_token=tok)
                if tok is not None:
                    ctx.event('data-envelope-with-pit-token')
                sa, sb = A.snapshot(), B.snapshot()
                w = {'frontend': fe, 'kind': kind, 'headers': [hex(t) for t, v in hs], 'packet': wire if len(wire) < 300 else wire[:150]}
                for T, data in ((A, wire), (B, env)):
                    try:
                        await T.face.deliver(data)
                    except Exception as e:   # noqa
                        res['viol'].append((f'reception-raises:{fe}:{type(e).__name__}@{raising_site(e)[0]}', f'{e!r}', w))
                for _ in range(4):
                    await asyncio.sleep(0)
                ea, eb = A.since(sa), B.since(sb)
                ctx.case(('transparent', fe, kind, tuple(t for t, v in hs)))
                ctx.event('twin-delivery')
                if ea[0] or ea[1]:
                    ctx.event('twin-delivery-with-effect')
                if ea != eb:
                    res['viol'].append((f'envelope-not-transparent:{fe}:{kind.split("-")[0]}',
                                        'effects of the enveloped packet differ from the bare packet', dict(w, bare=ea, enveloped=eb)))
                # fragmented envelope: no effect at all
                if rng.random() < 0.25:
                    sb = B.snapshot()
                    fr = rc.make_lp(fragment=wire, headers=hs, frag_index=rng.choice([0, 1, None]), frag_count=rng.choice([2, None, 1]))
                    if rc.strict_lp(fr)['fragmented']:
                        try:
                            await B.face.deliver(fr)
                        except Exception as e:   # noqa
                            res['viol'].append((f'reception-raises:{fe}:{type(e).__name__}@{raising_site(e)[0]}', f'{e!r}', w))
                        for _ in range(4):
                            await asyncio.sleep(0)
                        eb = B.since(sb)
                        ctx.event('fragmented-envelope')
                        ctx.case(('fragmented', fe, kind))
                        if eb[0] or eb[1]:
                            res['viol'].append((f'fragmented-envelope-has-effect:{fe}', 'a fragmented envelope was not rejected', dict(w, effect=eb)))
                        # bring the twin back in sync (nothing happened in A)
        await A.stop()
        await B.stop()

    S = vtime.run(main)
    finish(ctx, S, res, f'transparency:{fe}')


def finish(ctx, S, res, label):
    for v in res['viol']:
        ctx.report(*v)
    if S.result != 'ok':
        ctx.report(f'scenario-{S.result}:{label}', f'{S.error!r}', None)
    for le in S.sentinel.all():
        ex = le.get('exception')
        ctx.report(f'background-error:{label}:{type(ex).__name__ if ex else "?"}', f'{le.get("repr")}', None)


REASONS = [0, 50, 100, 150, 255, 256, 65535, 65536, 2**32 - 1, 2**32, 2**64 - 1]


def check_nack(ctx, rng, fe):
    res = {'viol': []}
    n = ctx.n(1800, 160000)

    async def main(S):
        T = Twin(fe, S)
        await T.start()
        # D and Dp differ only in a trailing implicit-digest component: two different Interest names filed under one table node
        names = {'A': [C(b'n'), C(b'a')], 'B': [C(b'n'), C(b'b')], 'AB': [C(b'n'), C(b'a'), C(b'b')], 'N': [C(b'n')],
                 'D': [C(b'n'), C(b'd'), rc.comp(1, bytes(range(32)))], 'Dp': [C(b'n'), C(b'd')]}
        # Interests whose own encoding needs a one-octet / a three-octet Length (the Interest echoed inside the Nack is 252, 253 and
        # 300+ octets long), and one far beyond a datagram
        for lab, target_len in (('L252', 252), ('L253', 253), ('L300', 300), ('L70k', 70000)):
            for pad in range(target_len - 40, target_len + 1):
                nm_ = [C(b'n'), C(b'long'), rc.comp(8, b'x' * max(0, pad))]
                iw_ = bytes(make_interest(nm_, InterestParam(nonce=1, lifetime=4000)))
                if len(iw_) - (2 if len(iw_) < 255 else 4) >= target_len:
                    break
            names[lab] = nm_
        knames = dict(names)
        if fe == 'v2':
            T.app.attach_handler([C(b'n')], lambda n, p, reply, c: T.log.append(('handler', tuple(bytes(x) for x in n), None, None)))
        else:
            T.app.set_interest_filter([C(b'n')], lambda n, p, a: T.log.append(('handler', tuple(bytes(x) for x in n), None, None)))
        for i in range(n):
            for k, nm in names.items():
                if k not in T.pend or T.pend[k].done():
                    T.express(k, nm, cbp=(k == 'N'))
            if i % 3 == 0:
                T.express(f'A2-{i}', names['A'])       # one more Interest with the same name
                knames[f'A2-{i}'] = names['A']
            await asyncio.sleep(0)
            target = rng.choice(list(names))
            reason = rng.choice(REASONS) if rng.random() < 0.8 else rng.getrandbits(rng.randint(1, 64))
            iw = bytes(make_interest(names[target], InterestParam(nonce=rng.getrandbits(32), can_be_prefix=(target == 'N'), lifetime=4000)))
            hs = header_set(rng)
            if rng.random() < 0.12:
                # the NackReason element is optional in NDNLPv2: a Nack header without it is a Nack all the same, its reason "None" (0)
                reason = 0
                env = rc.make_lp(fragment=iw, nack=True, headers=hs, pit_token=rng.choice([None, None, b'\x01\x02\x03\x04']))
                ctx.event('nack-header-without-reason-element')
            else:
                env = rc.make_lp(fragment=iw, nack_reason=reason, headers=hs, pit_token=rng.choice([None, None, b'', b'\x01\x02\x03\x04', gen.rand_bytes(rng, 8)]))
            if i % 11 == 5:
                # the wall clock is set forwards by two hours while the Interests are pending (awaited: their waits run on the loop's clock)
                S.step_wall(7200)
                ctx.event('nack-after-a-forward-step-of-the-wall-clock')
            snap = T.snapshot()
            expect_keys = [k for k, t in T.pend.items() if not t.done() and knames.get(k) == names[target]]
            w = {'frontend': fe, 'target': target, 'reason': reason, 'headers': [hex(t) for t, v in hs]}
            if len(expect_keys) > 1 and rng.random() < 0.3:
                # the caller gives up one of several Interests of that name in the very loop turn in which the Nack is processed
                # (no yield in between): the Nack still completes the others, with its reason
                victim = expect_keys[0] if rng.random() < 0.7 else rng.choice(expect_keys)
                T.pend[victim].cancel()
                expect_keys = [k for k in expect_keys if k != victim]
                w['cancelled_in_same_turn'] = victim
                ctx.event('nack-with-cancel-in-same-turn')
            ctx.event('nack-multi-target' if len(expect_keys) > 1 else 'nack-single-target')
            try:
                await T.face.deliver(env)
            except Exception as e:   # noqa
                res['viol'].append((f'reception-raises:{fe}:{type(e).__name__}@{raising_site(e)[0]}', f'{e!r}', w))
            for _ in range(4):
                await asyncio.sleep(0)
            log, sent = T.since(snap)
            got = sorted((e[1], e[2], e[3] if len(e) > 3 else None) for e in log if e[0] == 'completed'
                         and not (e[1] == w.get('cancelled_in_same_turn') and e[2] in ('InterestCanceled', 'CancelledError')))   # the given-up one ends cancelled
            exp = sorted((k, 'nack', reason) for k in expect_keys)
            ctx.case(('nack', fe, reason.bit_length(), target, tuple(t for t, v in hs)))
            ctx.event('nack-delivered')
            if got != exp:
                mech = 'nack-completes-wrong-interests' if [g[0] for g in got] != [e[0] for e in exp] else 'nack-wrong-reason'
                res['viol'].append((f'{mech}:{fe}', f'Nack for {target} reason {reason}: completions {got}, expected {exp}', w))
            if sent:
                res['viol'].append((f'nack-caused-output:{fe}', 'a Nack made the app transmit something', w))
            if any(e[0] == 'handler' for e in log):
                res['viol'].append((f'nack-dispatched-as-interest:{fe}', 'the Interest inside a Nack envelope was handed to an Interest handler', w))
        await T.stop()

    S = vtime.run(main)
    finish(ctx, S, res, f'nack:{fe}')


def check_pit_token(ctx, rng):
    res = {'viol': []}
    rounds = ctx.n(1200, 120000)

    async def main(S):
        face = RecFace()
        the_app = appv2.NDNApp(face=face)
        main_task = asyncio.ensure_future(the_app.main_loop())
        await asyncio.sleep(0)
        got = {}

        def h(n, p, reply, c):
            got[(tuple(bytes(x) for x in n)[:2], c['int_param'].nonce)] = (reply, c)

        async def accept(n, s_, c):
            return types.ValidResult.PASS
        the_app.attach_handler([C(b't')], h, accept)
        seq = 0
        lib_logger = logging.getLogger('ndn')
        lib_logger.addHandler(logging.NullHandler())
        lib_logger.propagate = False
        old_level = lib_logger.level
        for r in range(rounds):
            # the application's log level is not an input of the property: every third round runs with the library logger at DEBUG
            lib_logger.setLevel(logging.DEBUG if r % 3 == 2 else logging.WARNING)
            logging.disable(logging.NOTSET if r % 3 == 2 else logging.CRITICAL)     # the runner silences logging globally
            ctx.event('token-round-debug-logging' if r % 3 == 2 else 'token-round')
            k = rng.randint(2, 6)
            batch = []
            for j in range(k):
                seq += 1
                name = [C(b't'), rc.comp(8, str(seq).encode())]
                if batch and rng.random() < 0.3:
                    # another copy of an Interest that is still outstanding (a retransmission, a second downstream): same name, its own token
                    name = list(rng.choice(batch)[0])
                    ctx.event('token-interests-of-one-name-outstanding-together')
                tk = rng.random()
                token = None if tk < 0.2 else b'' if tk < 0.3 else bytes(rng.choice([1, 4, 8, 32, 33, 40])) if tk < 0.4 else \
                    gen.rand_bytes(rng, rng.choice([1, 2, 4, 8, 16, 32, 33, 40]))
                L = rng.choice([50, 100, 4000])
                kind_i = rng.choice(['plain', 'plain', 'parameterised', 'signed'])
                if kind_i == 'plain':
                    iw = bytes(make_interest(name, InterestParam(nonce=seq, lifetime=L)))
                else:
                    # the token rule holds for every Interest, also one that goes through the digest check and the validator first
                    iw = bytes(make_interest(name, InterestParam(nonce=seq, lifetime=L), b'app-param',
                                             DigestSha256Signer(for_interest=True) if kind_i == 'signed' else None))
                ctx.klass('token-interest-' + kind_i)
                hs = header_set(rng)
                wire = iw if token is None and rng.random() < 0.5 else rc.make_lp(fragment=iw, pit_token=token, headers=hs)
                await face.deliver(wire)
                for _ in range(3):
                    await asyncio.sleep(0)
                batch.append((tuple(name), token, L, S.now_ms(), seq))
            rng.shuffle(batch)
            for (name, token, L, t_arr, nonce_) in batch:
                if (name, nonce_) not in got:
                    res['viol'].append(('token-interest-not-delivered', 'Interest inside an envelope with a PIT token did not reach its handler',
                                        {'token': token}))
                    continue
                reply, c = got[(name, nonce_)]
                late = rng.random() < 0.2
                if late:
                    await S.sleep_until_ms(t_arr + L + 5)
                data = bytes(make_data(list(name), MetaInfo(), gen.rand_bytes(rng, rng.choice([0, 5, 300, 300, 1000, 1990, 2040, 4000, 8000])), DigestSha256Signer()))
                if rng.random() < 0.3:
                    # reply bytes (and with them the Fragment / the envelope) of every length around the one-octet / three-octet boundary
                    # of a TLV length
                    target = rng.randint(225, 262)
                    base_len = len(make_data(list(name), MetaInfo(), b'', DigestSha256Signer()))
                    for c_len in range(max(0, target - base_len - 4), max(0, target - base_len) + 1):
                        cand = bytes(make_data(list(name), MetaInfo(), gen.rand_bytes(rng, c_len), DigestSha256Signer()))
                        if len(cand) <= target:
                            data = cand
                    if 250 <= len(data) <= 258:
                        ctx.event('reply-of-%d-octets' % len(data))
                ctx.klass('reply-size-' + ('<253' if len(data) < 253 else '<2048' if len(data) < 2048 else '>=2048'))
                if rng.random() < 0.15:
                    # the handler replies with something that is itself a link-layer packet (an application-made Nack for the Interest,
                    # Data it wrapped to attach a CachePolicy): "the reply bytes", whatever they are, go out unmodified - with the token
                    data = rc.make_lp(fragment=data, headers=[(0x334, rc.enc_tlv(0x335, b'\x01'))]) if rng.random() < 0.5 else \
                        rc.make_lp(fragment=bytes(make_interest(list(name), InterestParam(nonce=seq))), nack_reason=150)
                    ctx.event('reply-that-is-itself-an-envelope')
                n0 = len(face.sent)
                ret = reply(data)
                sent = [b for t, b in face.sent[n0:]]
                w = {'token': token, 'late': late, 'sent': sent[:2]}
                ctx.case(('token', None if token is None else len(token), late))
                ctx.event('token-reply')
                ctok = c.get('pit_token')
                if (bytes(ctok) if isinstance(ctok, (bytes, bytearray, memoryview)) else ctok) != token:
                    res['viol'].append(('context-token-differs', 'the token handed to the handler context differs from the one received', w))
                if S.now_ms() > t_arr + L:
                    if sent:
                        res['viol'].append(('late-reply-transmitted', 'late reply transmitted', w))
                    continue
                if len(sent) != 1:
                    res['viol'].append((f'reply-count:{len(sent)}', 'reply not transmitted exactly once', w))
                    continue
                if token is None:
                    if sent[0] != data:
                        res['viol'].append(('tokenless-reply-not-bare', 'reply to an Interest without PIT token was not sent bare', w))
                else:
                    try:
                        lp = rc.strict_lp(sent[0])
                    except (rc.Reject, KeyError):
                        res['viol'].append(('token-reply-not-an-envelope', 'reply to an Interest with PIT token is not an envelope', w))
                        continue
                    if lp['pit_token'] != token:
                        res['viol'].append((f'token-reply-wrong-token:len={len(token)}', f'envelope carries token {lp["pit_token"]!r}, expected {token!r}', w))
                    if lp['fragment'] != data:
                        res['viol'].append(('token-reply-modified', 'reply bytes inside the envelope differ from what the handler sent', w))
                # a handler may answer one Interest with more than one Data (e.g. a CanBePrefix Interest): EVERY reply follows the same rule
                if rng.random() < 0.3 and S.now_ms() <= t_arr + L:
                    for extra in range(rng.randint(1, 2)):
                        d2 = bytes(make_data(list(name) + [rc.comp(8, b'more%d' % extra)], MetaInfo(), b'again', DigestSha256Signer()))
                        n1 = len(face.sent)
                        reply(d2)
                        sent2 = [b for t, b in face.sent[n1:]]
                        ctx.event('token-second-reply')
                        ok2 = len(sent2) == 1 and (sent2[0] == d2 if token is None else False)
                        if len(sent2) == 1 and token is not None:
                            try:
                                lp2 = rc.strict_lp(sent2[0])
                                ok2 = lp2['pit_token'] == token and lp2['fragment'] == d2
                            except (rc.Reject, KeyError):
                                ok2 = False
                        if not ok2:
                            res['viol'].append(('later-reply-breaks-token-rule', f'reply number {extra + 2} to one Interest was not sent like the first (token {"present" if token is not None else "absent"})',
                                                dict(w, sent=sent2[:2])))
        lib_logger.setLevel(old_level)
        logging.disable(logging.CRITICAL)
        the_app.shutdown()
        await asyncio.wait_for(main_task, 5)

    S = vtime.run(main)
    finish(ctx, S, res, 'pit-token')
    # --- the handler defers its reply; the application loses its connection and connects again (same NDNApp object) inside the
    # Interest's lifetime; the reply then goes out on the new connection exactly as the rule says: token -> envelope with it, none -> bare
    res2 = {'viol': []}

    async def main2(S):
        for rnd in range(ctx.n(6, 200)):
            face = RecFace()
            the_app = appv2.NDNApp(face=face)
            got = {}
            the_app.attach_handler([C(b't')], lambda n, p, reply, c: got.__setitem__(bytes(n[-1]), (reply, c)))
            main_task = asyncio.ensure_future(the_app.main_loop())
            await asyncio.sleep(0)
            batch = []
            for j in range(3):
                token = [None, b'\x01\x02\x03\x04', gen.rand_bytes(rng, rng.choice([1, 8, 32]))][(j + rnd) % 3]
                nm = [C(b't'), rc.comp(8, b'r%d-%d' % (rnd, j))]
                iw = bytes(make_interest(nm, InterestParam(nonce=j + 1, lifetime=60000)))
                await face.deliver(iw if token is None else rc.make_lp(fragment=iw, pit_token=token))
                for _ in range(3):
                    await asyncio.sleep(0)
                batch.append((nm, token))
            the_app.shutdown()
            await asyncio.wait_for(main_task, 5)
            main_task = asyncio.ensure_future(the_app.main_loop())       # connected again
            await asyncio.sleep(0.01)
            ctx.event('token-reply-after-reconnect')
            for nm, token in batch[::-1]:
                if bytes(nm[-1]) not in got:
                    continue
                reply, c = got[bytes(nm[-1])]
                data = bytes(make_data(nm, MetaInfo(), b'late but in time', DigestSha256Signer()))
                n0 = len(face.sent)
                try:
                    ret = reply(data)
                except Exception as e:   # noqa
                    res2['viol'].append((f'reply-raises:{type(e).__name__}:after-reconnect', f'{e!r}', {'token': token}))
                    continue
                sent = [b for t, b in face.sent[n0:]]
                ctx.case(('token-after-reconnect', None if token is None else len(token)))
                if not ret and not sent:
                    ctx.event('observation:reply-after-reconnect-refused')      # (refusing is truthful; a transmitted reply follows the rule)
                    continue
                w = {'token': token, 'after': 'shutdown + second main_loop on the same application', 'sent': sent[:2]}
                if len(sent) != 1:
                    res2['viol'].append(('token-reply-count:after-reconnect', f'{len(sent)} packets for one reply', w))
                elif token is None:
                    if sent[0] != data:
                        res2['viol'].append(('tokenless-reply-not-bare:after-reconnect', 'reply to an Interest without PIT token was not sent bare', w))
                else:
                    try:
                        lp = rc.strict_lp(sent[0])
                        if lp.get('pit_token') != token or lp.get('fragment') != data:
                            res2['viol'].append((f'token-reply-wrong-token:after-reconnect', f'envelope carries token {lp.get("pit_token")!r}, expected {token!r}', w))
                    except (rc.Reject, KeyError):
                        res2['viol'].append(('token-reply-not-an-envelope:after-reconnect', 'reply to an Interest with PIT token is not an envelope carrying that token', w))
            the_app.shutdown()
            await asyncio.wait_for(main_task, 5)
    S2 = vtime.run(main2)
    finish(ctx, S2, res2, 'pit-token-after-reconnect')


def run(ctx):
    ctx.rule = RULE
    rng = ctx.rng
    for fe in ('v2', 'v1'):
        check_transparency(ctx, rng, fe)
        check_nack(ctx, rng, fe)
    check_pit_token(ctx, rng)
    for k in ('twin-delivery-with-effect', 'nack-delivered', 'token-reply', 'fragmented-envelope', 'nack-with-cancel-in-same-turn', 'token-round-debug-logging', 'token-second-reply'):
        ctx.need_event(k)
    ctx.need_event('token-interests-of-one-name-outstanding-together')
    ctx.need_event('nack-after-a-forward-step-of-the-wall-clock')
    ctx.need_event('token-reply-after-reconnect')
    for k in (253, 254):
        ctx.need_event('reply-of-%d-octets' % k)
    ctx.need_class('reply-size->=2048')
    ctx.need_class('token-interest-signed')
    ctx.need_class('token-interest-parameterised')
    ctx.assumptions = ['envelope headers are generated in ascending type order before the fragment',
                       'a Nack header without a NackReason element is a Nack with reason None = 0 (NDNLPv2)',
                       'PIT-token rules are judged on the current front-end; the legacy one documents no PIT-token support']
