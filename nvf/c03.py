"""C03 - every expressed Interest completes exactly once with the right outcome.

Scenarios (timed histories of express / Data / Nack / cancel / shutdown over 2-5 concurrently
pending Interests on same and nested names) are executed on the real NDNApp front-ends over a
recording face on a virtual clock; completions are observed at the client boundary and compared
with a sequential pending-Interest model that yields the *set* of acceptable outcomes (exact
ties between packet arrival, validator completion and the deadline are legitimately either way).
"""
import asyncio
import hashlib
import itertools

from . import vtime, refcodec as rc
from .boundary import RecFace
from .common import raising_site

from ndn import appv2, app as appv1, types
from ndn.encoding import make_data, MetaInfo, Name
from ndn.security import DigestSha256Signer, KeychainDigest

RULE = ('timed histories of 3-9 events (express, Data, Nack, caller cancel, shutdown) over 2-5 Interests on the name tree '
        '/a,/a/b,/a/b/c,/a/d (same name twice, CanBePrefix, implicit digest, digest placeholder), event times on a grid that '
        'contains each deadline -1/0/+1 ms, validator latency 0..>lifetime and every verdict, both front-ends; followed by a '
        'probe Interest on every name; distinct = the observed interleaving signature (event kinds + completion order); '
        'non-trivial = at least two Interests pending at the same time'
        '; a share of the Data is delivered inside link-layer envelopes; histories in which one InterestParam object is reused and modified between expresses')

NAMES = {
    'a': [rc.comp(8, b'a')],
    'ab': [rc.comp(8, b'a'), rc.comp(8, b'b')],
    'abc': [rc.comp(8, b'a'), rc.comp(8, b'b'), rc.comp(8, b'c')],
    'ad': [rc.comp(8, b'a'), rc.comp(8, b'd')],
    'abce': [rc.comp(8, b'a'), rc.comp(8, b'b'), rc.comp(8, b'c'), rc.comp(8, b'e')],
    'x': [rc.comp(8, b'x')],
}
INT_NAMES = ['a', 'ab', 'ab', 'abc', 'ad']
DATA_NAMES = ['a', 'ab', 'ab', 'abc', 'abc', 'ad', 'abce', 'x']
V2_VERDICTS = ['PASS', 'PASS', 'PASS', 'ALLOW_BYPASS', 'FAIL', 'TIMEOUT', 'SILENCE']
V1_VERDICTS = [True, True, True, 1, False, 0, None]
TOL = 2


def is_prefix(a, b):
    return len(a) <= len(b) and b[:len(a)] == a


# ------------------------------------------------------------------ generation
def gen_scenario(rng, frontend):
    ni = rng.randint(2, 5)
    nd = rng.randint(1, 4)
    ints = []
    datas = None
    for i in range(ni):
        nm = rng.choice(INT_NAMES)
        L = rng.choice([50, 100, 100, 200, 1000])
        te = rng.choice([0, 0, 10, 20, 50, 99, 100, 101])
        lat = rng.choice([0, 0, 0, 1, 5, 20, 49, 50, 51, 99, 100, 101, 150, 500, 2000])
        dig = None
        if datas is None:
            datas = [{'id': d, 'name': nm if rng.random() < 0.4 else rng.choice(DATA_NAMES)} for d in range(nd)]
        k = rng.random()
        if k < 0.12:
            cands = [d['id'] for d in datas if is_prefix(NAMES[nm], NAMES[d['name']])]
            dig = ('of', rng.choice(cands)) if cands else 'bogus'
        elif k < 0.16:
            dig = 'bogus'
        # the front-ends send at once and hand back a coroutine: some callers begin to await it later (still inside the lifetime)
        aw = rng.choice([1, 5, L // 2, L - 1]) if rng.random() < 0.15 else 0
        ints.append({'id': i, 'name': nm, 'cbp': rng.random() < 0.4, 'L': L, 'te': te, 'lat': lat, 'aw': aw,
                     'verdict': rng.choice(V2_VERDICTS if frontend == 'v2' else V1_VERDICTS), 'digest': dig,
                     'placeholder': dig is None and rng.random() < 0.06})
        # MustBeFresh is a request to the network: the consumer side takes whatever Data comes back (the scripted Data carry no
        # FreshnessPeriod, or 0, or a positive one)
        ints[-1]['mbf'] = rng.random() < 0.3
        if rng.random() < 0.07:
            ints[-1]['omit_lifetime'] = True
            ints[-1]['L'] = L = 100 if frontend == 'v1' else 4000
            ints[-1]['aw'] = 0
        if dig is None and not ints[-1]['placeholder'] and rng.random() < 0.06:
            ints[-1]['signed_np'] = True      # a signer but no ApplicationParameters: the digest component is appended all the same
    # candidate times: every deadline -1/0/+1, every express time, claim+latency points
    grid = set()
    for it in ints:
        D = it['te'] + it['L']
        grid.update([it['te'], it['te'] + 1, D - 1, D, D + 1, max(0, D - it['lat']), it['te'] + 5])
    grid = sorted(t for t in grid if t >= 0)
    events = [{'t': it['te'], 'kind': 'express', 'i': it['id']} for it in ints]
    for _ in range(rng.randint(2, 8)):
        k = rng.random()
        t = rng.choice(grid) if rng.random() < 0.8 else rng.randint(0, 400)
        if k < 0.55:
            events.append({'t': t, 'kind': 'data', 'd': rng.randrange(nd)})
        elif k < 0.75:
            events.append({'t': t, 'kind': 'nack', 'i': rng.randrange(ni), 'reason': rng.choice([0, 50, 100, 150, 255, 70000])})
        elif k < 0.93:
            events.append({'t': t, 'kind': 'cancel', 'i': rng.randrange(ni)})
        else:
            # the application shuts the face down, or the face goes down by itself (connection lost): Face.run() returns
            events.append({'t': t, 'kind': 'shutdown', 'by': rng.choice(['app', 'face', 'task'])})
    for it in ints:
        if (it['placeholder'] or it.get('signed_np')) and rng.random() < 0.8:
            events.append({'t': it['te'] + rng.choice([1, 5, it['L'] - 1]), 'kind': 'dataf', 'i': it['id']})
    if rng.random() < 0.15:
        # a transient transport fault: send() raises for ONE further Interest (never transmitted, so the network never answers it);
        # its name is one of the names the other Interests use
        events.append({'t': rng.choice(grid), 'kind': 'express-send-fault', 'name': rng.choice(INT_NAMES), 'cbp': rng.random() < 0.5,
                       'exc': rng.choice(['OSError', 'RuntimeError', 'AttributeError'])})
    if rng.random() < 0.2:
        # the wall clock is set forwards / backwards while Interests are pending (NTP step, operator correction, resume): lifetimes
        # are durations - every outcome and every instant (on the loop's clock) is what it would have been
        for _ in range(rng.choice([1, 1, 2])):
            events.append({'t': rng.choice(grid), 'kind': 'wall-step', 'secs': rng.choice([3600, -3600, 10, -1, 86400 * 30, -0.05, 0.2])})
    events.sort(key=lambda e: e['t'])       # stable: express events of equal time keep their order
    # nothing after a shutdown; a Nack only for an Interest already expressed
    out = []
    for e in events:
        if e['kind'] == 'cancel' and e['t'] <= ints[e['i']]['te'] + ints[e['i']]['aw'] and ints[e['i']]['aw']:
            continue        # giving up an Interest whose coroutine was never awaited is outside the statement
        out.append(e)
        if e['kind'] == 'shutdown':
            break
    for e in out:
        if e['kind'] in ('data', 'dataf') and rng.random() < 0.3:
            e['lp'] = True          # delivered inside a link-layer envelope (transparent)
        if e['kind'] == 'data' and rng.random() < 0.2:
            e['wide'] = True
    return {'frontend': frontend, 'ints': ints, 'datas': datas, 'events': out, 'shared_param': rng.random() < 0.25, 'shared_validators': rng.random() < 0.5,
            'reenter': rng.random() < 0.3, 'second_connection': rng.random() < 0.3, 'coalesce': frontend == 'v2' and rng.random() < 0.35}


# ------------------------------------------------------------------ model
def int_fullname(sc, it, digests):
    nm = list(NAMES[it['name']])
    return nm


def matches(sc, it, d, data_digest):
    """Does Data d match Interest it?"""
    if it.get('placeholder') or it.get('signed_np'):
        return False
    dn = NAMES[sc['datas'][d]['name']]
    iname = NAMES[it['name']]
    if not (dn == iname or (it['cbp'] and is_prefix(iname, dn) and dn != iname)):
        return False
    if it['digest'] == 'bogus':
        return False
    if it['digest'] is not None:
        return it['digest'][1] == d
    return True


def dataf_matches(sc, it, j):
    """Data answering placeholder Interest j is named  first-component / digest / rest."""
    if it['id'] == j:
        return True
    if it.get('placeholder') or it.get('signed_np') or it['digest'] is not None:
        return False
    src = sc['ints'][j]
    if src.get('signed_np'):
        return it['cbp'] and is_prefix(NAMES[it['name']], NAMES[src['name']])     # the Data is named  name / digest
    return it['cbp'] and NAMES[it['name']] == NAMES[src['name']][:1]


def same_full_name(a, b):
    if a.get('placeholder') or b.get('placeholder') or a.get('signed_np') or b.get('signed_np'):
        return a['id'] == b['id']
    return a['name'] == b['name'] and a['digest'] == b['digest']


def model_outcomes(sc, it):
    """Set of acceptable (kind, detail, t) for Interest `it`."""
    te, D = it['te'], it['te'] + it['L']
    evs = []
    seen_express = False
    for seq, e in enumerate(sc['events']):
        if e['kind'] == 'express' and e['i'] == it['id']:
            seen_express = True
            continue
        if not seen_express:
            continue
        evs.append((e['t'], seq, e))
    if not seen_express:
        return {('never-expressed', None, None)}
    results = set()
    aw_at = te + it.get('aw', 0)
    # legacy front-end: the validator runs in the caller's coroutine, i.e. not before the caller awaits
    val_start = (lambda t: max(t, aw_at)) if sc['frontend'] == 'v1' else (lambda t: t)
    good = (it['verdict'] in ('PASS', 'ALLOW_BYPASS')) if sc['frontend'] == 'v2' else bool(it['verdict'])
    for perm in itertools.permutations(['ev', 'dl', 'val']):
        rank = {c: r for r, c in enumerate(perm)}
        # branching simulation (Nack while validating; deadline while validating)
        stack = [('pending', 0, None, frozenset())]   # state, index into merged stream is recomputed; keep simple
        # merged stream is built lazily because 'val' is dynamic
        def run_branch(choices):
            state = 'pending'
            tv = None
            claimed_d = None
            choice_i = 0
            items = [(t, rank['ev'], seq, ('ev', e)) for (t, seq, e) in evs] + [(D, rank['dl'], -1, ('dl', None))]
            items.sort(key=lambda x: (x[0], x[1], x[2]))
            idx = 0
            pending_val = None
            while True:
                # next item: either items[idx] or the validator completion
                nxt = items[idx] if idx < len(items) else None
                if pending_val is not None and (nxt is None or (pending_val, rank['val'], 0) < (nxt[0], nxt[1], nxt[2])):
                    t = pending_val
                    pending_val = None
                    if state == 'claimed':
                        if good:
                            return ('data', claimed_d, t), choice_i
                        return ('valfail', it['verdict'], t), choice_i
                    continue
                if nxt is None:
                    return ('open', None, None), choice_i
                idx += 1
                t, _, _, (cls, e) = nxt
                if cls == 'dl':
                    if state == 'pending':
                        return ('timeout', None, D), choice_i
                    if state == 'claimed':
                        c = choices[choice_i] if choice_i < len(choices) else None
                        choice_i += 1
                        if c is None:
                            return ('BRANCH', None, None), choice_i
                        if c == 0:
                            return ('timeout', None, D), choice_i
                        continue
                    continue
                k = e['kind']
                if k == 'cancel' and e['i'] == it['id']:
                    return ('cancel', None, t), choice_i
                if k == 'shutdown':
                    if state == 'pending':
                        return ('cancel', None, t), choice_i
                    # Data already arrived and is being validated when the face shuts down: finishing the
                    # validation (Data / failure / timeout) and cancelling are both acceptable
                    c = choices[choice_i] if choice_i < len(choices) else None
                    choice_i += 1
                    if c is None:
                        return ('BRANCH', None, None), choice_i
                    if c == 0:
                        return ('cancel', None, t), choice_i
                    continue
                if k == 'nack' and same_full_name(sc['ints'][e['i']], it) and nack_target_expressed(sc, e):
                    if state == 'pending':
                        return ('nack', e['reason'], t), choice_i
                    c = choices[choice_i] if choice_i < len(choices) else None
                    choice_i += 1
                    if c is None:
                        return ('BRANCH', None, None), choice_i
                    if c == 0:
                        return ('nack', e['reason'], t), choice_i
                    continue
                if k == 'data' and state == 'pending' and matches(sc, it, e['d'], None):
                    state = 'claimed'
                    claimed_d = e['d']
                    pending_val = val_start(t) + it['lat']
                    continue
                if k == 'dataf' and state == 'pending' and dataf_matches(sc, it, e['i']):
                    state = 'claimed'
                    claimed_d = 200 + e['i']
                    pending_val = val_start(t) + it['lat']
                    continue

        # enumerate binary choices depth-first
        todo = [()]
        while todo:
            ch = todo.pop()
            res, used = run_branch(ch)
            if res[0] == 'BRANCH':
                todo.append(ch + (0,))
                todo.append(ch + (1,))
            else:
                results.add(res)
    if it.get('aw'):
        # the caller sees the outcome when it awaits, not before
        results = {(k, d, (None if t is None else max(t, aw_at))) for (k, d, t) in results}
    return results


def nack_target_expressed(sc, e):
    """A Nack event only counts if its target Interest was expressed before it in the event list."""
    for x in sc['events']:
        if x is e:
            return False
        if x['kind'] == 'express' and x['i'] == e['i']:
            return True
    return False


def ambiguous_nack(sc, it):
    """Nack aimed at another Interest that shares the table node (same name, different digest)."""
    for e in sc['events']:
        if e['kind'] == 'nack':
            tgt = sc['ints'][e['i']]
            if tgt.get('placeholder') or it.get('placeholder'):
                continue
    return False      # (a Nack names exactly the Interests of its full name, implicit digest included: nothing is ambiguous)


# ------------------------------------------------------------------ execution
class Run:
    def __init__(self, sc):
        self.sc = sc
        self.obs = {}          # interest id -> (kind, detail, t)
        self.receive_errors = []
        self.validator_log = []
        self.probe = {}
        self.pit_left = None
        self.data_wires = []
        self.data_wires_wide = []
        self.data_digest = []
        self.int_wires = {}
        self.express_errors = {}
        self.nested = []       # (id, virtual ms of the call, task | exception) of Interests expressed from inside validators
        self.nested_obs = []
        self.shutdown_at = None
        self.send_faults = 0
        self.second_connection = False
        self.wall_steps = 0


def classify_exc(e):
    if isinstance(e, types.InterestNack):
        return ('nack', e.reason)
    if isinstance(e, types.InterestTimeout):
        return ('timeout', None)
    if isinstance(e, (types.InterestCanceled, asyncio.CancelledError)):
        return ('cancel', None)
    if isinstance(e, types.ValidationFailure):
        return ('valfail', e)
    return ('error', e)


def execute(sc):
    fe = sc['frontend']
    R = Run(sc)
    for d in sc['datas']:
        w = bytes(make_data(NAMES[d['name']], MetaInfo(freshness_period=(None, 0, 1000, None)[d['id'] % 4]), b'D%d' % d['id'], DigestSha256Signer()))
        R.data_wires.append(w)
        R.data_digest.append(hashlib.sha256(w).digest())
        # the same Data as another producer may encode it: integers (ContentType, SignatureType) in a wider legal width
        with rc.widened(1 + d['id'] % 3):
            R.data_wires_wide.append(rc.make_data(NAMES[d['name']], content=b'D%d' % d['id'], content_type=0, sig_type=0,
                                                  sign=lambda b: hashlib.sha256(b).digest()))

    async def main(S):
        face = RecFace()
        if fe == 'v2':
            the_app = appv2.NDNApp(face=face)
            pit = lambda: the_app._pit   # noqa
        else:
            the_app = appv1.NDNApp(face=face, keychain=KeychainDigest())
            pit = lambda: the_app._int_tree   # noqa
        main_task = asyncio.ensure_future(the_app.main_loop())
        await asyncio.sleep(0)
        if sc.get('second_connection'):
            # this is not the application object's first connection: it was connected, shut down and connected again before
            the_app.shutdown()
            await asyncio.wait_for(main_task, 5)
            main_task = asyncio.ensure_future(the_app.main_loop())
            await asyncio.sleep(0)
            R.second_connection = True
        tasks = {}
        # a second application object of the same front-end in the same process, with an Interest of the same name pending all along:
        # nothing that happens to the first application may complete or disturb it
        face2 = RecFace()
        other = appv2.NDNApp(face=face2) if fe == 'v2' else appv1.NDNApp(face=face2, keychain=KeychainDigest())
        other_main = asyncio.ensure_future(other.main_loop())
        await asyncio.sleep(0)

        vcache = {}

        def make_validator(it):
            # applications commonly pass ONE validator object for all their Interests: Interests that are equal in every argument
            # are still separate Interests
            if sc.get('shared_validators'):
                key_ = (it['verdict'], it['lat'])
                if key_ not in vcache:
                    vcache[key_] = make_validator_obj(it)
                return vcache[key_]
            return make_validator_obj(it)

        async def plain_pass(*a):
            return types.ValidResult.PASS if fe == 'v2' else True

        def nested(it):
            # re-entrancy: a validator that itself expresses an Interest on the same application (as certificate-fetching validators
            # do), for a name UNDER the one being validated; nobody answers it: it ends with a timeout 50 ms later and must not
            # disturb the Interest whose Data is being validated (nor any other)
            if not sc.get('reenter') or it['id'] >= 100:
                return
            nid_ = 5000 + len(R.nested)
            nm_ = list(NAMES[it['name']]) + [rc.comp(8, b'nested%d' % nid_)]
            t0_ = S.now_ms()
            try:
                if fe == 'v2':
                    c_ = the_app.express(nm_, plain_pass, lifetime=50, nonce=nid_)
                else:
                    c_ = the_app.express_interest(nm_, validator=plain_pass, lifetime=50, nonce=nid_)
            except Exception as ex_:   # noqa
                R.nested.append((nid_, t0_, ex_))
                return
            R.nested.append((nid_, t0_, asyncio.ensure_future(waiter(nid_, c_))))

        shared_waits = {}

        async def wait_latency(it):
            # validators of one application often wait on ONE shared awaitable (an in-flight key fetch that several validations need):
            # runs that start while it is pending join it
            if not (sc.get('coalesce') and it['id'] < 100):
                await asyncio.sleep(it['lat'] / 1000.0)
                return
            key_ = (it['lat'], S.now_ms())         # (runs that start at the same instant and need the same time: one Data, several Interests)
            fut = shared_waits.get(key_)
            if fut is None or fut.done():
                fut = shared_waits[key_] = asyncio.get_running_loop().create_future()
                asyncio.get_running_loop().call_later(it['lat'] / 1000.0, lambda f=fut: f.done() or f.set_result(None))
                fut.t0 = S.now_ms()
            await fut

        def make_validator_obj(it):
            if fe == 'v2':
                async def v(name, sig, ctx):
                    R.validator_log.append((it['id'], 'call', S.now_ms()))
                    nested(it)
                    if it['lat']:
                        await wait_latency(it)
                    R.validator_log.append((it['id'], 'ret', S.now_ms()))
                    return getattr(types.ValidResult, it['verdict'])
            else:
                async def v(name, sig):
                    R.validator_log.append((it['id'], 'call', S.now_ms()))
                    nested(it)
                    if it['lat']:
                        await asyncio.sleep(it['lat'] / 1000.0)
                    R.validator_log.append((it['id'], 'ret', S.now_ms()))
                    return it['verdict']
            # a validator is anything that, called with those arguments, returns an awaitable: an async function, a plain function or
            # lambda that forwards to one, an object with an (async or plain) __call__ - the shapes the library's own checkers have
            shape = (it['id'] + len(sc['events'])) % 4 if it['id'] < 100 else 0
            if shape == 1:
                inner1 = v
                return lambda *a: inner1(*a)
            if shape == 2:
                class AsObject:
                    def __init__(self, f):
                        self.f = f

                    async def __call__(self, *a):
                        return await self.f(*a)
                return AsObject(v)
            if shape == 3:
                class PlainCall:
                    def __init__(self, f):
                        self.validate = f

                    def __call__(self, *a):
                        return self.validate(*a)
                return PlainCall(v)
            return v

        async def waiter(iid, coro, await_from=None):
            if await_from is not None:
                await S.sleep_until_ms(await_from)
            try:
                res = await coro
                content = bytes(res[1] if fe == 'v2' else res[2])
                R.obs[iid] = ('data', int(content[1:]) if content[:1] == b'D' else content, S.now_ms())
            except BaseException as e:   # noqa
                if isinstance(e, asyncio.CancelledError) and asyncio.current_task().cancelling() == 0:
                    # a bare CancelledError came out of the await although NOBODY cancelled this task (it would end the caller's task
                    # as if it had been cancelled, past every `except Exception`): an internal error, not a cancellation
                    R.obs[iid] = ('error', RuntimeError('CancelledError raised into a task that nobody cancelled'), S.now_ms())
                    return
                k, d = classify_exc(e)
                R.obs[iid] = (k, d, S.now_ms())
                if isinstance(e, asyncio.CancelledError):
                    raise

        from ndn.encoding import InterestParam as _IP
        shared = _IP()

        def do_express(it, lifetime=None, probe_name=None):
            nm = list(NAMES[it['name']]) if probe_name is None else list(probe_name)
            kwargs = {}
            app_param = None
            # an Interest without InterestLifetime (lifetime=None): the front-end's own default applies
            LT = None if (it.get('omit_lifetime') and lifetime is None) else (lifetime or it['L'])
            if it.get('placeholder'):
                nm = nm[:1] + [rc.comp(2, bytes(32))] + nm[1:]
                app_param = b'p'
            if it.get('digest') == 'bogus':
                nm = nm + [rc.comp(1, b'\x55' * 32)]
            elif it.get('digest') is not None:
                nm = nm + [rc.comp(1, R.data_digest[it['digest'][1]])]
            n0 = len(face.sent)
            if it.get('signed_np'):
                if fe == 'v2':
                    coro = the_app.express(nm, make_validator(it), signer=DigestSha256Signer(for_interest=True),
                                           lifetime=LT, can_be_prefix=it['cbp'], must_be_fresh=it.get('mbf', False), nonce=1000 + it['id'])
                else:
                    coro = the_app.express_interest(nm, validator=make_validator(it), signer=DigestSha256Signer(for_interest=True),
                                                    lifetime=LT, can_be_prefix=it['cbp'], must_be_fresh=it.get('mbf', False), nonce=1000 + it['id'])
            elif sc.get('shared_param') and app_param is None:
                # legal API form: one InterestParam object reused (and modified) by the caller for every Interest
                shared.can_be_prefix = it['cbp']
                shared.must_be_fresh = it.get('mbf', False)
                shared.lifetime = LT
                shared.nonce = 1000 + it['id']
                if fe == 'v2':
                    coro = the_app.express(nm, make_validator(it), interest_param=shared)
                else:
                    coro = the_app.express_interest(nm, validator=make_validator(it), interest_param=shared)
            elif fe == 'v2':
                coro = the_app.express(nm, make_validator(it), app_param=app_param,
                                       signer=DigestSha256Signer(for_interest=True) if app_param is not None else None,
                                       lifetime=LT, can_be_prefix=it['cbp'], must_be_fresh=it.get('mbf', False), nonce=1000 + it['id'])
            else:
                if app_param is not None:
                    kwargs['signer'] = DigestSha256Signer(for_interest=True)
                coro = the_app.express_interest(nm, app_param=app_param, validator=make_validator(it),
                                                lifetime=LT, can_be_prefix=it['cbp'], must_be_fresh=it.get('mbf', False), nonce=1000 + it['id'],
                                                **kwargs)
            R.int_wires[it['id']] = face.sent[n0][1] if len(face.sent) > n0 else None
            return coro

        other_it = {'id': 900, 'name': 'ab', 'cbp': True, 'L': 3_600_000, 'lat': 0, 'verdict': 'PASS' if fe == 'v2' else True, 'digest': None}
        if fe == 'v2':
            other_coro = other.express(list(NAMES['ab']), make_validator(other_it), lifetime=3_600_000, can_be_prefix=True, nonce=77)
        else:
            other_coro = other.express_interest(list(NAMES['ab']), validator=make_validator(other_it), lifetime=3_600_000, can_be_prefix=True, nonce=77)
        other_task = asyncio.ensure_future(waiter(900, other_coro))
        shutdown = False
        for e in sc['events']:
            await S.sleep_until_ms(e['t'])
            k = e['kind']
            if k == 'express':
                it = sc['ints'][e['i']]
                try:
                    coro = do_express(it)
                except Exception as ex:   # noqa
                    R.express_errors[it['id']] = ex
                    continue
                tasks[it['id']] = asyncio.ensure_future(waiter(it['id'], coro, it['te'] + it['aw'] if it.get('aw') else None))
            elif k == 'wall-step':
                S.step_wall(e['secs'])
                R.wall_steps += 1
            elif k == 'express-send-fault':
                face.fail_next = {'OSError': OSError(105, 'No buffer space available'), 'RuntimeError': RuntimeError('Unable to send packet before connection'),
                                  'AttributeError': AttributeError("'NoneType' object has no attribute 'write'")}[e['exc']]
                fit = {'id': 700, 'name': e['name'], 'cbp': e['cbp'], 'L': 40, 'lat': 0, 'verdict': 'PASS' if fe == 'v2' else True, 'digest': None}
                R.send_faults += 1
                try:
                    c_ = do_express(fit)
                    # (not raising is allowed too: the Interest is then pending like any other and nobody answers it)
                    tasks[700 + R.send_faults] = asyncio.ensure_future(waiter(700 + R.send_faults, c_))
                except Exception:   # noqa
                    pass
                face.fail_next = None
            elif k == 'data':
                try:
                    dw = R.data_wires[e['d']]
                    if e.get('wide') and not any(it.get('digest') not in (None, 'bogus') for it in sc['ints']):
                        dw = R.data_wires_wide[e['d']]          # (not when an Interest names the packet by its hash)
                    await face.deliver(rc.make_lp(fragment=dw, headers=[(0x340, b'\x01')]) if e.get('lp') else dw)
                except Exception as ex:   # noqa
                    R.receive_errors.append(('data', e, ex))
            elif k == 'dataf':
                iw = R.int_wires.get(e['i'])
                if iw is None:
                    continue
                wname = rc.strict_interest(iw)['name']
                try:
                    dfw = bytes(make_data(wname, MetaInfo(), b'D%d' % (200 + e['i']), DigestSha256Signer()))
                    await face.deliver(rc.make_lp(fragment=dfw, pit_token=b'\x07') if e.get('lp') else dfw)
                except Exception as ex:   # noqa
                    R.receive_errors.append(('dataf', e, ex))
            elif k == 'nack':
                iw = R.int_wires.get(e['i'])
                if iw is None:
                    continue
                try:
                    await face.deliver(rc.make_lp(fragment=iw, nack_reason=e['reason']))
                except Exception as ex:   # noqa
                    R.receive_errors.append(('nack', e, ex))
            elif k == 'cancel':
                t = tasks.get(e['i'])
                if t is not None and not t.done():
                    t.cancel()
            elif k == 'shutdown':
                if e.get('by') == 'face':
                    face.shutdown()          # the transport ends on its own; nobody calls NDNApp.shutdown()
                elif e.get('by') == 'task':
                    main_task.cancel()       # an embedding program cancels the task that runs main_loop()
                    R.main_task_cancelled = True
                else:
                    the_app.shutdown()
                shutdown = True
                R.shutdown_at = S.now_ms() if R.shutdown_at is None else R.shutdown_at
        # let everything run out: all deadlines and validators
        horizon = max([it['te'] + it['L'] for it in sc['ints']] + [e['t'] for e in sc['events']]) + \
            max(it['lat'] for it in sc['ints']) + 50
        await S.sleep_until_ms(horizon)
        R.open = [i for i, t in tasks.items() if not t.done()]
        # every deadline has passed and every validator has returned: nothing may be pending any more (before the probe packets
        # of the next phase get a chance to sweep up what was left behind)
        R.stale_at_horizon = sum(len(node.pending_list) for node in pit().values())
        for nid_, t0_, tk_ in R.nested:
            if isinstance(tk_, BaseException):
                R.nested_obs.append((nid_, t0_, ('express-raised', tk_, t0_)))
            else:
                R.nested_obs.append((nid_, t0_, R.obs.pop(nid_, ('open', None, None))))
                if not tk_.done():
                    tk_.cancel()
        # probe phase: a fresh Interest on every name must still be satisfiable
        if not shutdown:
            base = horizon + 10
            for pi, key in enumerate(['a', 'ab', 'abc', 'ad']):
                pit_entry = {'id': 100 + pi, 'name': key, 'cbp': False, 'L': 300, 'lat': 0,
                             'verdict': 'PASS' if fe == 'v2' else True, 'digest': None}
                try:
                    coro = do_express(pit_entry)
                except Exception as ex:   # noqa
                    R.probe[key] = ('express-raised', ex)
                    continue
                tk = asyncio.ensure_future(waiter(100 + pi, coro))
                await asyncio.sleep(0.01)
                w = bytes(make_data(NAMES[key], MetaInfo(), b'D%d' % (100 + pi), DigestSha256Signer()))
                try:
                    await face.deliver(w)
                except Exception as ex:   # noqa
                    R.receive_errors.append(('probe-data', key, ex))
                await asyncio.sleep(0.5)
                R.probe[key] = R.obs.get(100 + pi, ('open', None, None))
                if not tk.done():
                    tk.cancel()
        R.other_before = R.obs.get(900)
        try:
            await face2.deliver(bytes(make_data(NAMES['abc'], MetaInfo(), b'D900', DigestSha256Signer())))
        except Exception as ex:   # noqa
            R.receive_errors.append(('other-app-data', 'abc', ex))
        await asyncio.sleep(0.05)
        R.other_after = R.obs.get(900, ('open', None, None))
        if not other_task.done():
            other_task.cancel()
        other.shutdown()
        try:
            await asyncio.wait_for(other_main, 5)
        except Exception:   # noqa
            pass
        R.obs.pop(900, None)
        R.pit_left = len(pit())
        R.stale = 0
        for node in pit().values():
            R.stale += sum(1 for en in node.pending_list)
        if not shutdown:
            the_app.shutdown()
        try:
            await asyncio.wait_for(main_task, 5)
        except asyncio.CancelledError:
            if not getattr(R, 'main_task_cancelled', False):
                raise
            # main_loop may end normally or pass the cancellation on - either way it has ended
        except Exception as ex:   # noqa
            R.main_loop_error = ex
        R.sent = list(face.sent)
        return R

    S = vtime.run(main)
    R.scen = S
    return R, S


# ------------------------------------------------------------------ judging
def judge(ctx, sc, R, S):
    fe = sc['frontend']
    w = {'scenario': sc}
    if S.result != 'ok':
        ctx.report(f'scenario-{S.result}:{fe}', f'scenario did not run to completion: {S.error!r}', w)
        return
    for kind, e, ex in R.receive_errors:
        site = raising_site(ex)
        ctx.report(f'receive-raised:{fe}:{type(ex).__name__}@{site[0]}', f'packet reception raised {ex!r} while delivering {kind}',
                   dict(w, event=e if isinstance(e, dict) else str(e)))
    for le in S.sentinel.all():
        ex = le.get('exception') or le.get('exc')
        ctx.report(f'background-error:{fe}:{type(ex).__name__ if ex else "?"}', f'unhandled error in a background task: {le.get("repr")} {le.get("message") or le.get("msg")}', w)
    for iid, ex in R.express_errors.items():
        ctx.report(f'express-raised:{fe}:{type(ex).__name__}', f'express raised {ex!r}', w)
    order = []
    for it in sc['ints']:
        if it['id'] in R.express_errors:
            continue
        exp = model_outcomes(sc, it)
        if exp == {('never-expressed', None, None)}:
            continue
        if it.get('omit_lifetime'):
            ctx.event('interest-without-lifetime')
            if fe == 'v1':
                # the legacy front-end gives up after 100 ms; the protocol's default InterestLifetime (4000 ms) would be as right
                import copy as _copy
                sc2 = _copy.deepcopy(sc)
                it2 = next(x for x in sc2['ints'] if x['id'] == it['id'])
                it2['L'] = 4000
                exp = set(exp) | set(model_outcomes(sc2, it2))
        got = R.obs.get(it['id'])
        if got is None:
            got = ('open', None, None)
        gk, gd, gt = got
        if gk == 'valfail':
            e = gd
            ver = getattr(e, 'result', None)
            gd = getattr(ver, 'name', repr(type(ver).__name__)) if fe == 'v2' and ver is not None else it['verdict']
            if fe == 'v2' and (getattr(e, 'name', None) is None or getattr(e, 'result', None) is None):
                ctx.report('validation-failure-incomplete', 'ValidationFailure lacks packet or verdict', w)
        order.append((gk, it['id']))
        ok = False
        for (k, d, t) in exp:
            if k != gk:
                continue
            if k in ('data', 'nack', 'valfail') and d != gd:
                continue
            if t is not None and gt is not None and abs(t - gt) > TOL:
                continue
            ok = True
            break
        if it.get('placeholder') and not ok:
            mech = f'placeholder-final-name:{fe}'
        elif not ok and ambiguous_nack(sc, it) and gk == 'nack':
            ctx.event('ambiguous-nack-sibling')
            continue
        else:
            mech = None
        if not ok:
            ek = sorted({k for (k, d, t) in exp})
            gdesc = gk if gk != 'error' else f'error:{type(gd).__name__}'
            if mech is None:
                timing = any(k == gk and (d == gd or k not in ('data', 'nack', 'valfail')) for (k, d, t) in exp)
                mech = f'outcome:{fe}:expected={"|".join(ek)},got={gdesc}' + (':wrong-time' if timing else '')
            ctx.report(mech, f'Interest {it["id"]} ended with {gdesc}@{gt}, acceptable: {sorted(map(str, exp))}',
                       dict(w, interest=it, observed=(gk, str(gd), gt)))
    if getattr(R, 'open', None):
        pass   # reported through outcome 'open'
    if R.send_faults:
        ctx.event('express-with-a-transport-fault-in-send')
    if R.wall_steps:
        ctx.event('wall-clock-stepped-while-interests-are-pending')
    if R.second_connection:
        ctx.event('history-on-the-second-connection-of-the-application-object')
    for nid_, t0_, (nk, nd, nt) in R.nested_obs:
        ctx.event('interest-expressed-from-inside-a-validator')
        sd = R.shutdown_at
        if sd is not None and sd <= t0_ + 51:
            ok_ = nk in ('cancel', 'timeout', 'express-raised', 'error') or (nk == 'open' and False)
        else:
            ok_ = nk == 'timeout' and nt is not None and abs(nt - (t0_ + 50)) <= TOL
        if not ok_:
            ctx.report(f'nested-interest-outcome:{fe}:{nk}' + (f':{type(nd).__name__}' if isinstance(nd, BaseException) else ''),
                       f'an unanswered Interest expressed from inside a validator at {t0_} ms (lifetime 50) ended with {nk}@{nt}', w)
    for key, res in R.probe.items():
        if res[0] != 'data':
            d = res[1]
            ctx.report(f'probe-failed:{fe}:{res[0]}' + (f':{type(d).__name__}' if isinstance(d, BaseException) else ''),
                       f'after the history a fresh Interest for /{key} could not be satisfied: {res!r}', w)
    ob, oa = getattr(R, 'other_before', None), getattr(R, 'other_after', ('open', None, None))
    if ob is not None:
        ctx.report(f'other-application-affected:{fe}', f'an Interest pending in ANOTHER application object of the process finished ({ob[0]}) by events of this one', w)
    elif oa[0] != 'data':
        ctx.report(f'other-application-broken:{fe}', f'after the history an Interest pending in another application object of the process could not be satisfied: {oa!r}', w)
    else:
        ctx.event('other-application-unaffected')
    if getattr(R, 'stale_at_horizon', 0):
        ctx.report(f'pit-not-empty-after-all-deadlines:{fe}' + (':send-fault' if R.send_faults else ''),
                   f'{R.stale_at_horizon} entries are still pending after every deadline has passed and every validator has returned'
                   + (' (an express call had failed in send())' if R.send_faults else ''), w)
    if R.stale:
        ctx.report(f'pit-not-empty-at-quiescence:{fe}', f'{R.stale} pending entries (in {R.pit_left} table nodes) remain after every Interest finished', w)
    elif R.pit_left:
        ctx.event('observation:empty-table-nodes-left')       # empty nodes hold nothing pending
    if hasattr(R, 'main_loop_error'):
        ctx.report(f'main-loop-error:{fe}:{type(R.main_loop_error).__name__}', f'main_loop ended with {R.main_loop_error!r}', w)
    # interleaving signature
    sig = (fe, tuple((e['kind'], e.get('i', e.get('d'))) for e in sc['events']), tuple(sorted(order)),
           tuple(sorted((i, R.obs[i][2]) for i in R.obs if i < 100)))
    overlap = sum(1 for a in sc['ints'] for b in sc['ints'] if a['id'] < b['id'] and a['te'] < b['te'] + b['L'] and b['te'] < a['te'] + a['L'])
    ctx.case(sig, nontrivial=overlap > 0, sample=sc if ctx.evaluations % 400 == 3 else None)
    for gk, _ in order:
        ctx.event('outcome-' + gk)
    if any(e.get('wide') for e in sc['events']):
        ctx.event('data-with-wide-integers')
    for it in sc['ints']:
        if it.get('aw'):
            ctx.event('awaited-later-than-expressed')
        if it.get('signed_np'):
            ctx.event('signed-interest-without-parameters')
    ctx.event('validator-calls', sum(1 for x in R.validator_log if x[1] == 'call'))


def template_scenarios(rng, fe):
    """Skeletons of the interleavings where bookkeeping is known to be delicate, randomly parameterised."""
    ok = 'PASS' if fe == 'v2' else True
    bad = 'FAIL' if fe == 'v2' else False

    def I(i, name, te=0, L=100, lat=0, verdict=None, cbp=False, digest=None, aw=0):
        return {'id': i, 'name': name, 'cbp': cbp, 'L': L, 'te': te, 'lat': lat, 'verdict': ok if verdict is None else verdict,
                'digest': digest, 'placeholder': False, 'aw': aw}

    def sc(ints, datas, extra):
        evs = [{'t': it['te'], 'kind': 'express', 'i': it['id']} for it in ints] + extra
        evs.sort(key=lambda e: e['t'])
        return {'frontend': fe, 'ints': ints, 'datas': datas, 'events': evs, 'shared_validators': rng.random() < 0.6, 'coalesce': fe == 'v2'}
    L = rng.choice([50, 100, 200])
    d = rng.choice([1, 5, L // 2, L - 1])
    out = []
    # T1/T2: two Interests on one name, one cancelled, then a Nack / Data for that name
    for kind in ('nack', 'data'):
        ev = [{'t': d, 'kind': 'cancel', 'i': rng.choice([0, 1])}]
        ev.append({'t': d + rng.choice([0, 1, 10]), 'kind': 'nack', 'i': 0, 'reason': 150} if kind == 'nack' else {'t': d + rng.choice([0, 1, 10]), 'kind': 'data', 'd': 0})
        out.append(('cancel-then-' + kind, sc([I(0, 'ab', L=L), I(1, 'ab', L=L + rng.choice([0, 50]))], [{'id': 0, 'name': 'ab'}], ev)))
    # T2a: lifetimes beyond the 16-bit (and 21-bit) range of milliseconds (below the hour the bystander application's Interest lives): Data late inside the lifetime counts, silence ends at the deadline
    for Lbig in (65535, 65536, 70000, 120000, 2_100_000):
        out.append(('long-lifetime-data-late', sc([I(0, 'ab', L=Lbig)], [{'id': 0, 'name': 'ab'}],
                                                 [{'t': Lbig - rng.choice([1, 7, 400]), 'kind': 'data', 'd': 0}])))
        out.append(('long-lifetime-silence', sc([I(0, 'ab', L=Lbig), I(1, 'abc', te=3, L=Lbig + 10)], [{'id': 0, 'name': 'abc'}],
                                               [{'t': Lbig + 5, 'kind': 'data', 'd': 0}])))
    # T2b: two Interests equal in every argument; the one expressed later ends first (shorter lifetime / cancelled): the other lives on
    out.append(('equal-interests-second-ends-first', sc([I(0, 'ab', L=L * 4), I(1, 'ab', te=5, L=L)], [{'id': 0, 'name': 'ab'}],
                                                        [{'t': L * 2, 'kind': 'data', 'd': 0}])))
    out.append(('equal-interests-second-cancelled', sc([I(0, 'ab', L=L * 4), I(1, 'ab', te=5, L=L * 3)], [{'id': 0, 'name': 'ab'}],
                                                       [{'t': 5 + d, 'kind': 'cancel', 'i': 1}, {'t': L * 2, 'kind': 'data', 'd': 0}])))
    # T3: Data claimed, validator outlives the lifetime, the same name is expressed again meanwhile
    te2 = d + rng.choice([1, L // 2])
    out.append(('reexpress-while-validating', sc([I(0, 'ab', L=L, lat=L * 3), I(1, 'ab', te=te2, L=L * 4)], [{'id': 0, 'name': 'ab'}],
                                                 [{'t': d, 'kind': 'data', 'd': 0}, {'t': L + rng.choice([1, 20]), 'kind': 'data', 'd': 0}])))
    # T4: Data / Nack / cancel exactly at the deadline
    for kind in ('data', 'nack', 'cancel'):
        e = {'t': L, 'kind': kind}
        e.update({'d': 0} if kind == 'data' else {'i': 0, 'reason': 50} if kind == 'nack' else {'i': 0})
        out.append(('tie-' + kind + '-at-deadline', sc([I(0, 'abc', L=L), I(1, 'abc', L=L * 2)], [{'id': 0, 'name': 'abc'}], [e])))
    # T5: one Data satisfies nested CanBePrefix Interests and an exact one, but not a sibling
    out.append(('one-data-many-interests', sc([I(0, 'a', L=L, cbp=True), I(1, 'ab', L=L, cbp=True), I(2, 'abc', L=L), I(3, 'ad', L=L), I(4, 'ab', L=L)],
                                              [{'id': 0, 'name': 'abc'}], [{'t': d, 'kind': 'data', 'd': 0}])))
    # T6: shutdown with pending and validating Interests (by the application / the face going down by itself)
    out.append(('shutdown-mixed', sc([I(0, 'ab', L=L * 4, lat=L * 2), I(1, 'ad', L=L * 4), I(2, 'a', L=L * 4, cbp=True)], [{'id': 0, 'name': 'ab'}],
                                     [{'t': d, 'kind': 'data', 'd': 0}, {'t': d + 5, 'kind': 'shutdown', 'by': rng.choice(['app', 'face', 'task'])}])))
    out.append(('face-lost', sc([I(0, 'ab', L=L * 4), I(1, 'ad', L=L * 6), I(2, 'ab', L=L * 5)], [{'id': 0, 'name': 'ab'}], [{'t': d, 'kind': 'shutdown', 'by': 'face'}])))
    out.append(('main-task-cancelled', sc([I(0, 'ab', L=L * 4), I(1, 'ad', L=L * 6), I(2, 'ab', L=L * 5)], [{'id': 0, 'name': 'ab'}], [{'t': d, 'kind': 'shutdown', 'by': 'task'}])))
    # T10: the returned coroutine is first awaited after the lifetime is over: what arrived in time still counts
    late = L + rng.choice([1, 5, 60])
    out.append(('late-await-data', sc([I(0, 'ab', L=L, aw=late), I(1, 'ab', L=L)], [{'id': 0, 'name': 'ab'}], [{'t': d, 'kind': 'data', 'd': 0}])))
    out.append(('late-await-nothing', sc([I(0, 'ab', L=L, aw=late), I(1, 'abc', L=L * 3)], [{'id': 0, 'name': 'abc'}], [{'t': L + late + 5, 'kind': 'data', 'd': 0}])))
    out.append(('late-await-nack', sc([I(0, 'ad', L=L, aw=late), I(1, 'ab', L=L)], [{'id': 0, 'name': 'ab'}], [{'t': d, 'kind': 'nack', 'i': 0, 'reason': 100}])))
    # T7: Nack for a name that is only a prefix of / longer than a pending name
    out.append(('nack-for-prefix-of-pending', sc([I(0, 'abc', L=L), I(1, 'a', L=L * 2)], [{'id': 0, 'name': 'abc'}],
                                                 [{'t': d, 'kind': 'nack', 'i': 1, 'reason': 100}, {'t': d + 1, 'kind': 'data', 'd': 0}])))
    # T8: validator verdicts differ between Interests satisfied by one Data
    out.append(('verdicts-differ', sc([I(0, 'ab', L=L, verdict=ok), I(1, 'ab', L=L, verdict=bad, lat=rng.choice([0, 3])), I(2, 'ab', L=L, verdict=ok, lat=5)],
                                      [{'id': 0, 'name': 'ab'}], [{'t': d, 'kind': 'data', 'd': 0}])))
    # T8b: one Data satisfies two Interests whose validations need the same time (and, in the current front-end, wait on ONE shared
    # awaitable); the first Interest's lifetime ends while both are being validated - the second one's validation goes on
    out.append(('shared-validation-outlives-one-interest', sc([I(0, 'ab', L=60, verdict=ok, lat=150), I(1, 'ab', L=1000, verdict=ok, lat=150)],
                                                              [{'id': 0, 'name': 'ab'}], [{'t': 10, 'kind': 'data', 'd': 0}])))
    out.append(('shared-validation-one-caller-gives-up', sc([I(0, 'ab', L=1000, verdict=ok, lat=150), I(1, 'ab', L=1000, verdict=ok, lat=150)],
                                                            [{'id': 0, 'name': 'ab'}], [{'t': 10, 'kind': 'data', 'd': 0}, {'t': 50, 'kind': 'cancel', 'i': 0}])))
    # T9: implicit digest: only the Interest carrying the digest of that very Data is satisfied
    out.append(('implicit-digest', sc([I(0, 'ab', L=L, digest=('of', 0)), I(1, 'ab', L=L, digest='bogus'), I(2, 'ab', L=L, digest=('of', 1))],
                                      [{'id': 0, 'name': 'ab'}, {'id': 1, 'name': 'ab'}], [{'t': d, 'kind': 'data', 'd': 1}, {'t': d + 2, 'kind': 'data', 'd': 0}])))
    return out


def exhaustive_space():
    """All orderings of <=4 extra events over 2 Interests on same/nested names (bounded-exhaustive)."""
    out = []
    for fe in ('v2', 'v1'):
        for n1, n2 in (('ab', 'ab'), ('a', 'ab')):
            for cbp in (False, True):
                ints = [{'id': 0, 'name': n1, 'cbp': cbp, 'L': 100, 'te': 0, 'lat': 0, 'verdict': 'PASS' if fe == 'v2' else True, 'digest': None, 'placeholder': False},
                        {'id': 1, 'name': n2, 'cbp': False, 'L': 100, 'te': 0, 'lat': 0, 'verdict': 'PASS' if fe == 'v2' else True, 'digest': None, 'placeholder': False}]
                pool = [{'kind': 'data', 'd': 0}, {'kind': 'nack', 'i': 0, 'reason': 150}, {'kind': 'nack', 'i': 1, 'reason': 50},
                        {'kind': 'cancel', 'i': 0}, {'kind': 'cancel', 'i': 1}]
                for r in (1, 2, 3):
                    for combo in itertools.permutations(pool, r):
                        evs = [{'t': 0, 'kind': 'express', 'i': 0}, {'t': 0, 'kind': 'express', 'i': 1}]
                        for j, c in enumerate(combo):
                            evs.append(dict(c, t=10 * (j + 1)))
                        out.append({'frontend': fe, 'ints': [dict(x) for x in ints], 'datas': [{'id': 0, 'name': 'ab'}], 'events': evs})
    return out


def run(ctx):
    ctx.rule = RULE
    rng = ctx.rng
    n = ctx.n(1300, 350000)
    for i in range(n):
        sc = gen_scenario(rng, 'v2' if i % 2 == 0 else 'v1')
        R, S = execute(sc)
        judge(ctx, sc, R, S)
    for i in range(ctx.n(60, 6000)):
        fe = 'v2' if i % 2 == 0 else 'v1'
        for label, sc in template_scenarios(rng, fe):
            R, S = execute(sc)
            judge(ctx, sc, R, S)
            ctx.klass('template:' + label)
    if not ctx.quick:
        space = exhaustive_space()
        mine = [s for j, s in enumerate(space) if j % ctx.nshards == ctx.shard]
        for sc in mine:
            R, S = execute(sc)
            judge(ctx, sc, R, S)
        ctx.extra['exhaustive_subspace'] = f'all ordered selections of 1..3 events from 5 (Data, 2 Nacks, 2 cancels) over 2 Interests x 2 name pairs x CanBePrefix x 2 front-ends: {len(space)} scenarios'
    for lab in ('equal-interests-second-ends-first', 'equal-interests-second-cancelled', 'face-lost', 'late-await-data', 'late-await-nothing', 'late-await-nack', 'cancel-then-nack', 'cancel-then-data', 'reexpress-while-validating', 'tie-data-at-deadline', 'one-data-many-interests',
                'shutdown-mixed', 'nack-for-prefix-of-pending', 'verdicts-differ', 'implicit-digest'):
        ctx.need_class('template:' + lab)
    for k in ('outcome-data', 'outcome-timeout', 'outcome-nack', 'outcome-cancel', 'outcome-valfail', 'validator-calls', 'awaited-later-than-expressed', 'other-application-unaffected', 'signed-interest-without-parameters', 'data-with-wide-integers',
              'interest-expressed-from-inside-a-validator', 'express-with-a-transport-fault-in-send', 'wall-clock-stepped-while-interests-are-pending', 'history-on-the-second-connection-of-the-application-object'):
        ctx.need_event(k)
    ctx.assumptions = ['exact ties (packet / validator completion / deadline in the same millisecond) accept either order',
                       'Data arrived in time but validator slower than the deadline: Data/ValidationFailure at validator completion or timeout at the deadline are both accepted here (C05 decides that clause)',
                       'a Nack whose Interest shares its table node with an Interest of a different full name is ambiguous and not judged for the sibling']
