"""C04 - incoming Interests reach exactly the handler of their longest registered prefix;
attach/detach; reply deadline.

Oracle: dict model prefix -> handler id with longest-prefix match by component count; reply is
sent iff now <= arrival + lifetime, the face output grows by exactly the reply, and the truthiness
of the callback's return value equals "was sent".
"""
import asyncio
import itertools

from . import gen, vtime, refcodec as rc
from .boundary import RecFace
from .common import raising_site

from ndn import appv2, app as appv1, types
from ndn.app_support.dispatcher import Dispatcher
from ndn.encoding import make_interest, make_data, InterestParam, MetaInfo, parse_interest
from ndn.security import KeychainDigest, DigestSha256Signer

RULE = ('histories of attach / duplicate attach / detach / incoming Interest over a 4-level name tree (incl. the root '
        'prefix, sibling and nested prefixes, component-boundary near misses), each attach in a randomly chosen '
        'representation (URI, list of str, list of bytes/bytearray/memoryview, encoded name), on appv2, legacy app and '
        'Dispatcher; exhaustive over all subsets of an 8-prefix tree x 16 Interest names; reply times at deadline '
        '-1/0/+1 ms; distinct = (target, attached set, Interest name) resp. (reply offset, lifetime); non-trivial = at '
        'least two prefixes attached or a reply judged; legacy attachments pick their own delivery options; v2 histories '
        'also end the connection and reconnect the same application object')

C = lambda s: rc.comp(8, s)   # noqa
PREFIXES = [(), (C(b'a'),), (C(b'a'), C(b'b')), (C(b'a'), C(b'b'), C(b'c')), (C(b'a'), C(b'd')), (C(b'e'),),
            (C(b'a'), C(b'bb')), (C(b'a'), C(b'b'), C(b'c'), C(b'g'))]
INT_NAMES = PREFIXES + [(C(b'a'), C(b'b'), C(b'x')), (C(b'a'), C(b'b'), C(b'c'), C(b'g'), C(b'h')), (C(b'ab'),),
                        (C(b'z'),), (C(b'e'), C(b'f')), (C(b'a'), rc.comp(32, b'b')), (C(b'a'), C(b'd'), rc.comp(1, bytes(32))),
                        (C(b'a'), C(b''))]
INT_NAMES = [n for n in INT_NAMES if n]     # an Interest needs at least one component
# prefixes with a zero-length component (documented: '' in a component list, '//' in a URI), used by the random histories
EMPTY_COMP_PREFIXES = [(C(b'a'), C(b'')), (C(b'a'), C(b''), C(b's')), (C(b''),)]
LONG = {n: C(bytes([65 + n % 26]) * n) for n in (252, 253, 254, 255, 256)}
LONG_COMP_PREFIXES = [(C(b'a'), LONG[n]) for n in LONG] + [(LONG[253],), (C(b'a'), LONG[254], C(b's'))]
LONG_COMP_NAMES = [(C(b'a'), LONG[n], C(b'x')) for n in LONG] + [(LONG[253], C(b'q')), (C(b'a'), LONG[254], C(b's'), C(b'y')), (C(b'a'), LONG[255])]
# prefixes that END in an implicit-digest component (an application that serves "by full name"), a generic component with the
# same 32 octets beside it; Interests with exactly those names, longer ones and the names without the last component
DG = rc.comp(1, bytes(range(32)))
DG_GENERIC = C(bytes(range(32)))
DIGEST_PREFIXES = [(C(b'a'), C(b'b'), DG), (C(b'a'), DG), (C(b'a'), C(b'b'), DG_GENERIC), (DG,)]
DIGEST_NAMES = [(C(b'a'), C(b'b'), DG), (C(b'a'), DG), (C(b'a'), C(b'b'), DG_GENERIC), (DG,), (C(b'a'), C(b'b'), DG, C(b'x')),
                (C(b'a'), C(b'b'), rc.comp(1, bytes(32))), (C(b'e'), DG)]
EMPTY_COMP_NAMES = [(C(b'a'), C(b''), C(b's'), C(b'x')), (C(b'a'), C(b's'), C(b'x')), (C(b'a'), C(b''), C(b'y')), (C(b''), C(b'q')), (C(b'a'), C(b's'))]


def lpm(attached, name):
    for k in range(len(name), -1, -1):
        if tuple(name[:k]) in attached:
            return attached[tuple(name[:k])]
    return None


def scribble(form):
    """The caller reuses the buffers it passed in (legal: the call has returned)."""
    items = form if isinstance(form, list) else [form]
    for x in items:
        if isinstance(x, memoryview) and not x.readonly:
            x[:] = bytes(len(x))
        elif isinstance(x, bytearray):
            x[:] = bytes(len(x))


def form_of(rng, comps):
    k = rng.randrange(11)
    if k == 9:
        return iter([bytes(c) for c in comps]), 'iterator'
    if k == 10:
        return (rc.comp_to_canonical_uri(c) if i % 2 else bytes(c) for i, c in enumerate(list(comps))), 'generator'
    if k == 7:
        return bytearray(rc.enc_name(list(comps))), 'encoded-bytearray'
    if k == 8:
        return memoryview(bytearray(rc.enc_name(list(comps)))), 'encoded-memoryview' 
    comps = list(comps)
    if k == 0:
        return rc.name_to_uri(comps, canonical=True), 'uri'
    if k == 1:
        return [rc.comp_to_canonical_uri(c) for c in comps], 'list-str'
    if k == 2:
        return [bytes(c) for c in comps], 'list-bytes'
    if k == 3:
        return [bytearray(c) for c in comps], 'list-bytearray'
    if k == 4:
        return [memoryview(bytes(c)) if rng.random() < 0.5 else memoryview(bytearray(c)) for c in comps], 'list-memoryview'
    if k == 5:
        return rc.enc_name(comps), 'encoded'
    return [rc.comp_to_canonical_uri(c) if rng.random() < 0.5 else bytearray(c) for c in comps], 'mixed'


class FalsyCallable(dict):
    """A legal handler object (any callable is) whose truth value is False: a container that is also the handler, while it is empty."""
    def __init__(self, fn):
        super().__init__()
        self.fn = fn

    def __call__(self, *a, **kw):
        return self.fn(*a, **kw)


class HandlerFault(RuntimeError):
    pass


class Target:
    """Uniform driver over the three dispatch front-ends."""
    def __init__(self, kind, log):
        self.kind = kind
        self.log = log
        self.raise_next = False
        self.falsy_next = False
        self.face = None
        self.app = None

    async def start(self):
        if self.kind == 'dispatcher':
            self.d = Dispatcher()
            return
        self.face = RecFace()
        if self.kind == 'v2':
            self.app = appv2.NDNApp(face=self.face)
        else:
            self.app = appv1.NDNApp(face=self.face, keychain=KeychainDigest())
        self.main = asyncio.ensure_future(self.app.main_loop())
        await asyncio.sleep(0)

    async def register_bare(self, form, S, ctx, rng):
        """Announce a prefix to the forwarder without attaching a handler (register(name) with no callback): a scripted
        forwarder answers 200.  No handler is attached by this."""
        from .c17 import Forwarder
        if getattr(self, 'fw', None) is None:
            self.fw = Forwarder(self.face, self.kind, ['200'], ctx, rng, S)
        return await asyncio.wait_for(self.app.register(form) if self.kind == 'v2' else self.app.register(form, None), 30)

    async def register_bare_given_up(self, form, S, ctx, rng):
        """The application gives an announcement up (asyncio.wait_for expires while the forwarder stays silent): attaching and detaching
        handlers is not what register(name) without a handler does - given up or not."""
        from .c17 import Forwarder
        if getattr(self, 'fw', None) is None:
            self.fw = Forwarder(self.face, self.kind, ['200'], ctx, rng, S)
        self.fw.script = ['silence']
        try:
            await asyncio.wait_for(self.app.register(form) if self.kind == 'v2' else self.app.register(form, None), 0.003)
        except BaseException as e:   # noqa
            if isinstance(e, asyncio.CancelledError) and not isinstance(e, asyncio.TimeoutError):
                pass
        finally:
            self.fw.script = ['200']
        await asyncio.sleep(1.1)        # (the abandoned command has run out)

    async def unregister_bare(self, form, S, ctx, rng):
        """Current front-end: unregister(prefix) only withdraws the route at the forwarder; the handler stays attached (Interests
        may still arrive through a shorter registered prefix or after a later register())."""
        from .c17 import Forwarder
        if getattr(self, 'fw', None) is None:
            self.fw = Forwarder(self.face, self.kind, ['200'], ctx, rng, S)
        return await asyncio.wait_for(self.app.unregister(form), 30)

    async def detach_by_unregister(self, form, S, ctx, rng, answer):
        """Legacy front-end: unregister(prefix) withdraws the route AND detaches the handler; the scripted forwarder answers the
        command with 200, an error status, a Nack, rubbish or not at all."""
        from .c17 import Forwarder
        if getattr(self, 'fw', None) is None:
            self.fw = Forwarder(self.face, self.kind, ['200'], ctx, rng, S)
        self.fw.script = [answer]
        try:
            return await asyncio.wait_for(self.app.unregister(form), 30)
        finally:
            self.fw.script = ['200']

    async def stop(self):
        if self.app is not None:
            self.app.shutdown()
            await asyncio.wait_for(self.main, 5)

    def fault(self):
        if self.raise_next:
            self.raise_next = False
            raise HandlerFault('the application handler fails on this Interest')

    def handler(self, hid, opts=(False, False)):
        h = self._handler(hid, opts)
        if self.falsy_next:
            self.falsy_next = False
            return FalsyCallable(h)
        return h

    def _handler(self, hid, opts=(False, False)):
        if self.kind == 'v2':
            def h(name, app_param, reply, context):
                self.log.append((hid, tuple(bytes(c) for c in name), reply, context))
                self.fault()
        elif opts == (True, True):
            # legacy handlers have exactly the signature their delivery options ask for (as documented): a handler
            # invoked with another handler's options fails with TypeError and has then not received the Interest
            def h(name, param, app_param, *, raw_packet, sig_ptrs):
                self.log.append((hid, tuple(bytes(c) for c in name), None, {'raw_packet': bytes(raw_packet), 'sig_ptrs': sig_ptrs}))
                self.fault()
        elif opts == (True, False):
            def h(name, param, app_param, *, raw_packet):
                self.log.append((hid, tuple(bytes(c) for c in name), None, {'raw_packet': bytes(raw_packet)}))
                self.fault()
        elif opts == (False, True):
            def h(name, param, app_param, *, sig_ptrs):
                self.log.append((hid, tuple(bytes(c) for c in name), None, {'sig_ptrs': sig_ptrs}))
                self.fault()
        else:
            def h(name, param, app_param):
                self.log.append((hid, tuple(bytes(c) for c in name), None, None))
                self.fault()
        return h

    def attach(self, form, hid, opts=(False, False), with_validator=True):
        if self.kind == 'v2':
            async def accept(n, s_, c):
                return types.ValidResult.PASS
            if with_validator:
                self.app.attach_handler(form, self.handler(hid), accept)      # (parameterised Interests need an accepting validator)
            else:
                # documented: without a validator, Interests that need validating (signed / parameterised) are dropped - they reach nobody
                self.app.attach_handler(form, self.handler(hid))
        elif self.kind == 'v1':
            self.app.set_interest_filter(form, self.handler(hid, opts), need_raw_packet=opts[0], need_sig_ptrs=opts[1])
        else:
            self.d.register(form, self.handler(hid))

    async def reconnect(self):
        """End the connection (main_loop returns) and connect the same application object again."""
        self.app.shutdown()
        await asyncio.wait_for(self.main, 5)
        self.main = asyncio.ensure_future(self.app.main_loop())
        await asyncio.sleep(0)

    def detach(self, form):
        if self.kind == 'v2':
            self.app.detach_handler(form)
        elif self.kind == 'v1':
            self.app.unset_interest_filter(form)
        else:
            self.d.unregister(form)

    async def interest(self, name, lifetime=None, nonce=3, param_at=None, cbp=False, hop_limit=None):
        # CanBePrefix, HopLimit (0 included: a forwarder hands an Interest whose hop count is used up to LOCAL applications all the
        # same) are no inputs of dispatching
        if param_at is None:
            wire = bytes(make_interest(list(name), InterestParam(lifetime=lifetime, nonce=nonce, can_be_prefix=cbp, hop_limit=hop_limit)))
        else:
            # a parameterised Interest whose digest component stands at position param_at of the name (not necessarily last)
            comps = list(name)
            comps.insert(min(param_at, len(comps)), rc.comp(2, bytes(32)))
            wire = bytes(make_interest(comps, InterestParam(lifetime=lifetime, nonce=nonce, can_be_prefix=cbp, hop_limit=hop_limit), b'prm'))
        self.last_wire = wire
        self.last_name = tuple(rc.strict_interest(wire)['name'])
        if self.kind == 'dispatcher':
            n, p, a, s = parse_interest(wire)
            return self.d.dispatch(n, p, a)
        await self.face.deliver(wire)
        for _ in range(3):
            await asyncio.sleep(0)
        return None


def run_history(ctx, rng, kind, ops, label):
    log = []
    res = {'viol': []}

    async def main(S):
        T = Target(kind, log)
        await T.start()
        attached = {}
        hopts = {}
        noval = set()
        hid_seq = [0]
        for op in ops:
            w = {'target': kind, 'op': [op[0]] + [[c.hex() for c in op[1]]] + list(op[2:]), 'attached': [[c.hex() for c in k] for k in attached]}
            if op[0] == 'attach':
                pre = tuple(op[1])
                form, fl = form_of(rng, pre)
                w['form'] = fl
                hid_seq[0] += 1
                hid = hid_seq[0]
                # legacy front-end: every attachment picks its own delivery options (raw packet / signature pointers)
                opts = (rng.random() < 0.4, rng.random() < 0.4) if kind == 'v1' else (False, False)
                w['options'] = list(opts)
                with_val = not (kind == 'v2' and rng.random() < 0.3)
                w['validator'] = with_val
                if rng.random() < 0.2:
                    T.falsy_next = True         # the handler is a callable OBJECT whose truth value is False
                    w['handler_object'] = 'callable, falsy'
                    ctx.event('attach-of-a-falsy-callable-object')
                try:
                    T.attach(form, hid, opts, with_val)
                    raised = None
                    scribble(form)
                    ctx.event('caller-buffers-reused-after-attach')
                except Exception as e:   # noqa
                    raised = e
                if pre in attached:
                    ctx.event('duplicate-attach')
                    if raised is None:
                        res['viol'].append((f'duplicate-attach-accepted:{kind}', 'a second handler was attached to an occupied prefix', w))
                        attached[pre] = hid
                else:
                    if raised is not None:
                        res['viol'].append((f'attach-raises:{kind}:{type(raised).__name__}:{fl}', f'attaching a free prefix raised {raised!r}', w))
                    else:
                        attached[pre] = hid
                        hopts[hid] = opts
                        if not with_val:
                            noval.add(hid)
                            ctx.event('attach-without-validator')
                        ctx.event('attach')
                        if any(opts):
                            ctx.event('attach-with-delivery-options')
            elif op[0] == 'register-bare':
                form, fl = form_of(rng, tuple(op[1]))
                w['form'] = fl
                try:
                    ok = await T.register_bare(form, S, ctx, rng)
                    ctx.event('register-without-handler')
                    if tuple(op[1]) not in attached:
                        ctx.event('register-without-handler-on-free-prefix')
                    if not ok:
                        ctx.event('observation:bare-register-returned-false')
                except Exception as e:   # noqa
                    res['viol'].append((f'bare-register-raises:{kind}:{type(e).__name__}', f'register() without a handler raised {e!r}', w))
            elif op[0] == 'attach-async-handler':
                pre = tuple(op[1])
                if pre in attached or kind != 'v2':
                    continue
                form, fl = form_of(rng, pre)
                w['form'] = fl

                async def coro_handler(name, app_param, reply, context):
                    return None
                try:
                    T.app.attach_handler(form, coro_handler)
                    # accepted: take it off again (an async handler is never awaited by the library - nothing to observe through it)
                    T.app.detach_handler(form_of(rng, pre)[0])
                    ctx.event('async-handler-attached-and-detached')
                except Exception:   # noqa
                    ctx.event('async-handler-refused')      # refused: then nothing is attached there - and nothing else has changed
            elif op[0] == 'register-bare-given-up':
                form, fl = form_of(rng, tuple(op[1]))
                w['form'] = fl
                try:
                    await T.register_bare_given_up(form, S, ctx, rng)
                    ctx.event('announcement-given-up-by-the-application')
                    if tuple(op[1]) in attached:
                        ctx.event('announcement-given-up-for-a-prefix-that-has-a-handler')
                except Exception as e:   # noqa
                    res['viol'].append((f'bare-register-raises:{kind}:{type(e).__name__}:given-up', f'{e!r}', w))
            elif op[0] == 'unregister-bare':
                form, fl = form_of(rng, tuple(op[1]))
                w['form'] = fl
                try:
                    await T.unregister_bare(form, S, ctx, rng)
                    ctx.event('route-withdrawn-handler-kept' if tuple(op[1]) in attached else 'route-withdrawn-without-handler')
                except Exception as e:   # noqa
                    res['viol'].append((f'bare-unregister-raises:{kind}:{type(e).__name__}', f'unregister() raised {e!r}', w))
            elif op[0] == 'reconnect':
                # the current front-end documents that handler associations survive the end of a connection; the legacy
                # one clears its table by design, which the statement does not speak about: only v2 histories reconnect
                try:
                    await T.reconnect()
                    ctx.event('reconnect')
                    if attached:
                        ctx.event('reconnect-with-handlers-attached')
                except Exception as e:   # noqa
                    res['viol'].append((f'reconnect-raises:{kind}:{type(e).__name__}', f'reconnecting raised {e!r}', w))
            elif op[0] == 'detach':
                pre = tuple(op[1])
                if pre not in attached:
                    continue
                form, fl = form_of(rng, pre)
                w['form'] = fl
                try:
                    if kind == 'v1' and len(op) > 2 and pre:
                        ok = await T.detach_by_unregister(form, S, ctx, rng, op[2])
                        w['forwarder_answer'] = op[2]
                        ctx.event('detach-by-unregister')
                        ctx.event('detach-by-unregister-command-' + ('succeeded' if ok else 'failed'))
                    else:
                        T.detach(form)
                    scribble(form)
                    del attached[pre]
                    ctx.event('detach')
                except Exception as e:   # noqa
                    res['viol'].append((f'detach-raises:{kind}:{type(e).__name__}:{fl}', f'detaching an attached prefix raised {e!r}', w))
                    del attached[pre]
            elif op[0] in ('interest', 'interest-handler-raises'):
                name = tuple(op[1])
                n0 = len(log)
                nerr = len(S.sentinel.all())
                faulty = op[0] == 'interest-handler-raises'
                if faulty:
                    # the handler that receives this Interest raises (its own business) - the Interest has still reached exactly that
                    # handler, and every later Interest is dispatched as before
                    T.raise_next = True
                    w['handler_raises'] = True
                param_at = rng.choice([None, None, None, 0, 1, 2, 9])
                try:
                    cbp = rng.random() < 0.35
                    hop = rng.choice([None, None, None, 0, 0, 1, 255])
                    w['can_be_prefix'], w['hop_limit'] = cbp, hop
                    if cbp:
                        ctx.event('interest-with-can-be-prefix')
                    if hop == 0:
                        ctx.event('interest-with-hop-limit-0')
                    ret = None
                    ret = await T.interest(name, param_at=param_at, cbp=cbp, hop_limit=hop)
                    name = T.last_name          # (with the digest component where it stands)
                    if param_at is not None:
                        ctx.event('interest-parameterised-digest-at-%s' % ('end' if param_at >= len(op[1]) else 'middle'))
                        w['digest_component_at'] = param_at
                except HandlerFault:
                    name = T.last_name
                except Exception as e:   # noqa
                    res['viol'].append((f'interest-delivery-raises:{kind}:{type(e).__name__}@{raising_site(e)[0]}', f'delivering an Interest raised {e!r}', w))
                    continue
                if faulty:
                    ctx.event('interest-whose-handler-raises' if not T.raise_next else 'interest-whose-handler-was-not-reached')
                    T.raise_next = False
                for le in S.sentinel.all()[nerr:]:
                    ex = le.get('exception')
                    if faulty and (isinstance(ex, HandlerFault) or 'HandlerFault' in str(le.get('repr'))):
                        continue
                    res['viol'].append((f'interest-background-error:{kind}:{type(ex).__name__ if ex else "?"}', f'background error while dispatching: {le.get("repr")}', w))
                exp = lpm(attached, name)
                got = log[n0:]
                if exp in noval and param_at is not None:
                    # the handler at the longest attached prefix cannot take an Interest that needs validating - and nobody else may
                    ctx.event('parameterised-interest-for-a-handler-without-validator')
                    if got:
                        res['viol'].append((f'unvalidatable-interest-delivered:{kind}', f'a parameterised Interest whose longest attached prefix has no validator reached handler {got[0][0]}'
                                            f' (the handler at that prefix is {exp})', w))
                    continue
                ctx.event('interest')
                ctx.event('interest-hit' if exp is not None else 'interest-miss')
                if exp is None:
                    if got:
                        res['viol'].append((f'delivered-without-matching-prefix:{kind}', f'Interest reached handler {got[0][0]} although no attached prefix matches', w))
                    if kind == 'dispatcher' and ret is not False and not faulty:
                        res['viol'].append(('dispatcher-return-on-miss', 'dispatch() did not return False on a miss', w))
                else:
                    if len(got) != 1:
                        res['viol'].append((f'not-exactly-one-handler:{kind}:{len(got)}', f'Interest reached {len(got)} handlers, expected exactly handler {exp}', w))
                    elif got[0][0] != exp:
                        res['viol'].append((f'wrong-handler:{kind}', f'Interest reached handler {got[0][0]}, longest attached prefix belongs to {exp}', w))
                    elif got[0][1] != tuple(bytes(c) for c in name):
                        res['viol'].append((f'handler-name-differs:{kind}', 'handler received a different name', w))
                    elif kind == 'v1' and hopts.get(exp, (False, False))[0] and got[0][3].get('raw_packet') != T.last_wire:
                        res['viol'].append((f'handler-raw-packet-differs:{kind}', 'handler asked for the raw packet and received other bytes', w))
                    if kind == 'dispatcher' and ret is not True and not faulty:
                        res['viol'].append(('dispatcher-return-on-hit', 'dispatch() did not return True on a hit', w))
                ctx.case((kind, tuple(sorted(attached)), name), nontrivial=len(attached) >= 2)
        await T.stop()

    S = vtime.run(main)
    for v in res['viol']:
        ctx.report(*v)
    if S.result != 'ok':
        ctx.report(f'history-{S.result}:{kind}', f'history did not complete: {S.error!r}', {'target': kind, 'label': label})


def check_burst(ctx, rng):
    """Hundreds of Interests handed over within ONE turn of the event loop (a full receive buffer): each reaches its handler exactly
    once - also the 129th, the 257th, the 1025th."""
    for kind in ('v2', 'v1'):
        for n_burst, mode in ((300, 'await-in-a-row'), (1100, 'await-in-a-row'), (300, 'task-per-packet')):
            log = []
            res = {}

            async def main(S):
                T = Target(kind, log)
                await T.start()
                pre = (C(b'burst'),)
                T.attach(list(pre), 1)
                T.attach([C(b'burst'), C(b'deep')], 2)
                wires = [bytes(make_interest(list(pre) + ([C(b'deep')] if j % 7 == 3 else []) + [rc.comp(8, b'%05d' % j)], InterestParam(nonce=j + 1, lifetime=4000)))
                         for j in range(n_burst)]
                if mode == 'await-in-a-row':
                    for wv in wires:
                        await T.face.callback(5, wv)          # (receiving an unsigned Interest does not suspend)
                else:
                    ts = [T.face.deliver_task(wv) for wv in wires]
                    await asyncio.gather(*ts)
                for _ in range(20):
                    await asyncio.sleep(0.01)
                res['n'] = n_burst
                await T.stop()
            S = vtime.run(main)
            w = {'target': kind, 'burst': n_burst, 'mode': mode}
            ctx.case(('burst', kind, n_burst, mode), nontrivial=True)
            ctx.event('interest-burst-in-one-loop-turn')
            if S.result != 'ok':
                ctx.report(f'burst-scenario-{S.result}:{kind}', f'{S.error!r}', w)
                continue
            got = {}
            for hid, name, _, _ in log:
                got[name] = got.get(name, []) + [hid]
            wrong = [(rc.name_to_uri(list(k), canonical=True), v) for k, v in got.items() if v != [2 if k[1:2] == (C(b'deep'),) else 1]]
            if len(got) != n_burst or wrong:
                ctx.report(f'burst-not-every-interest-delivered-once:{kind}', f'{len(got)} of {n_burst} Interests of one burst reached a handler; wrong deliveries: {wrong[:3]}', w)


def check_reply(ctx, rng):
    """v2 reply closure: deadline and truthful return."""
    res = {'viol': []}
    cases = []
    for L in (None, 0, 1, 10, 100, 4000, 60000):
        for off in (-1, 0, 1, -50, 5000):
            cases.append((L, off))
    for _ in range(ctx.n(40, 20000)):
        cases.append((rng.choice([None, 1, 7, 250, 999, 4000, 12345]), rng.choice([-3, -1, 0, 1, 2, rng.randint(-200, 200)])))

    async def main(S):
        face = RecFace()
        the_app = appv2.NDNApp(face=face)
        main_task = asyncio.ensure_future(the_app.main_loop())
        await asyncio.sleep(0)
        log = []
        the_app.attach_handler('/r', lambda n, p, reply, c: log.append((n, reply, c)))
        seq = 0
        for (L, off) in cases:
            seq += 1
            eff = 4000 if L is None else L
            t_reply = eff + off
            if t_reply < 0:
                continue
            name = [C(b'r'), rc.comp(8, str(seq).encode())]
            t_arr = S.now_ms()
            iw = bytes(make_interest(name, InterestParam(lifetime=L, nonce=seq)))
            # every third Interest arrives inside a link-layer envelope with a PIT token: the deadline applies all the same
            token = [None, None, b'\x01\x02\x03\x04'][seq % 3]
            await face.deliver(iw if token is None else rc.make_lp(fragment=iw, pit_token=token))
            for _ in range(3):
                await asyncio.sleep(0)
            if not log or [bytes(c) for c in log[-1][0]] != name:
                res['viol'].append(('reply-handler-not-called', 'handler not invoked for a plain Interest', {'lifetime': L}))
                continue
            reply = log[-1][1]
            await S.sleep_until_ms(t_arr + t_reply)
            data = bytes(make_data(name, MetaInfo(), b'r%d' % seq, DigestSha256Signer()))
            n0 = len(face.sent)
            w = {'lifetime': L, 'reply_offset_from_deadline_ms': off, 'arrival': t_arr, 'reply_at': S.now_ms()}
            try:
                ret = reply(data)
            except Exception as e:   # noqa
                res['viol'].append((f'reply-raises:{type(e).__name__}', f'reply raised {e!r}', w))
                continue
            sent = face.sent[n0:]
            should = (S.now_ms() <= t_arr + eff)
            if S.now_ms() == t_arr + eff:
                # exactly at the deadline instant either reading of "has not elapsed" is legitimate: only truthfulness is judged
                ctx.event('reply-at-deadline')
                if bool(ret) != bool(sent):
                    res['viol'].append((f'reply-return-untruthful:returned={ret!r},sent={bool(sent)}', 'reply return value does not say whether it was sent', w))
                continue
            ctx.event('reply-sent' if should else 'reply-late')
            ctx.case(('reply', L, off), nontrivial=True)
            if token is not None:
                # compare the payload of the envelope (the envelope itself is C10's business)
                unwrapped = []
                for t_, b_ in sent:
                    try:
                        unwrapped.append((t_, rc.strict_lp(b_)['fragment']))
                    except (rc.Reject, KeyError):
                        unwrapped.append((t_, b_))
                sent = unwrapped
                w['pit_token'] = token
            if should and [b for t, b in sent] != [data]:
                res['viol'].append(('reply-not-transmitted-before-deadline', f'reply within the lifetime was not transmitted exactly once and unmodified (sent {len(sent)} packets)', w))
            if not should and sent:
                res['viol'].append(('reply-transmitted-after-deadline', 'reply after the lifetime elapsed was transmitted', w))
            if bool(ret) != bool(sent):
                res['viol'].append((f'reply-return-untruthful:returned={ret!r},sent={bool(sent)}', f'reply returned {ret!r} although the packet was {"" if sent else "not "}sent', w))
            if should and seq % 2 == 0:
                # the same callback used again (a second Data for one Interest): before the deadline it is sent and True again; once
                # the deadline has passed it is not sent and False - the answer is about THIS call
                n1 = len(face.sent)
                d2 = bytes(make_data(name + [C(b'more')], MetaInfo(), b'again', DigestSha256Signer()))
                r2 = reply(d2)
                s2 = face.sent[n1:]
                ctx.event('reply-callback-used-twice')
                if (S.now_ms() < t_arr + eff) and (not r2 or len(s2) != 1):
                    res['viol'].append((f'second-reply-untruthful:returned={r2!r},sent={len(s2)}', 'a second reply inside the lifetime was not sent / not reported as sent', w))
                await S.sleep_until_ms(t_arr + eff + 3)
                n2 = len(face.sent)
                r3 = reply(d2)
                s3 = face.sent[n2:]
                if r3 or s3:
                    res['viol'].append((f'late-reply-untruthful:returned={r3!r},sent={len(s3)}', 'a further reply after the lifetime was reported as sent / was sent', w))
        # a handler that blocks (computes) past the lifetime without yielding to the loop and then replies: time has passed all the same
        for L, over in ((50, 1), (50, 200), (1000, 5), (100, -20)):
            seq += 1
            name = [C(b'r'), rc.comp(8, str(seq).encode())]
            out = {}

            def blocking(n, p, reply, c, L=L, over=over, name=name):
                S.loop._vt += (L + over) / 1000.0          # the clock moves on while the loop does not run
                d_ = bytes(make_data(name, MetaInfo(), b'slow', DigestSha256Signer()))
                n0_ = len(face.sent)
                out['ret'] = reply(d_)
                out['sent'] = len(face.sent) - n0_
            the_app.detach_handler('/r')
            the_app.attach_handler('/r', blocking)
            await face.deliver(bytes(make_interest(name, InterestParam(lifetime=L, nonce=seq))))
            for _ in range(3):
                await asyncio.sleep(0)
            the_app.detach_handler('/r')
            the_app.attach_handler('/r', lambda n, p, reply, c: log.append((n, reply, c)))
            ctx.event('reply-from-blocking-handler')
            ctx.case(('reply-blocking', L, over), nontrivial=True)
            wb = {'lifetime': L, 'handler_blocked_ms': L + over}
            if 'ret' not in out:
                res['viol'].append(('reply-handler-not-called', 'blocking handler not invoked', wb))
            elif over > 0 and out['sent']:
                res['viol'].append(('reply-transmitted-after-deadline:handler-blocked', 'a handler that blocked past the lifetime could still transmit its reply', wb))
            elif over < 0 and not out['sent']:
                res['viol'].append(('reply-not-transmitted-before-deadline', 'reply within the lifetime was not transmitted', wb))
            elif bool(out['ret']) != bool(out['sent']):
                res['viol'].append((f'reply-return-untruthful:returned={out["ret"]!r},sent={bool(out["sent"])}', 'reply return value does not say whether it was sent', wb))
        # the wall clock is stepped between the arrival of the Interest and the reply: the lifetime is a duration
        for L, step, t_reply in ((50, -10.0, 200), (50, -3600.0, 51), (1000, 3600.0, 10), (100, 86400.0, 99), (100, 0.3, 50), (100, -0.3, 150)):
            seq += 1
            name = [C(b'r'), rc.comp(8, str(seq).encode())]
            t_arr = S.now_ms()
            await face.deliver(bytes(make_interest(name, InterestParam(lifetime=L, nonce=seq))))
            for _ in range(3):
                await asyncio.sleep(0)
            if not log or [bytes(c) for c in log[-1][0]] != name:
                res['viol'].append(('reply-handler-not-called', 'handler not invoked for a plain Interest', {'lifetime': L}))
                continue
            reply = log[-1][1]
            S.step_wall(step)
            await S.sleep_until_ms(t_arr + t_reply)
            n0 = len(face.sent)
            ret = reply(bytes(make_data(name, MetaInfo(), b'stepped', DigestSha256Signer())))
            sent = len(face.sent) - n0
            ctx.event('reply-after-a-step-of-the-wall-clock')
            ctx.case(('reply-wall-step', L, step, t_reply), nontrivial=True)
            ws = {'lifetime': L, 'wall_clock_stepped_by_s': step, 'replied_after_ms': t_reply}
            if (t_reply < L) != bool(sent):
                res['viol'].append(('reply-transmitted-after-deadline:wall-clock-stepped' if sent else 'reply-not-transmitted-before-deadline:wall-clock-stepped',
                                    f'with the wall clock stepped by {step} s after the Interest arrived, a reply {t_reply} ms after arrival (lifetime {L} ms) was {"" if sent else "not "}transmitted', ws))
            if bool(ret) != bool(sent):
                res['viol'].append((f'reply-return-untruthful:returned={ret!r},sent={bool(sent)}', 'reply return value does not say whether it was sent', ws))
        S.wall_offset = 0.0
        # replies after the face went down (inside the lifetime): nothing can be transmitted, so "sent" must not be reported
        pend = []
        for j in range(4):
            seq += 1
            name = [C(b'r'), rc.comp(8, str(seq).encode())]
            iw = bytes(make_interest(name, InterestParam(lifetime=4000, nonce=seq)))
            await face.deliver(iw if j % 2 else rc.make_lp(fragment=iw, pit_token=b'\x09\x09'))
            for _ in range(3):
                await asyncio.sleep(0)
            pend.append((name, log[-1][1]))
        the_app.shutdown()
        await asyncio.wait_for(main_task, 5)
        for name, reply in pend:
            n0 = len(face.sent)
            data = bytes(make_data(name, MetaInfo(), b'late', DigestSha256Signer()))
            try:
                ret = reply(data)
            except Exception:   # noqa
                ret = None          # raising is not a report of success
                ctx.event('reply-face-down-raised')
            ctx.event('reply-face-down')
            ctx.case(('reply-face-down', len(name)), nontrivial=True)
            if bool(ret) and len(face.sent) == n0:
                res['viol'].append(('reply-return-untruthful:returned=True,sent=False:face-down', 'reply reported success although the face is down and nothing was transmitted', {'name': [c.hex() for c in name]}))

    S = vtime.run(main)
    for v in res['viol']:
        ctx.report(*v)
    if S.result != 'ok':
        ctx.report(f'reply-scenario-{S.result}', f'reply scenario: {S.error!r}', None)
    for le in S.sentinel.all():
        ctx.report('reply-background-error', f'{le.get("repr")}', None)


def check_duplicate_routes(ctx, rng):
    """route() declared twice for one prefix (in different representations) before connecting: the second declaration must not take
    the prefix over - wherever the refusal surfaces (at the declaration or when main_loop attaches the routes)."""
    from .c17 import Forwarder
    for fe in ('v1', 'v2'):
        for rep in range(ctx.n(6, 200)):
            pre = rng.choice([p for p in PREFIXES if p])
            log = []
            res = {'errors': []}

            async def main(S):
                face = RecFace()
                the_app = appv2.NDNApp(face=face) if fe == 'v2' else appv1.NDNApp(face=face, keychain=KeychainDigest())
                Forwarder(face, fe, ['200'], ctx, rng, S)
                for hid in (1, 2):
                    form, fl = form_of(rng, pre)
                    try:
                        if fe == 'v2':
                            the_app.route(form)(lambda n, p, reply, c, hid=hid: log.append(hid))
                        else:
                            the_app.route(form)(lambda n, p, a, hid=hid: log.append(hid))
                    except Exception as e:   # noqa
                        res['errors'].append(('declare', hid, type(e).__name__))

                async def after():
                    await asyncio.sleep(0.05)
                    try:
                        await face.deliver(bytes(make_interest(list(pre) + [C(b'q')], InterestParam(nonce=9, lifetime=1000))))
                    except Exception as e:   # noqa
                        res['errors'].append(('deliver', 0, type(e).__name__))
                    await asyncio.sleep(0.05)
                    the_app.shutdown()
                aft = after()
                try:
                    await asyncio.wait_for(the_app.main_loop(aft), 30)
                except Exception as e:   # noqa
                    res['errors'].append(('main_loop', 0, type(e).__name__))
                aft.close()
            S = vtime.run(main)
            ctx.event('duplicate-route-declaration')
            ctx.case(('duplicate-route', fe, pre), nontrivial=True)
            w = {'frontend': fe, 'prefix': [c.hex() for c in pre], 'refusal_seen': res['errors'], 'delivered_to': list(log)}
            if 2 in log:
                ctx.report(f'duplicate-attach-accepted:{fe}:route', 'a second route() declaration for an occupied prefix took the prefix over (its handler received the Interest)', w)
            elif not res['errors'] and log == [1]:
                ctx.report(f'duplicate-attach-not-refused:{fe}:route', 'a second route() declaration for an occupied prefix was silently ignored: it was not refused anywhere', w)


def check_reentrant(ctx, rng):
    """Handlers that change the table from INSIDE their own invocation (attach a longer / shorter / sibling prefix, detach themselves,
    detach another handler, try to take an occupied prefix): the Interest being dispatched has reached exactly the handler that was
    the longest attached prefix when it arrived, and every later Interest follows the table as the handlers left it.  The model
    is sequential: the actions of a handler take effect at the moment it is invoked."""
    pool = [p for p in PREFIXES] + [(C(b'a'), C(b'b'), C(b'x')), (C(b'e'), C(b'f'))]
    for kind in ('v2', 'v1', 'dispatcher'):
        for rep in range(ctx.n(25, 6000)):
            log = []
            res = {'viol': []}
            plan = []
            for _ in range(rng.randint(2, 5)):
                plan.append(('attach', rng.choice(pool), [(rng.choice(['attach', 'attach', 'detach', 'detach-self', 'attach-occupied']), rng.choice(pool))
                                                          for _ in range(rng.choice([0, 1, 1, 2, 3]))]))
            names = [rng.choice(INT_NAMES) for _ in range(rng.randint(4, 14))]
            same_turn = False      # (a look-up made before an earlier handler of the same loop turn ran is left open by the statement)

            async def main(S):
                T = Target(kind, log)
                await T.start()
                attached = {}
                todo = {}
                inside = {'errors': [], 'done': []}
                seq = [0]

                async def accept(n, s_, c):
                    return types.ValidResult.PASS

                def do_attach(pre, acts):
                    seq[0] += 1
                    hid = seq[0]
                    todo[hid] = list(acts)
                    base = T.handler(hid)

                    def act():
                        for op, q in todo.pop(hid, []):         # (one-shot: the first invocation acts)
                            own = next((k for k, v in attached.items() if v == hid), None)
                            if op == 'detach-self':
                                q = own
                            if op in ('attach', 'attach-occupied'):
                                if op == 'attach-occupied' and attached:
                                    q = rng.choice(sorted(attached))
                                try:
                                    do_attach(q, [])
                                    if q in inside.get('was', {}):
                                        inside['errors'].append(('occupied-prefix-taken-from-inside-a-handler', q))
                                except Exception as e:   # noqa
                                    if q not in inside.get('was', {}):
                                        inside['errors'].append((f'attach-inside-handler-raises:{type(e).__name__}', q))
                                inside['was'] = dict(attached)
                            elif q is not None and q in attached:
                                try:
                                    if kind == 'v2':
                                        T.app.detach_handler(form_of(rng, q)[0])
                                    elif kind == 'v1':
                                        T.app.unset_interest_filter(form_of(rng, q)[0])
                                    else:
                                        T.d.unregister(form_of(rng, q)[0])
                                except Exception as e:   # noqa
                                    inside['errors'].append((f'detach-inside-handler-raises:{type(e).__name__}', q))
                                del attached[q]
                                inside['was'] = dict(attached)
                            inside['done'].append(op)
                    if kind == 'v2':
                        def h(name, app_param, reply, context):
                            base(name, app_param, reply, context)
                            act()
                    else:
                        def h(name, param, app_param):
                            base(name, param, app_param)
                            act()
                    form = form_of(rng, pre)[0]
                    if kind == 'v2':
                        T.app.attach_handler(form, h, accept)
                    elif kind == 'v1':
                        T.app.set_interest_filter(form, h)
                    else:
                        T.d.register(form, h)
                    attached[pre] = hid         # (not reached when the attachment was refused)
                inside['was'] = {}
                for _, pre, acts in plan:
                    if pre not in attached:
                        do_attach(pre, acts)
                        inside['was'] = dict(attached)
                for j, name in enumerate(names):
                    exp = lpm(attached, name)
                    n0 = len(log)
                    wire = bytes(make_interest(list(name), InterestParam(nonce=j + 1, lifetime=4000)))
                    w = {'target': kind, 'interest': [c.hex() for c in name], 'attached_on_arrival': [[c.hex() for c in k] for k in attached],
                         'plan': [[op, [c.hex() for c in pre], [[a, [c.hex() for c in q]] for a, q in acts]] for op, pre, acts in plan], 'index': j}
                    try:
                        if kind == 'dispatcher':
                            n_, p_, a_, s_ = parse_interest(wire)
                            T.d.dispatch(n_, p_, a_)
                        elif same_turn:
                            await T.face.callback(5, wire)
                        else:
                            await T.face.deliver(wire)
                            for _ in range(3):
                                await asyncio.sleep(0)
                    except Exception as e:   # noqa
                        res['viol'].append((f'reentrant-delivery-raises:{kind}:{type(e).__name__}@{raising_site(e)[0]}', f'delivering an Interest to a handler that edits the table raised {e!r}', w))
                        break
                    got = [g[0] for g in log[n0:]]
                    ctx.event('interest-to-table-editing-handlers')
                    ctx.case(('reentrant', kind, tuple(sorted(attached)), name, tuple(inside['done'][-3:])), nontrivial=True)
                    if got != ([exp] if exp is not None else []):
                        res['viol'].append((f'reentrant-wrong-delivery:{kind}', f'Interest reached handlers {got}; the longest attached prefix on arrival belongs to {exp} '
                                            f'(handlers had edited the table from inside earlier invocations: {inside["done"]})', w))
                        break
                if same_turn and kind != 'dispatcher':
                    for _ in range(3):
                        await asyncio.sleep(0)
                for e, q in inside['errors']:
                    res['viol'].append((f'{e}:{kind}', f'inside a handler: {e} for prefix {rc.name_to_uri(list(q), canonical=True)}', {'target': kind}))
                for op in inside['done']:
                    ctx.event(f'inside-handler:{op}')
                await T.stop()

            S = vtime.run(main)
            for v in res['viol']:
                ctx.report(*v)
            if S.result != 'ok':
                ctx.report(f'reentrant-history-{S.result}:{kind}', f'history did not complete: {S.error!r}', {'target': kind})
            for le in S.sentinel.all():
                ctx.report(f'reentrant-background-error:{kind}', f'{le.get("repr")}', {'target': kind})


def run(ctx):
    ctx.rule = RULE
    rng = ctx.rng
    check_duplicate_routes(ctx, rng)
    kinds = ['v2', 'v1', 'dispatcher']
    # exhaustive: every subset of the 8-prefix tree x every Interest name
    subsets = list(itertools.chain.from_iterable(itertools.combinations(range(len(PREFIXES)), r) for r in range(len(PREFIXES) + 1)))
    if ctx.quick:
        pick = subsets       # 256 subsets: cheap enough for every run
    else:
        pick = [s for i, s in enumerate(subsets) if i % ctx.nshards == ctx.shard]
    for kind in kinds:
        for sub in pick:
            order = list(sub)
            rng.shuffle(order)
            ops = [('attach', PREFIXES[i]) for i in order] + [('interest', n) for n in INT_NAMES]
            run_history(ctx, rng, kind, ops, 'exhaustive')
    ctx.exhaustive = False
    ctx.extra['exhaustive_subspace'] = f'all {len(subsets)} subsets of {len(PREFIXES)} prefixes x {len(INT_NAMES)} Interest names x 3 front-ends'
    # random histories with detach / duplicate attach / re-attach
    for i in range(ctx.n(400, 300000)):
        kind = kinds[i % 3]
        ops = []
        for _ in range(rng.randint(4, 25)):
            k = rng.random()
            pool_p = PREFIXES + (EMPTY_COMP_PREFIXES if i % 2 else []) + (LONG_COMP_PREFIXES if i % 5 == 2 else []) + (DIGEST_PREFIXES if i % 7 == 3 else [])
            pool_n = INT_NAMES + (EMPTY_COMP_NAMES if i % 2 else []) + (LONG_COMP_NAMES if i % 5 == 2 else []) + (DIGEST_NAMES * 2 if i % 7 == 3 else [])
            if k < 0.35:
                ops.append(('attach', rng.choice(pool_p)))
            elif k < 0.40 and kind == 'v2':
                ops.append(('reconnect', ()))
            elif k < 0.44 and kind in ('v1', 'v2') and i % 2:
                if kind == 'v2' and rng.random() < 0.5:
                    ops.append(('unregister-bare', rng.choice([p for p in PREFIXES if p])))
                elif rng.random() < 0.4:
                    ops.append(('register-bare-given-up', rng.choice([p for p in PREFIXES if p])))
                else:
                    ops.append(('register-bare', rng.choice([p for p in PREFIXES if p])))
            elif k < 0.55:
                if kind == 'v1' and i % 2 and rng.random() < 0.5:
                    ops.append(('detach', rng.choice(pool_p), rng.choice(['200', '200', '404', 'nack', 'silence', 'garbage', 'bad-signature'])))
                else:
                    ops.append(('detach', rng.choice(pool_p)))
            elif k < 0.62:
                ops.append(('interest-handler-raises', rng.choice(pool_n)))
            elif k < 0.66 and kind == 'v2':
                ops.append(('attach-async-handler', rng.choice(pool_p)))
            else:
                ops.append(('interest', rng.choice(pool_n)))
        run_history(ctx, rng, kind, ops, 'random')
    # legacy front-end: detaching through unregister(), for every kind of forwarder answer, with handlers on a shorter and a longer prefix
    for rep in range(ctx.n(3, 40)):
        for answer in ('200', '404', 'nack', 'silence', 'garbage', 'bad-signature', 'no-content'):
            for others in ((1, 3), (1,), (3,), ()):
                ops = [('attach', PREFIXES[j]) for j in others + (2,)]
                rng.shuffle(ops)
                ops += [('interest', n) for n in (PREFIXES[2], PREFIXES[3], INT_NAMES[7])] + [('detach', PREFIXES[2], answer)]
                ops += [('interest', n) for n in (PREFIXES[2], PREFIXES[3], PREFIXES[1], INT_NAMES[7], PREFIXES[7])]
                ops += [('attach', PREFIXES[2]), ('interest', PREFIXES[2]), ('interest', PREFIXES[3])]
                run_history(ctx, rng, 'v1', ops, 'unregister-template')
        # current front-end: withdrawing the route of a prefix leaves its handler attached
        for others in ((1, 3), (1,), (3,), ()):
            ops = [('attach', PREFIXES[j]) for j in others + (2,)]
            rng.shuffle(ops)
            ops += [('register-bare', PREFIXES[2]), ('interest', PREFIXES[2]), ('unregister-bare', PREFIXES[2])]
            ops += [('interest', n) for n in (PREFIXES[2], PREFIXES[3], PREFIXES[1], INT_NAMES[7], PREFIXES[7])]
            ops += [('attach', PREFIXES[2]), ('interest', PREFIXES[2]), ('detach', PREFIXES[2]), ('interest', PREFIXES[2]), ('interest', PREFIXES[3])]
            run_history(ctx, rng, 'v2', ops, 'unregister-keeps-handler-template')
    # an announcement for a prefix that already has a handler (attached separately) is given up by the application: the handler stays
    for kind in ('v1', 'v2'):
        for others in ((1, 3), (1,), ()):
            ops = [('attach', PREFIXES[j]) for j in others + (2,)]
            rng.shuffle(ops)
            ops += [('interest', PREFIXES[3]), ('register-bare-given-up', PREFIXES[2])]
            ops += [('interest', n) for n in (PREFIXES[2], PREFIXES[3], INT_NAMES[7])] + [('attach', PREFIXES[2]), ('interest', PREFIXES[3])]
            run_history(ctx, rng, kind, ops, 'given-up-announcement-template')
    # several prefixes of the same (greatest) depth; one of them is detached, the others keep receiving
    D1, D2, D3 = (C(b'a'), C(b'b'), C(b'c'), C(b'g')), (C(b'a'), C(b'b'), C(b'c'), C(b'h')), (C(b'e'), C(b'f'), C(b'g'), C(b'h'))
    for kind in kinds:
        for gone in (D1, D2, D3):
            for shallow in ((), (1,), (1, 3)):
                ops = [('attach', PREFIXES[j]) for j in shallow] + [('attach', D1), ('attach', D2), ('attach', D3)]
                rng.shuffle(ops)
                ops += [('detach', gone)] + [('interest', d + (C(b'x'),)) for d in (D1, D2, D3)] + [('interest', d) for d in (D1, D2, D3)]
                ops += [('attach', gone)] + [('interest', d + (C(b'y'),)) for d in (D1, D2, D3)]
                run_history(ctx, rng, kind, ops, 'same-depth-template')
    # prefixes that end in an implicit-digest component
    for kind in kinds:
        for sub in ((0,), (0, 1), (1, 2), (0, 1, 2, 3), (3,)):
            ops = [('attach', PREFIXES[1])] + [('attach', DIGEST_PREFIXES[j]) for j in sub]
            rng.shuffle(ops)
            ops += [('interest', n) for n in DIGEST_NAMES] + [('detach', DIGEST_PREFIXES[sub[0]])] + [('interest', n) for n in DIGEST_NAMES]
            run_history(ctx, rng, kind, ops, 'digest-ended-prefix-template')
            ctx.event('prefix-ending-in-an-implicit-digest-component')
    if ctx.shard == 0:
        check_burst(ctx, rng)
    check_reply(ctx, rng)
    check_reentrant(ctx, rng)
    for k in ('prefix-ending-in-an-implicit-digest-component', 'reply-after-a-step-of-the-wall-clock', 'announcement-given-up-for-a-prefix-that-has-a-handler', 'attach-of-a-falsy-callable-object', 'interest-whose-handler-raises', 'inside-handler:attach', 'inside-handler:detach', 'inside-handler:detach-self', 'inside-handler:attach-occupied'):
        ctx.need_event(k)
    for k in ('attach', 'detach', 'duplicate-attach', 'interest-hit', 'interest-miss', 'reply-sent', 'reply-late', 'attach-with-delivery-options',
              'reconnect-with-handlers-attached', 'register-without-handler-on-free-prefix', 'duplicate-route-declaration',
              'reply-from-blocking-handler', 'interest-parameterised-digest-at-middle', 'detach-by-unregister-command-succeeded',
              'detach-by-unregister-command-failed', 'interest-with-can-be-prefix', 'interest-with-hop-limit-0', 'route-withdrawn-handler-kept'):
        ctx.need_event(k)
    ctx.assumptions = ['detaching a never-attached prefix and handler exceptions are outside the statement',
                       'the reply clause is judged on the current front-end (the legacy one has no reply callback)']
