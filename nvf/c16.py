"""C16 - issued certificates are well-formed, correctly named and verifiable."""
import datetime
import time

from . import gen, pkts, refcodec as rc
from .common import raising_site, OddStr

from ndn.app_support.security_v2 import self_sign, sign_req, derive_cert, parse_certificate
from ndn.encoding import parse_data, Name

RULE = ('self_sign / sign_req / derive_cert over generated key names (1..6 components), issuer ids (URI text incl. '
        'escapes and typed forms, or encoded component), subject/issuer keys EC P-256/384/521, RSA-2048, Ed25519, start '
        'times across year/month/leap-day boundaries, durations 0 s..20 y; distinct = (function, issuer key kind, '
        'subject key kind, signature length, validity class); non-trivial = every case (a signature is made)')

UTC = datetime.timezone.utc
KINDS = ['ecdsa256', 'ecdsa256', 'ecdsa384', 'ecdsa521', 'rsa', 'ed25519']
ISSUER_KINDS = KINDS + ['hmac', 'hmac']       # an issuing secret may also be an HMAC key (lengths on both sides of the hash block size)


def fmt(dt):
    return ('%04d%02d%02dT%02d%02d%02d' % (dt.year, dt.month, dt.day, dt.hour, dt.minute, dt.second)).encode()


STARTS = [datetime.datetime(1970, 1, 1, 0, 0, 0), datetime.datetime(1999, 12, 31, 23, 59, 59),
          datetime.datetime(2000, 2, 29, 12, 0, 0), datetime.datetime(2023, 2, 28, 23, 59, 59),
          datetime.datetime(2024, 2, 29, 0, 0, 0), datetime.datetime(2024, 12, 31, 23, 59, 59),
          datetime.datetime(2025, 1, 1, 0, 0, 0), datetime.datetime(2038, 1, 19, 3, 14, 7),
          datetime.datetime(2099, 12, 31, 23, 59, 59), datetime.datetime(1000, 1, 1, 0, 0, 0),
          datetime.datetime(9000, 6, 30, 1, 2, 3)]
DURS = [0, 1, 59, 60, 3599, 86399, 86400, 86401, 365 * 86400, 366 * 86400, 20 * 365 * 86400 + 5 * 86400, 31 * 86400,
        -1, -86400, -366 * 86400]        # a period that ends before it starts is encoded as requested (an expired / never valid certificate)
ISSUERS_TXT = ['self', 'iss', 'NA', 'a%20b', '%00', 'x.y-z_~', '32=kw', 'v=7', 'seg=300', 'a%2Fb', 'CA%3Aroot']


def check_cert(ctx, fn, wire, ret_name, exp_name_prefix, issuer_comp, pub, sinfo, nb_exp, na_exp, w, t_call):
    wire = bytes(wire)
    w = dict(w, wire=wire if len(wire) < 900 else wire[:400])
    try:
        r = rc.strict_data(wire, cert=True)
    except rc.Reject as e:
        ctx.report(f'cert-malformed:{e.reason}', f'{fn} output is not one exact TLV tree: {e}', w)
        return
    name = r['name']
    if name[:-1] != exp_name_prefix + [issuer_comp]:
        ctx.report('cert-name', f'{fn}: certificate name is not key-name/issuer-id/version', dict(w, got=[c.hex() for c in name]))
    else:
        t, v = rc.comp_parts(name[-1])
        ver = int.from_bytes(v, 'big')
        if t != 0x36 or rc.enc_nni(ver) != v or not (t_call[0] - 2 <= ver <= t_call[1] + 2):
            ctx.report('cert-version', f'{fn}: last component is not a version number of the issuing time', dict(w, got=name[-1].hex()))
    if any(not isinstance(c, (bytes, bytearray, memoryview)) for c in ret_name):
        ctx.report('cert-returned-name', f'{fn}: the returned name is not a list of encoded components (found {sorted({type(c).__name__ for c in ret_name})})', w)
    elif [bytes(c) for c in ret_name] != name:
        ctx.report('cert-returned-name', f'{fn}: returned name differs from the name in the wire', w)
    if r['content'] != pub:
        ctx.report('cert-content', f'{fn}: content is not the given public key', w)
    if r['content_type'] != 2:
        ctx.report('cert-content-type', f'{fn}: content type is {r["content_type"]}, not KEY', w)
    si = r['sig_info']
    if si is None or r['sig_value'] is None:
        ctx.report('cert-unsigned', f'{fn}: no signature', w)
        return
    if callable(nb_exp):
        if not nb_exp(si['not_before']) or not na_exp(si['not_after']):
            ctx.report('cert-validity', f'{fn}: validity period {si["not_before"]}..{si["not_after"]} is not the expected one', w)
    elif (si['not_before'], si['not_after']) != (nb_exp, na_exp):
        ctx.report('cert-validity', f'{fn}: validity period {si["not_before"]}..{si["not_after"]} != requested {nb_exp}..{na_exp}', w)
    if si['type'] != pkts.SIG_TYPE[sinfo['kind']]:
        ctx.report('cert-sigtype', f'{fn}: signature type {si["type"]}', w)
    if si['key_name'] != sinfo['key_name']:
        ctx.report('cert-keylocator', f'{fn}: key locator is not the one configured in the signer', w)
    if pkts.verify_independent(sinfo, r['signed_portion'], r['sig_value']) is not True:
        ctx.report('cert-signature-invalid', f'{fn}: signature does not verify under the issuing key', w)
    ctx.klass(f'siglen-{sinfo["kind"]}-{len(r["sig_value"])}')
    # library parsers must return the same fields
    try:
        c = parse_certificate(wire)
        n2, m2, c2, s2 = parse_data(wire)
    except Exception as e:   # noqa
        ctx.report(f'cert-parse-raises:{type(e).__name__}@{raising_site(e)[0]}', f'parsing the issued certificate raised {e!r}', w)
        return
    vp = c.signature_info.validity_period
    probs = []
    if [bytes(x) for x in c.name] != name or [bytes(x) for x in n2] != name:
        probs.append('name')
    if bytes(c.content) != pub or bytes(c2) != pub:
        probs.append('content')
    if c.meta_info.content_type != 2 or m2.content_type != 2:
        probs.append('content-type')
    if vp is None or bytes(vp.not_before) != si['not_before'] or bytes(vp.not_after) != si['not_after']:
        probs.append('validity')
    if bytes(c.signature_value) != r['sig_value'] or bytes(s2.signature_value_buf) != r['sig_value']:
        probs.append('sig-value')
    if b''.join(bytes(x) for x in s2.signature_covered_part) != r['signed_portion']:
        probs.append('covered-part')
    kl = c.signature_info.key_locator
    if (None if kl is None else [bytes(x) for x in kl.name]) != si['key_name']:
        probs.append('key-locator')
    for p in probs:
        ctx.report(f'cert-parse-field:{p}', f'{fn}: parse_certificate/parse_data disagree with the strict reading on {p}', w)
    ctx.event('cert-checked')
    return len(r['sig_value'])


class AuditingSigner:
    """A legal signer object: before it signs, it writes an audit record - another Data packet, signed with its own (ECDSA, hence
    shorter-than-reserved) signer - from INSIDE write_signature_value, then delegates to the real issuing signer."""
    def __init__(self, inner, rng, log):
        self.inner = inner
        self.log = log
        self.audit_signer, self.audit_info = pkts.make_signer(rng, 'ecdsa256', [rc.comp(8, b'audit'), rc.comp(8, b'KEY'), rc.comp(8, b'\x01')])

    def __getattr__(self, k):
        return getattr(self.inner, k)

    def __setattr__(self, k, v):
        if k in ('inner', 'log', 'audit_signer', 'audit_info'):
            object.__setattr__(self, k, v)
        else:
            setattr(self.inner, k, v)

    def write_signature_info(self, signature_info):
        return self.inner.write_signature_info(signature_info)

    def get_signature_value_size(self):
        return self.inner.get_signature_value_size()

    def write_signature_value(self, wire, contents):
        from ndn.encoding import make_data, MetaInfo
        rec = bytes(make_data([rc.comp(8, b'audit'), rc.comp(8, b'rec%d' % len(self.log))], MetaInfo(), b'issuing', self.audit_signer))
        self.log.append(rec)
        return self.inner.write_signature_value(wire, contents)


def check_two_stores(ctx, rng):
    """Two on-disk key stores in one process hold a key of the SAME name (same identity, same explicit key id) with different key
    material: whatever each store's signer issues verifies under that store's key - whichever store was used last."""
    import os
    import shutil
    import tempfile
    from ndn.security.keychain.keychain_sqlite3 import KeychainSqlite3
    from ndn.security.tpm.tpm_file import TpmFile
    from ndn.encoding import Name as _N
    root = tempfile.mkdtemp(prefix='nvf-c16-stores-')
    try:
        stores = []
        for lab in ('A', 'B'):
            d = os.path.join(root, lab)
            os.makedirs(os.path.join(d, 'tpm'))
            KeychainSqlite3.initialize(os.path.join(d, 'pib.db'), 'tpm-file', os.path.join(d, 'tpm'))
            kc = KeychainSqlite3(os.path.join(d, 'pib.db'), TpmFile(os.path.join(d, 'tpm')))
            kc.touch_identity('/shared/site')
            for kid in (b'k1', b'k2'):
                kc.new_key('/shared/site', key_type='ec', key_id=kid.decode())
            stores.append((lab, kc))
        for rnd in range(ctx.n(6, 60)):
            order = [0, 1] if rnd % 2 == 0 else [1, 0]
            for kid in (b'k1', b'k2'):
                key_name = [rc.comp(8, b'shared'), rc.comp(8, b'site'), rc.comp(8, b'KEY'), rc.comp(8, kid)]
                signers = {}
                for si in order:
                    lab, kc = stores[si]
                    try:
                        if rnd % 3 == 2:
                            kc.shutdown()                      # closed and opened again in between
                            d = os.path.join(root, lab)
                            kc = KeychainSqlite3(os.path.join(d, 'pib.db'), TpmFile(os.path.join(d, 'tpm')))
                            stores[si] = (lab, kc)
                        key = kc['/shared/site'][key_name]
                        signers[si] = (kc.get_signer({'key': key_name}), bytes(key.key_bits), [bytes(c) for c in Name.normalize(key.default_cert().name)])
                    except Exception as e:   # noqa
                        ctx.report(f'two-stores-raises:{type(e).__name__}@{raising_site(e)[0]}', f'{e!r}', {'store': lab})
                for si in order[::-1] + order:
                    if si not in signers:
                        continue
                    sg, bits, loc = signers[si]
                    subj_name = [rc.comp(8, b'subj%d' % rnd), rc.comp(8, b'KEY'), rc.comp(8, b'\x07')]
                    _, subj = pkts.make_signer(rng, 'ecdsa256', subj_name)
                    try:
                        rn, wire = derive_cert(subj_name, 'ca', subj['pub'], sg, datetime.datetime(2024, 1, 1), 86400)
                        r = rc.strict_data(bytes(wire), cert=True)
                    except Exception as e:   # noqa
                        ctx.report(f'two-stores-issue-raises:{type(e).__name__}', f'{e!r}', {'store': stores[si][0]})
                        continue
                    ctx.event('certificate-issued-by-one-of-two-stores-holding-the-same-key-name')
                    ctx.case(('two-stores', rnd % 6, kid, si), nontrivial=True)
                    ok = pkts.verify_independent({'kind': 'ecdsa256', 'pub': bits}, r['signed_portion'], r['sig_value'])
                    if ok is not True:
                        other_bits = signers.get(1 - si, (None, None, None))[1]
                        other = other_bits is not None and pkts.verify_independent({'kind': 'ecdsa256', 'pub': other_bits}, r['signed_portion'], r['sig_value']) is True
                        ctx.report('cert-signature-invalid:two-stores', f"store {stores[si][0]}'s signer for the key issued a certificate that does not verify under that store's key"
                                   + (" - it verifies under the OTHER store's key of the same name" if other else ''), {'store': stores[si][0], 'key_id': kid.decode()})
                    if r['sig_info'] is None or r['sig_info']['key_name'] != loc:
                        ctx.report('cert-keylocator:two-stores', "the certificate does not name the issuing store's default certificate of the key", {'store': stores[si][0]})
        for lab, kc in stores:
            try:
                kc.shutdown()
            except Exception:   # noqa
                pass
    finally:
        shutil.rmtree(root, ignore_errors=True)


FAKE = [0.0]


class SteppedDateTime(datetime.datetime):
    """What security_v2 sees as `datetime`: the real class, whose now() reads a wall clock that the harness steps (an operator
    correction, NTP after a boot without RTC, resume from suspend) - datetime.now itself cannot be patched."""
    @classmethod
    def now(cls, tz=None):
        return datetime.datetime.now(tz) + datetime.timedelta(seconds=FAKE[0])


def run(ctx):
    import ndn.app_support.security_v2 as sv2
    old_dt = sv2.datetime
    sv2.datetime = SteppedDateTime
    try:
        return run_(ctx)
    finally:
        sv2.datetime = old_dt
        FAKE[0] = 0.0


def run_(ctx):
    ctx.rule = RULE
    rng = ctx.rng
    n = ctx.n(700, 100000)
    sweep = [p_ for p_ in range(0, 70) for _ in range(6)] if ctx.shard == 0 else []
    pool = {}
    import os
    old_tz = os.environ.get('TZ')
    zones = ['UTC', 'JST-9', 'NST3:30', 'PST8PDT']       # POSIX TZ strings (no tz database needed)
    for i in range(n + len(sweep)):
        # the process's local time zone is no input of the property (requested instants are naive = UTC or aware)
        os.environ['TZ'] = zones[(i // 7) % len(zones)]
        time.tzset()
        ctx.klass('local-time-zone-' + os.environ['TZ'])
        ik = rng.choice(ISSUER_KINDS)
        sk = rng.choice(KINDS)
        key_name = gen.simple_name(rng, 0, 4) + [rc.comp(8, b'KEY'), rc.comp(8, gen.rand_bytes(rng, rng.choice([1, 4, 8])))]
        if i >= n:
            # boundary sweep: small certificates (Ed25519 subject key) issued by an ECDSA key, sized so that the Data
            # length crosses 253 exactly where the DER signature is shorter than the reserved space
            ik, sk = 'ecdsa256', 'ed25519'
            key_name = [rc.comp(8, b'p' * sweep[i - n]), rc.comp(8, b'KEY'), rc.comp(8, b'\x01')]
        if rng.random() < 0.1:
            key_name = gen.simple_name(rng, 1, 6)
        elif i < n and rng.random() < 0.12:
            # identities whose own name contains the component KEY (a key of a sub-identity named after a key, a name that looks
            # like a certificate name): the key name is whatever the caller says it is
            ident = gen.simple_name(rng, 0, 2) + [rc.comp(8, b'KEY')] + gen.simple_name(rng, rng.choice([1, 1, 2, 3]), 3)[:rng.choice([1, 1, 2, 3])]
            key_name = ident + [rc.comp(8, b'KEY'), rc.comp(8, gen.rand_bytes(rng, rng.choice([1, 4, 8])))]
            ctx.event('key-name-with-KEY-inside-the-identity')
        locator = gen.simple_name(rng, 1, 3) + [rc.comp(8, b'KEY'), rc.comp(8, b'\x01'), rc.comp(8, b'self'), rc.comp(0x36, b'\x01')]
        if i >= n:
            locator = [rc.comp(8, b'i'), rc.comp(8, b'KEY'), rc.comp(8, b'\x01')]
        if i < n and pool.get(ik) and rng.random() < 0.4:
            # one signer object issuing several certificates; its configured key locator is changed in between
            signer, sinfo = pool[ik]
            sinfo = dict(sinfo, key_name=locator)
            signer.key_locator_name = rng.choice([locator, [bytes(c) for c in locator], rc.name_to_uri(locator, canonical=True)])
            pool[ik] = (signer, sinfo)
            ctx.event('signer-reused-with-new-locator')
        else:
            signer, sinfo = pkts.make_signer(rng, ik, locator)
            if i < n:
                pool[ik] = (signer, sinfo)
        if i < n and rng.random() < 0.45:
            # the key locator configured in wire form (what the key stores hand to their signers), of many total lengths - among
            # them exactly 20 / 32 / 64 octets, the sizes of the usual digests
            first = rc.comp(8, gen.rand_bytes(rng, rng.choice([11, 11, 11, 0, 1, 10, 12, 43, rng.randint(0, 50)])))
            locator = [first, rc.comp(8, b'KEY'), rc.comp(8, b'\x01'), rc.comp(8, b'self'), rc.comp(0x36, b'\x01')]
            if rng.random() < 0.3:
                locator = [rc.comp(8, gen.rand_bytes(rng, rng.choice([16, 28, 60])))]       # 20 / 32 / 64 octets as a one-component name
            sinfo = dict(sinfo, key_name=locator)
            signer.key_locator_name = rng.choice([rc.enc_name(locator), bytearray(rc.enc_name(locator)), memoryview(rc.enc_name(locator))])
            if i < n and pool.get(ik) and pool[ik][0] is signer:
                pool[ik] = (signer, sinfo)
            ctx.event('key-locator-configured-in-wire-form')
            if len(rc.enc_name(locator)) == 32:
                ctx.event('key-locator-wire-form-32-octets')
        audit_log = None
        use_signer = signer
        if rng.random() < 0.2:
            audit_log = []
            use_signer = AuditingSigner(signer, rng, audit_log)
            ctx.event('issuer-signs-an-audit-record-from-inside-the-signing-call')
        _, subj = pkts.make_signer(rng, sk, key_name)
        pub = subj['pub'] if rng.random() < 0.9 else gen.rand_bytes(rng, rng.choice([0, 1, 91, 300]))
        if rng.random() < 0.25 and pub is subj['pub']:
            # the same key in another legal encoding (compressed EC point, PKCS#1 RSAPublicKey, PEM text): the content is the octets given
            try:
                from Cryptodome.PublicKey import ECC as _ECC, RSA as _RSA
                if sk.startswith('ecdsa'):
                    pub = _ECC.import_key(subj['pub']).export_key(format='DER', compress=True)
                    ctx.klass('public-key-encoding-ec-compressed')
                elif sk == 'rsa':
                    k_ = _RSA.import_key(subj['pub'])
                    pub = rng.choice([k_.export_key(format='PEM'), k_.export_key(format='DER', pkcs=1)])
                    ctx.klass('public-key-encoding-rsa-other')
                else:
                    pub = _ECC.import_key(subj['pub']).export_key(format='PEM').encode()
                    ctx.klass('public-key-encoding-pem')
            except Exception:   # noqa
                pub = subj['pub']
        form, fl = pkts.name_form(rng, key_name)
        which = rng.choice(['derive', 'derive', 'derive', 'self', 'req'])
        if i >= n:
            which = ['derive', 'self', 'req'][(i - n) % 3]
        w = {'fn': which, 'issuer_key': ik, 'subject_key': sk, 'key_name': [c.hex() for c in key_name], 'form': fl}
        t0 = int(time.time() * 1000)
        if which in ('self', 'req') and i % 3 == 1:
            # the wall clock has been stepped since the last certificate was issued in this process
            FAKE[0] = rng.choice([3600.0, -3600.0, 86400.0 * 400, -86400.0 * 9000, 0.0, 7.0])
            ctx.event('issued-after-a-step-of-the-wall-clock')
        try:
            if which == 'derive':
                start = rng.choice(STARTS) if rng.random() < 0.7 else \
                    datetime.datetime(rng.randint(1000, 9990), rng.randint(1, 12), rng.randint(1, 28), rng.randint(0, 23), rng.randint(0, 59), rng.randint(0, 59))
                dur = rng.choice(DURS) if rng.random() < 0.7 else rng.randint(0, 20 * 366 * 86400)
                if start.year > 9900:
                    dur = min(dur, 86400)
                if dur < 0 and start.year < 1002:
                    dur = -dur          # years below 1000 are outside the domain (no four-digit year)
                if dur < 0:
                    ctx.event('validity-ends-before-it-starts')
                if rng.random() < 0.12:
                    # "valid from now on": the requested start is the current time (whole second; the validity text has no finer unit)
                    start = datetime.datetime.now(UTC).replace(tzinfo=None, microsecond=0) + datetime.timedelta(seconds=rng.choice([0, 0, 1, -1]))
                    dur = abs(dur) if dur else 3600
                    ctx.event('validity-starting-now')
                if rng.random() < 0.25:
                    # instants between two seconds and lifetimes with a fractional part (what (deadline - now).total_seconds() gives):
                    # binary fractions, so the requested end is exact; the text form names the second it falls in
                    start = start.replace(microsecond=rng.choice([250000, 500000, 750000, 0]))
                    dur = dur + rng.choice([0.25, 0.5, 0.75])
                    ctx.event('validity-with-fractional-seconds')
                aware = rng.random() < 0.3
                if aware and rng.random() < 0.4:
                    # instants next to a daylight-saving transition of the zone they will be given in: 86400 s later is another wall-clock time
                    start = rng.choice([datetime.datetime(2024, 3, 9, 17, 0, 0), datetime.datetime(2024, 3, 10, 6, 30, 0), datetime.datetime(2024, 11, 3, 5, 30, 0),
                                        datetime.datetime(2024, 11, 3, 6, 30, 0), datetime.datetime(2024, 11, 3, 5, 30, 0), datetime.datetime(2024, 11, 3, 6, 30, 0),
                                        datetime.datetime(2025, 10, 26, 1, 30, 0),      # (the same wall-clock time twice in one night: instants an hour apart)
                                        datetime.datetime(2024, 11, 2, 12, 0, 0), datetime.datetime(2025, 3, 30, 0, 30, 0), datetime.datetime(2025, 10, 26, 0, 30, 0)])
                    dur = rng.choice([0, 3600, 7200, 86400, 86400 * 2, 30 * 86400])
                    want_zone = True
                else:
                    want_zone = False
                st = start.replace(tzinfo=UTC) if aware else start
                if want_zone:
                    try:
                        import zoneinfo
                        st = st.astimezone(zoneinfo.ZoneInfo(rng.choice(['America/New_York', 'Europe/Berlin'])))
                        ctx.event('aware-instant-in-a-zone-with-daylight-saving')
                    except Exception:   # noqa  (no time-zone database on this machine)
                        ctx.event('observation:no-tz-database')
                if aware and not want_zone and rng.random() < 0.5 and 1001 < start.year < 9900:
                    # the same instant given with another UTC offset (an aware datetime names an instant, whatever its offset)
                    off = datetime.timedelta(minutes=rng.choice([540, -210, 345, -720, 60, 1]))
                    st = st.astimezone(datetime.timezone(off))
                    ctx.event('aware-instant-with-non-utc-offset')
                if rng.random() < 0.5:
                    txt = rng.choice(ISSUERS_TXT)
                    issuer, icomp = txt, rc.comp_from_uri(txt)
                    if rng.random() < 0.3:
                        issuer = OddStr(txt)          # (text is text, also as an instance of a str subclass with its own __str__)
                        ctx.event('issuer-id-given-as-a-str-subclass')
                else:
                    icomp = gen.component(rng, gen.BORING_TYPES)
                    issuer = rng.choice([bytes(icomp), bytearray(icomp), memoryview(bytes(icomp))])   # a component of a parsed name is a memoryview
                w.update(start=str(st), dur=dur, issuer=issuer if isinstance(issuer, str) else bytes(issuer).hex())
                rn, wire = derive_cert(form, issuer, pub, use_signer, st, dur)
                nb, na = fmt(start), fmt(start + datetime.timedelta(seconds=dur))
                vclass = ('derive', start.year in (1999, 2000, 2024), dur in (0, 86400, 86399))
            elif which == 'self':
                rn, wire = self_sign(form, pub, use_signer)
                icomp = rc.comp(8, b'self')
                now = datetime.datetime.now(UTC) + datetime.timedelta(seconds=FAKE[0])

                def nb(x):
                    return x == b'19700101T000000'

                def na(x, now=now):
                    try:
                        d = datetime.datetime.strptime(x.decode(), '%Y%m%dT%H%M%S')
                    except Exception:   # noqa
                        return False
                    return d.year == now.year + 20 and (d.month, d.day) == (now.month, now.day)
                vclass = ('self',)
            else:
                rn, wire = sign_req(form, pub, use_signer)
                icomp = rc.comp(8, b'cert-request')
                now = datetime.datetime.now(UTC).replace(tzinfo=None) + datetime.timedelta(seconds=FAKE[0])

                def nb(x, now=now):
                    try:
                        d = datetime.datetime.strptime(x.decode(), '%Y%m%dT%H%M%S')
                    except Exception:   # noqa
                        return False
                    return abs((d - now).total_seconds()) < 5

                def na(x, now=now):
                    try:
                        d = datetime.datetime.strptime(x.decode(), '%Y%m%dT%H%M%S')
                    except Exception:   # noqa
                        return False
                    return abs((d - now - datetime.timedelta(days=10)).total_seconds()) < 5
                vclass = ('req',)
        except Exception as e:   # noqa
            ctx.report(f'issue-raises:{which}:{type(e).__name__}@{raising_site(e)[0]}', f'{which} raised {e!r}', w)
            continue
        t1 = int(time.time() * 1000)
        sl = check_cert(ctx, which, wire, rn, key_name, icomp, pub, sinfo, nb, na, w, (t0, t1))
        for rec in (audit_log or []):
            try:
                rr = rc.strict_data(rec)
                if pkts.verify_independent(use_signer.audit_info, rr['signed_portion'], rr['sig_value']) is not True:
                    ctx.report('audit-record-signature-invalid', 'the Data packet signed from inside the issuing signer does not verify', w)
            except rc.Reject as e:
                ctx.report(f'audit-record-malformed:{e.reason}', f'the Data packet signed from inside the issuing signer is not one exact TLV tree: {e}', w)
        ctx.case((which, ik, sk, sl, vclass), sample=w if i % 150 == 0 else None)
    seen = {k for k in ctx.classes if k.startswith('siglen-ecdsa256-')}
    ctx.extra['ecdsa256_der_lengths_seen'] = sorted(int(k.rsplit('-', 1)[1]) for k in seen)
    ctx.need_class_prefix('siglen-ecdsa256-', 2)
    if old_tz is None:
        os.environ.pop('TZ', None)
    else:
        os.environ['TZ'] = old_tz
    time.tzset()
    if ctx.shard == 0:
        check_two_stores(ctx, rng)
        ctx.need_event('certificate-issued-by-one-of-two-stores-holding-the-same-key-name')
    ctx.need_event('cert-checked')
    ctx.need_event('issuer-signs-an-audit-record-from-inside-the-signing-call')
    ctx.need_class('local-time-zone-JST-9')
    ctx.need_class('public-key-encoding-ec-compressed')
    ctx.need_event('signer-reused-with-new-locator')
    ctx.need_event('key-locator-wire-form-32-octets')
    ctx.need_event('validity-with-fractional-seconds')
    ctx.need_event('validity-starting-now')
    ctx.need_event('issued-after-a-step-of-the-wall-clock')
    ctx.need_event('issuer-id-given-as-a-str-subclass')
    if not ctx.events.get('observation:no-tz-database'):
        ctx.need_event('aware-instant-in-a-zone-with-daylight-saving')
    ctx.assumptions = ['self_sign/sign_req read the real clock (datetime.now is not patchable): their instants are checked within 5 s',
                       'years < 1000 are outside the generated domain (no four-digit year)']
